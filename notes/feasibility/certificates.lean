import Mathlib.LinearAlgebra.Matrix.DotProduct
import Mathlib.Data.Real.Basic
import Mathlib.Tactic.Linarith
import Mathlib.Tactic.Ring
import Mathlib.Tactic.Abel
import Mathlib.Algebra.Order.BigOperators.Ring.Finset

open Matrix

variable {K m : ℕ}

/-- Farkas-type certificate ⇒ infeasible: no `x` with `A x ≥ b`. -/
theorem farkas_sound (A : Matrix (Fin K) (Fin m) ℝ) (b : Fin K → ℝ) (y : Fin K → ℝ)
    (hy : ∀ i, 0 ≤ y i) (hA : y ᵥ* A = 0) (hb : 0 < y ⬝ᵥ b) :
    ¬ ∃ x : Fin m → ℝ, ∀ i, b i ≤ (A *ᵥ x) i := by
  rintro ⟨x, hx⟩
  have h1 : y ⬝ᵥ b ≤ y ⬝ᵥ (A *ᵥ x) := by
    unfold dotProduct
    exact Finset.sum_le_sum (fun i _ => mul_le_mul_of_nonneg_left (hx i) (hy i))
  have h2 : y ⬝ᵥ (A *ᵥ x) = (y ᵥ* A) ⬝ᵥ x := by rw [dotProduct_mulVec]
  rw [h2, hA, zero_dotProduct] at h1
  linarith

/-- KKT certificate ⇒ `xs` is the point of `{x | A x ≥ b}` nearest to `c` (squared distance). -/
theorem kkt_projection_sound (A : Matrix (Fin K) (Fin m) ℝ) (b : Fin K → ℝ) (c xs : Fin m → ℝ)
    (lam : Fin K → ℝ) (hfeas : ∀ i, b i ≤ (A *ᵥ xs) i) (hlam : ∀ i, 0 ≤ lam i)
    (hstat : xs - c = lam ᵥ* A) (hcomp : ∀ i, lam i * ((A *ᵥ xs) i - b i) = 0)
    (x : Fin m → ℝ) (hx : ∀ i, b i ≤ (A *ᵥ x) i) :
    (xs - c) ⬝ᵥ (xs - c) ≤ (x - c) ⬝ᵥ (x - c) := by
  -- (xs - c)·(x - xs) = λ·(A x - A xs) = λ·(A x - b) - λ·(A xs - b) ≥ 0
  have key : 0 ≤ (xs - c) ⬝ᵥ (x - xs) := by
    rw [hstat, ← dotProduct_mulVec, mulVec_sub]
    unfold dotProduct
    apply Finset.sum_nonneg
    intro i _
    have h1 := hcomp i
    have h2 := hx i
    have h3 := hlam i
    simp only [Pi.sub_apply]
    nlinarith [mul_nonneg h3 (sub_nonneg.mpr h2)]
  have hsq : 0 ≤ (x - xs) ⬝ᵥ (x - xs) := by
    unfold dotProduct; exact Finset.sum_nonneg (fun i _ => mul_self_nonneg _)
  have expand : (x - c) ⬝ᵥ (x - c)
      = (xs - c) ⬝ᵥ (xs - c) + 2 * ((xs - c) ⬝ᵥ (x - xs)) + (x - xs) ⬝ᵥ (x - xs) := by
    have : x - c = (xs - c) + (x - xs) := by abel
    rw [this, add_dotProduct, dotProduct_add, dotProduct_add, dotProduct_comm (x - xs) (xs - c)]
    ring
  linarith

#print axioms farkas_sound
#print axioms kkt_projection_sound
