import Mathlib.Probability.Distributions.Gaussian.Real
import Mathlib.Analysis.SpecialFunctions.Gaussian.GaussianIntegral
import Mathlib.MeasureTheory.Integral.Pi

open MeasureTheory ProbabilityTheory Real Set
open scoped NNReal ENNReal

/-- E[exp(Z²/4)] = √2 for Z ~ N(0,1). -/
lemma integral_exp_sq_quarter :
    ∫ x, rexp (x^2/4) ∂(gaussianReal 0 1) = √2 := by
  rw [integral_gaussianReal_eq_integral_smul (by norm_num : (1:ℝ≥0) ≠ 0)]
  have h : ∀ x : ℝ, gaussianPDFReal 0 1 x • rexp (x^2/4) = (√(2*π))⁻¹ * rexp (-(1/4) * x^2) := by
    intro x
    simp only [gaussianPDFReal, NNReal.coe_one, mul_one, sub_zero, smul_eq_mul]
    rw [mul_assoc, ← Real.exp_add]; congr 2; ring
  simp_rw [h]
  rw [integral_const_mul, integral_gaussian]
  have h4 : √(2 * 2 * π) = 2 * √π := by
    rw [Real.sqrt_mul (by norm_num), Real.sqrt_mul_self (by norm_num)]
  have h22 : √2 * √2 = 2 := Real.mul_self_sqrt (by norm_num)
  have hs2 : √2 ≠ 0 := by positivity
  have hsp : √π ≠ 0 := by positivity
  rw [show π / (1/4) = 2 * 2 * π by ring, h4, Real.sqrt_mul (by norm_num : (0:ℝ) ≤ 2)]
  field_simp
  linarith [h22]

lemma integrable_exp_sq_quarter :
    Integrable (fun x : ℝ => rexp (x^2/4)) (gaussianReal 0 1) := by
  by_contra h
  have := integral_undef h
  rw [integral_exp_sq_quarter] at this
  have : (0:ℝ) < √2 := by positivity
  linarith

/-- χ²-type tail: for the standard Gaussian product measure on `Fin m → ℝ`. -/
theorem chi2_tail (m : ℕ) (x : ℝ) :
    (Measure.pi (fun _ : Fin m => gaussianReal 0 1)).real {z | x < ∑ i, (z i)^2}
      ≤ (√2)^m * rexp (-x/4) := by
  set μ := Measure.pi (fun _ : Fin m => gaussianReal 0 1) with hμ
  set f : (Fin m → ℝ) → ℝ := fun z => ∏ i, rexp ((z i)^2/4) with hf
  have hf_eq : ∀ z, f z = rexp ((∑ i, (z i)^2)/4) := by
    intro z; simp only [hf]; rw [← Real.exp_sum]; congr 1; rw [Finset.sum_div]
  have hint : Integrable f μ :=
    Integrable.fintype_prod (f := fun _ x => rexp (x^2/4)) (fun _ => integrable_exp_sq_quarter)
  have hval : ∫ z, f z ∂μ = (√2)^m := by
    have := integral_fintype_prod_eq_pow (ι := Fin m) (fun x : ℝ => rexp (x^2/4)) (μ := gaussianReal 0 1)
    simp only [hf, hμ]
    rw [this, integral_exp_sq_quarter]; simp
  have hsub : {z : Fin m → ℝ | x < ∑ i, (z i)^2} ⊆ {z | rexp (x/4) ≤ f z} := by
    intro z hz; simp only [Set.mem_setOf_eq] at hz ⊢
    rw [hf_eq]; apply Real.exp_le_exp.mpr; linarith
  have hmarkov := mul_meas_ge_le_integral_of_nonneg (μ := μ) (f := f)
    (ae_of_all _ (fun z => by simp only [hf]; positivity)) hint (rexp (x/4))
  have hpos : 0 < rexp (x/4) := Real.exp_pos _
  calc μ.real {z | x < ∑ i, (z i)^2}
      ≤ μ.real {z | rexp (x/4) ≤ f z} := measureReal_mono hsub
    _ ≤ (∫ z, f z ∂μ) / rexp (x/4) := by
        rw [le_div_iff₀ hpos, mul_comm]; exact hmarkov
    _ = (√2)^m * rexp (-x/4) := by
        rw [hval, div_eq_mul_inv, ← Real.exp_neg]; congr 2; ring

#print axioms chi2_tail
