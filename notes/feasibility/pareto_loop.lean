/-! Pareto loop model, import-free. Mirrors `PolyhedralConeOrder.get_pareto_set`. -/

def maskOf {α} (dom : α → α → Bool) (els : List α) (k : Nat) (vj : α) : List Bool :=
  els.zipIdx.map fun (vi, i) => i == k || !(dom vj vi)

def keep {β} (xs : List β) (m : List Bool) : List β :=
  (xs.zip m).filterMap fun (x, b) => if b then some x else none

theorem maskOf_length {α} (dom : α → α → Bool) (els : List α) (k : Nat) (vj : α) :
    (maskOf dom els k vj).length = els.length := by simp [maskOf]

theorem keep_length {β} (xs : List β) (m : List Bool) (h : m.length = xs.length) :
    (keep xs m).length = m.count true := by
  induction xs generalizing m with
  | nil => cases m <;> simp_all [keep]
  | cons x xs ih =>
    cases m with
    | nil => simp at h
    | cons b m =>
      have hm : m.length = xs.length := by simpa using h
      have := ih m hm
      cases b <;> simp_all [keep, List.count_cons]

theorem maskOf_getElem {α} (dom : α → α → Bool) (els : List α) (k : Nat) (vj : α)
    (hk : k < els.length) : (maskOf dom els k vj)[k]'(by simpa [maskOf] using hk) = true := by
  simp [maskOf]

theorem count_split (m : List Bool) (k : Nat) :
    m.count true = (m.take k).count true + (m.drop k).count true := by
  rw [← List.count_append, List.take_append_drop]

theorem drop_count_pos (m : List Bool) (k : Nat) (hk : k < m.length) (hm : m[k] = true) :
    1 ≤ (m.drop k).count true := by
  have : m.drop k = m[k] :: m.drop (k+1) := by
    rw [List.drop_eq_getElem_cons hk]
  rw [this, hm]; simp

def paretoLoop {α} (dom : α → α → Bool) (idx : List Nat) (els : List α) (k : Nat) : List Nat :=
  if h : k < els.length then
    let vj := els[k]
    let m := maskOf dom els k vj
    paretoLoop dom (keep idx m) (keep els m) ((m.take k).count true + 1)
  else idx
termination_by els.length - k
decreasing_by
  have hml : (maskOf dom els k els[k]).length = els.length := maskOf_length ..
  have hk' : k < (maskOf dom els k els[k]).length := by omega
  have h1 := keep_length els (maskOf dom els k els[k]) hml
  have h2 := count_split (maskOf dom els k els[k]) k
  have h3 := drop_count_pos (maskOf dom els k els[k]) k hk' (maskOf_getElem dom els k els[k] h)
  have h4 : ((maskOf dom els k els[k]).drop k).count true ≤ ((maskOf dom els k els[k]).drop k).length :=
    List.count_le_length
  have h5 : ((maskOf dom els k els[k]).drop k).length = els.length - k := by simp [hml]
  omega

def getParetoSet {α} (dom : α → α → Bool) (els : List α) : List Nat :=
  paretoLoop dom (List.range els.length) els 0

-- componentwise dominance on Rat pairs, a ≽ b
def domCW (a b : Rat × Rat) : Bool := decide (b.1 ≤ a.1) && decide (b.2 ≤ a.2)
#eval getParetoSet domCW [(1,2),(2,1),(0,0),(2,1),(3,0),(1,1)]
#print axioms paretoLoop
