import Mathlib.Probability.Distributions.Gaussian.Real
import Mathlib.Analysis.SpecialFunctions.Gaussian.GaussianIntegral

open MeasureTheory ProbabilityTheory Real Set
open scoped NNReal ENNReal

lemma pdf_le (c x : ℝ) (hc : 0 ≤ c) (hx : c ≤ x) :
    gaussianPDFReal 0 1 x ≤ rexp (-c^2/2) * gaussianPDFReal c 1 x := by
  simp only [gaussianPDFReal, NNReal.coe_one, mul_one, sub_zero]
  have h : rexp (-c^2/2) * ((√(2 * π))⁻¹ * rexp (-(x - c) ^ 2 / 2))
      = (√(2 * π))⁻¹ * rexp (-c^2/2 + -(x - c) ^ 2 / 2) := by
    rw [Real.exp_add]; ring
  rw [h]
  apply mul_le_mul_of_nonneg_left _ (by positivity)
  apply Real.exp_le_exp.mpr
  nlinarith [mul_nonneg hc (sub_nonneg.mpr hx)]

lemma std_Ioi_zero : (gaussianReal 0 1) (Ioi (0:ℝ)) = 2⁻¹ := by
  have hneg : (gaussianReal 0 1) (Iio (0:ℝ)) = (gaussianReal 0 1) (Ioi (0:ℝ)) := by
    have h := gaussianReal_map_neg (μ := 0) (v := 1)
    rw [neg_zero] at h
    conv_lhs => rw [← h]
    rw [Measure.map_apply (by fun_prop) measurableSet_Iio]
    congr 1
    ext x; simp
  have htot : (gaussianReal 0 1) (Iio (0:ℝ)) + (gaussianReal 0 1) (Ici (0:ℝ)) = 1 := by
    rw [← measure_union (by
      rw [Set.disjoint_left]; intro x hx hx'; simp at hx hx'; linarith) measurableSet_Ici]
    rw [Iio_union_Ici]; simp
  have : NullSingletonClass (gaussianReal 0 (1:ℝ≥0)) := nullSingletonClass_gaussianReal (by norm_num)
  have hIci : (gaussianReal 0 1) (Ici (0:ℝ)) = (gaussianReal 0 1) (Ioi (0:ℝ)) :=
    measure_congr Ioi_ae_eq_Ici.symm
  rw [hneg, hIci] at htot
  have h2 : (2:ℝ≥0∞) * (gaussianReal 0 1) (Ioi (0:ℝ)) = 1 := by rw [two_mul]; exact htot
  exact ENNReal.eq_inv_of_mul_eq_one_left (by rw [mul_comm]; exact h2)

theorem std_upper_tail (c : ℝ) (hc : 0 ≤ c) :
    (gaussianReal 0 1) (Ioi c) ≤ ENNReal.ofReal (rexp (-c^2/2) / 2) := by
  have h1 : (1:ℝ≥0) ≠ 0 := one_ne_zero
  rw [gaussianReal_apply_eq_integral 0 h1]
  apply ENNReal.ofReal_le_ofReal
  calc ∫ x in Ioi c, gaussianPDFReal 0 1 x
      ≤ ∫ x in Ioi c, rexp (-c^2/2) * gaussianPDFReal c 1 x := by
        apply setIntegral_mono_on
        · exact (integrable_gaussianPDFReal 0 1).integrableOn
        · exact ((integrable_gaussianPDFReal c 1).const_mul _).integrableOn
        · exact measurableSet_Ioi
        · intro x hx; exact pdf_le c x hc (le_of_lt hx)
    _ = rexp (-c^2/2) * ∫ x in Ioi c, gaussianPDFReal c 1 x := by
        rw [integral_const_mul]
    _ = rexp (-c^2/2) / 2 := by
        have h3 : (gaussianReal c 1) (Ioi c) = 2⁻¹ := by
          have hm := gaussianReal_map_add_const (μ := 0) (v := 1) c
          rw [zero_add] at hm
          rw [← hm, Measure.map_apply (by fun_prop) measurableSet_Ioi]
          have : (fun x : ℝ => x + c) ⁻¹' Ioi c = Ioi 0 := by ext x; simp
          rw [this, std_Ioi_zero]
        rw [gaussianReal_apply_eq_integral c h1] at h3
        have h4 : ∫ x in Ioi c, gaussianPDFReal c 1 x = 1/2 := by
          have hnn : 0 ≤ ∫ x in Ioi c, gaussianPDFReal c 1 x :=
            setIntegral_nonneg measurableSet_Ioi (fun x _ => gaussianPDFReal_nonneg _ _ _)
          have := congrArg ENNReal.toReal h3
          rw [ENNReal.toReal_ofReal hnn] at this
          rw [this]; simp
        rw [h4]; ring

#print axioms std_upper_tail
