import Mathlib.Analysis.InnerProductSpace.Adjoint

open RealInnerProductSpace

variable {E : Type*} [NormedAddCommGroup E] [InnerProductSpace ℝ E] [CompleteSpace E]

/-- Support function of the ellipsoid `{c + a • A u | ‖u‖ ≤ 1}` in direction `-w`:
the minimum of `⟪w, ·⟫` over it is `⟪w, c⟫ - a * ‖A† w‖`. -/
theorem ellipsoid_min (w c : E) (A : E →L[ℝ] E) (a t : ℝ) (ha : 0 ≤ a) :
    (∀ u : E, ‖u‖ ≤ 1 → t ≤ ⟪w, c + a • A u⟫) ↔ t ≤ ⟪w, c⟫ - a * ‖ContinuousLinearMap.adjoint A w‖ := by
  set g := ContinuousLinearMap.adjoint A w with hg
  have hinner : ∀ u, ⟪w, A u⟫ = ⟪g, u⟫ := fun u => by
    rw [hg, ContinuousLinearMap.adjoint_inner_left]
  constructor
  · intro h
    by_cases hz : g = 0
    · have := h 0 (by simp)
      simpa [hz] using this
    · have hn : 0 < ‖g‖ := norm_pos_iff.mpr hz
      have := h (-(‖g‖⁻¹ • g)) (by
        rw [norm_neg, norm_smul, norm_inv, norm_norm, inv_mul_cancel₀ hn.ne'])
      rw [inner_add_right, inner_smul_right, hinner, inner_neg_right, inner_smul_right,
        real_inner_self_eq_norm_sq] at this
      have e : a * -(‖g‖⁻¹ * ‖g‖ ^ 2) = - (a * ‖g‖) := by
        field_simp
      rw [e] at this
      linarith
  · intro h u hu
    rw [inner_add_right, inner_smul_right, hinner]
    have h1 : -(‖g‖ * ‖u‖) ≤ ⟪g, u⟫ := by
      have := abs_real_inner_le_norm g u
      linarith [neg_abs_le ⟪g, u⟫]
    have h2 : ‖g‖ * ‖u‖ ≤ ‖g‖ := by
      calc ‖g‖ * ‖u‖ ≤ ‖g‖ * 1 := mul_le_mul_of_nonneg_left hu (norm_nonneg _)
        _ = ‖g‖ := mul_one _
    nlinarith [mul_le_mul_of_nonneg_left (show -‖g‖ ≤ ⟪g, u⟫ by linarith) ha]

#print axioms ellipsoid_min
