import Formulas
import Mathlib.Analysis.SpecialFunctions.Log.Basic
import Mathlib.Analysis.SpecialFunctions.Sqrt
import Mathlib.Analysis.SpecialFunctions.Trigonometric.Basic

noncomputable instance : RealLike ℝ where
  ofNat n := (n : ℝ)
  sqrt := Real.sqrt
  log := Real.log
  exp := Real.exp
  pi := Real.pi

theorem vogpBeta_real (m K t1 δ c : ℝ) :
    vogpBeta m K t1 δ c = Real.sqrt (2 * Real.log (m * K * Real.pi ^ 2 * t1 ^ 2 / (3 * δ)) / c) := by
  simp only [vogpBeta, RealLike.sqrt, RealLike.log, RealLike.ofNat, RealLike.pi]
  push_cast
  ring_nf

/-- the per-event bound the union sum needs: exp(-β²/2) = 3δ/(mKπ²t²) at contraction 1 -/
theorem vogp_event (m K t1 δ : ℝ) (hm : 0 < m) (hK : 0 < K) (ht : 0 < t1) (hδ : 0 < δ)
    (hbig : 1 ≤ m * K * Real.pi ^ 2 * t1 ^ 2 / (3 * δ)) :
    Real.exp (-(vogpBeta m K t1 δ 1) ^ 2 / 2) = 3 * δ / (m * K * Real.pi ^ 2 * t1 ^ 2) := by
  rw [vogpBeta_real]
  have hpos : 0 < m * K * Real.pi ^ 2 * t1 ^ 2 / (3 * δ) := by positivity
  have h : 0 ≤ 2 * Real.log (m * K * Real.pi ^ 2 * t1 ^ 2 / (3 * δ)) / 1 := by
    have := Real.log_nonneg hbig
    positivity
  rw [Real.sq_sqrt h]
  have : -(2 * Real.log (m * K * Real.pi ^ 2 * t1 ^ 2 / (3 * δ)) / 1) / 2
      = Real.log ((m * K * Real.pi ^ 2 * t1 ^ 2 / (3 * δ))⁻¹) := by
    rw [Real.log_inv]; ring
  rw [this, Real.exp_log (by positivity)]
  field_simp

#print axioms vogpBeta_real
#print axioms vogp_event
