/-! import-free: a tiny class of "real-like" carriers and one schedule written once -/
class RealLike (α : Type) extends Add α, Sub α, Mul α, Div α, Neg α where
  ofNat : Nat → α
  sqrt : α → α
  log : α → α
  exp : α → α
  pi : α

namespace RealLike
instance : RealLike Float where
  ofNat n := n.toFloat
  sqrt := Float.sqrt
  log := Float.log
  exp := Float.exp
  pi := 3.141592653589793
end RealLike

open RealLike in
/-- VOGP.compute_beta: sqrt( 2*log(m*K*pi^2*(t+1)^2/(3*delta)) / c ) -/
def vogpBeta {α} [RealLike α] (m K t1 δ c : α) : α :=
  sqrt ((ofNat 2 * log (m * K * (pi * pi) * (t1 * t1) / (ofNat 3 * δ))) / c)

#eval vogpBeta (α := Float) 2 32 1 0.1 64
