import Mathlib.LinearAlgebra.Matrix.DotProduct
import Mathlib.Data.Real.Basic
import Mathlib.Tactic.Linarith
import Mathlib.Algebra.Order.BigOperators.Ring.Finset

open Matrix

variable {m : ℕ}

def box (l u : Fin m → ℝ) : Set (Fin m → ℝ) := {z | ∀ i, l i ≤ z i ∧ z i ≤ u i}
def IsVertex (l u v : Fin m → ℝ) : Prop := ∀ i, v i = l i ∨ v i = u i

theorem vertex_mem_box {l u v : Fin m → ℝ} (hlu : ∀ i, l i ≤ u i) (hv : IsVertex l u v) :
    v ∈ box l u := by
  intro i
  rcases hv i with h | h <;> rw [h]
  · exact ⟨le_refl _, hlu i⟩
  · exact ⟨hlu i, le_refl _⟩

/-- A linear functional on a box is bounded below by `t` iff it is at every vertex. -/
theorem linear_ge_on_box_iff (l u w : Fin m → ℝ) (hlu : ∀ i, l i ≤ u i) (t : ℝ) :
    (∀ z ∈ box l u, t ≤ w ⬝ᵥ z) ↔ (∀ v, IsVertex l u v → t ≤ w ⬝ᵥ v) := by
  constructor
  · intro h v hv; exact h v (vertex_mem_box hlu hv)
  · intro h z hz
    let v : Fin m → ℝ := fun i => if 0 ≤ w i then l i else u i
    have hv : IsVertex l u v := fun i => by
      by_cases hw : 0 ≤ w i <;> simp [v, hw]
    have hle : w ⬝ᵥ v ≤ w ⬝ᵥ z := by
      unfold dotProduct
      apply Finset.sum_le_sum
      intro i _
      by_cases hw : 0 ≤ w i
      · simp only [v, hw, if_true]; exact mul_le_mul_of_nonneg_left (hz i).1 hw
      · simp only [v, hw, if_false]
        have hw' : w i ≤ 0 := le_of_lt (not_le.mp hw)
        exact mul_le_mul_of_nonpos_left (hz i).2 hw'
    exact le_trans (h v hv) hle

/-- Two-box version used by "is dominated": `∀ z ∈ R₁, ∀ z' ∈ R₂, t ≤ w·(z' + s - z)`. -/
theorem dominated_iff_vertices (l₁ u₁ l₂ u₂ w s : Fin m → ℝ)
    (h₁ : ∀ i, l₁ i ≤ u₁ i) (h₂ : ∀ i, l₂ i ≤ u₂ i) (t : ℝ) :
    (∀ z ∈ box l₁ u₁, ∀ z' ∈ box l₂ u₂, t ≤ w ⬝ᵥ (z' + s - z)) ↔
    (∀ v, IsVertex l₁ u₁ v → ∀ v', IsVertex l₂ u₂ v' → t ≤ w ⬝ᵥ (v' + s - v)) := by
  have expand : ∀ a b : Fin m → ℝ, w ⬝ᵥ (b + s - a) = w ⬝ᵥ b + w ⬝ᵥ s + (-w) ⬝ᵥ a := by
    intro a b; rw [dotProduct_sub, dotProduct_add, neg_dotProduct]; ring
  simp only [expand]
  constructor
  · intro h v hv v' hv'
    exact h v (vertex_mem_box h₁ hv) v' (vertex_mem_box h₂ hv')
  · intro h z hz z' hz'
    -- first move z' to a vertex, then z
    have step1 : ∀ v, IsVertex l₁ u₁ v → t - w ⬝ᵥ s - (-w) ⬝ᵥ v ≤ w ⬝ᵥ z' := by
      intro v hv
      exact (linear_ge_on_box_iff l₂ u₂ w h₂ _).mpr (fun v' hv' => by linarith [h v hv v' hv']) z' hz'
    have step2 : t - w ⬝ᵥ s - w ⬝ᵥ z' ≤ (-w) ⬝ᵥ z :=
      (linear_ge_on_box_iff l₁ u₁ (-w) h₁ _).mpr (fun v hv => by linarith [step1 v hv]) z hz
    linarith

#print axioms dominated_iff_vertices
