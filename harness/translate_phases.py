"""Phase translator: the set-transition methods of the PAC algorithms -> Lean definitions (DESIGN §2.10.2).

`Model/Steps.lean` holds the hand-written decision-phase logic (`pavebaDiscard`, `pavebaPareto`, `pavebaUseful`,
`pessimisticSet`, `vogpDiscard`, `epsilonCovering`, `epsilonCoveringAD`, Auer's phases, the `…Round` compositions).
The correspondence harness ties it to the code behaviourally.  This module adds the syntactic tie: on every
`./check C02|C03|C05` (with Lean) `render(repo)`

1. parses `vopy/algorithms/{paveba,paveba_gp,paveba_partial_gp,vogp,vogp_ad,epal,auer}.py` with `ast` (nothing is
   imported or executed); each file is translated separately, so an edit in one of the three textually identical
   PaVeBa files is seen;
2. symbolically executes `discarding`, `pareto_updating`, `useful_updating`, `epsiloncovering`,
   `compute_pessimistic_set` (inlined at its call site), Auer's `small_m` / `big_m`, and the call sequence of
   `run_one_step`, recognising the loop idioms listed below into a small IR;
3. prints one Lean definition per (algorithm, phase) into `lean/VOPyVerif/Gen/Phases.lean`, over the combinators of
   `Model/Steps.lean` (`union`, `anyOther`, `removeAll`, `addAll`) and `List.filter/any/contains`.  Every definition
   takes ALL oracles and ALL state sets of its algorithm and returns the WHOLE new state, so which set is read,
   which oracle is asked, in which argument order, with which slack, and which sets are written is visible in the
   term (a witness drawn from `S ∪ P` instead of `S ∪ U` is a different term, not a renamed parameter).

`Proofs/GenAgreePhases.lean` proves `gen_<alg>_<phase> = <hand definition>` for all oracles and all lists.

Idioms understood (anything else raises `Untranslatable` naming the construct -> broken proof obligation):
  * set expressions: `self.X`, `a.union(b)`, `a.difference(b)`, `set()`, `[]`, `list(a)`, `set(a)`, `a.copy()`,
    `self.compute_pessimistic_set()` (the callee is executed symbolically: no state change, returns a set);
  * aliases of the region table: `regions = self.design_space.confidence_regions`;
  * collector loop: `for i in A: … for j in B: [if j == i: continue] [if j in X: continue] … if TEST: [acc.append(i)]
    break` `[else: acc.append(i)]` with accumulators that are empty when the loop starts (`[]`, `set()`, a state set
    just reset); `continue` on self-comparison -> `anyOther`, none -> `List.any`; accumulation at `break` -> filter by
    the scan, in the `for … else` -> filter by its negation; lookups (`x_conf = regions[x]`, `x_beta = self.beta_t[x]`,
    `beta = a + b`) may stand anywhere in the two bodies, in any order, under any local names;
    `enumerate(A)` (position unused) and `zip(I, A)` of two accumulators filled in lockstep are read as `A`;
  * TEST: `confidence_region_is_dominated/_is_covered(self.order, R_a, R_b, SLACK)`,
    `confidence_region_check_dominates(self.order, R_a, R_b)`, `np.all(self.small_m/big_m(R_a.center, R_b.center)
    </<=/> beta)`, `not TEST`; the design index each region argument denotes is tracked through the lookups;
  * SLACK: `0`, `self.epsilon`, `self.cone_alpha`, `self.u_star`, products, and attributes assigned exactly once in
    the class from such an expression (`self.cone_alpha_eps`, `self.u_star_eps`) -> a symbolic `Slack` tag;
  * apply loop: `for x in acc: self.S.remove(x)` / `self.P.add(x)` -> `removeAll` / `addAll`;
  * VOGP_AD's gate: `if not self.enable_epsilon_covering: for d in self.S: if depth[d] != max: return` /
    `… == max: break`, `else:` branch, the latch assignment; `if`s on the latch duplicate the continuation;
  * `run_one_step`: the sequence of `self.<method>()` calls (`if self.S:` guarded ones marked `?`), the decision
    phases composed in that order.
Soundness boundary (assumed, not checked): Python `set`s are modelled as duplicate-free lists whose order is the
iteration order (as in `Model/Steps.lean`); `logging` calls and f-strings have no effect; the oracle functions are
pure; methods called by `run_one_step` other than the decision phases do not change S / P / U.
"""
from __future__ import annotations

import ast
import hashlib
from pathlib import Path

from .translate import Untranslatable

ALG_DIR = "vopy/algorithms/"

ORACLES = {
    "confidence_region_is_dominated": ("isDom", True),
    "confidence_region_is_covered": ("isCov", True),
    "confidence_region_check_dominates": ("pessDom", False),
}
REGIONS = "self.design_space.confidence_regions"
DEPTHS = "self.design_space.point_depths"
MAXDEPTH = "self.max_discretization_depth"
LATCH = "self.enable_epsilon_covering"

FAMILY = {
    # family -> (binders, state variables in tuple order, result type)
    "paveba": ("(isDom isCov : Slack → Rel) (pessDom : Rel) (S P U : List Nat)", ["S", "P", "U"],
               "List Nat × List Nat × List Nat"),
    "vogp": ("(isDom isCov : Slack → Rel) (pessDom : Rel) (S P : List Nat)", ["S", "P"], "List Nat × List Nat"),
    "vogp_ad": ("(isDom isCov : Slack → Rel) (pessDom : Rel) (depth : Nat → Nat) (maxDepth : Nat) (enabled : Bool)"
                " (S P : List Nat)", ["S", "P", "enabled"], "List Nat × List Nat × Bool"),
    "auer": ("(eps : Rat) (centre width : Nat → Vec) (S P : List Nat)", ["S", "P"], "List Nat × List Nat"),
}
ARGS = {
    "paveba": "isDom isCov pessDom", "vogp": "isDom isCov pessDom",
    "vogp_ad": "isDom isCov pessDom depth maxDepth", "auer": "eps centre width",
}
ALGS = [
    # (lean prefix, file, class, family, phases, value functions, external methods of run_one_step)
    ("paveba", "paveba.py", "PaVeBa", "paveba", ["discarding", "pareto_updating", "useful_updating"], []),
    ("pavebagp", "paveba_gp.py", "PaVeBaGP", "paveba", ["discarding", "pareto_updating", "useful_updating"], []),
    ("partialgp", "paveba_partial_gp.py", "PaVeBaPartialGP", "paveba",
     ["discarding", "pareto_updating", "useful_updating"], []),
    ("vogp", "vogp.py", "VOGP", "vogp", ["discarding", "epsiloncovering"], ["compute_pessimistic_set"]),
    ("epal", "epal.py", "EpsilonPAL", "vogp", ["discarding", "epsiloncovering"], ["compute_pessimistic_set"]),
    ("vogpad", "vogp_ad.py", "VOGP_AD", "vogp_ad", ["discarding", "epsiloncovering"], ["compute_pessimistic_set"]),
    ("auer", "auer.py", "Auer", "auer", ["discarding", "pareto_updating"], []),
]
STATE_ATTR = {"self.S": "S", "self.P": "P", "self.U": "U", LATCH: "enabled"}

PRELUDE = '''/-- The slack handed to `confidence_region_is_dominated / _is_covered`, as the source writes it (a symbolic tag:
the oracles of `Model/Steps.lean` have the slack built in; here the oracle family is indexed by it, so that a changed
slack expression is a changed term). -/
inductive Slack where
  | nat (n : Nat)
  | eps
  | coneAlpha
  | uStar
  | mul (a b : Slack)
'''


# ----------------------------------------------------------------------------------------------------------------
# IR: plain tuples.  sets: ("var", n) ("empty",) ("union", a, b) ("diff", a, b) ("filter", src, v, cond)
#   ("removeAll", a, b) ("addAll", a, b);  bools: ("oracle", fn, slack|None, a, b) ("anyOther", src, v, self, c)
#   ("any", src, v, c) ("not", b) ("and", a, b) ("contains", set, v) ("bvar", n) ("true",) ("depth", op, v)
#   ("all", op, scalar, vec);  scalars / vectors / slack: strings already in Lean syntax
# ----------------------------------------------------------------------------------------------------------------
def pp_set(x) -> str:
    k = x[0]
    if k == "var":
        return x[1]
    if k == "empty":
        return "([] : List Nat)"
    if k == "union":
        return f"union {arg(x[1])} {arg(x[2])}"
    if k == "diff":
        return f"{arg(x[1])}.filter (fun i => !{arg(x[2])}.contains i)"
    if k == "filter":
        return f"{arg(x[1])}.filter (fun {x[2]} => {pp_bool(x[3])})"
    if k == "removeAll":
        return f"removeAll {arg(x[1])} {arg(x[2])}"
    if k == "addAll":
        return f"addAll {arg(x[1])} {arg(x[2])}"
    raise Untranslatable(f"internal: set node {k}")


def arg(x) -> str:
    s = pp_set(x)
    return s if x[0] in ("var",) or s.startswith("(") and x[0] == "empty" else f"({s})"


def pp_bool(x, top=True) -> str:
    k = x[0]
    if k == "oracle":
        _, fn, slack, a, b = x
        return f"{fn} {slack} {a} {b}" if slack is not None else f"{fn} {a} {b}"
    if k == "anyOther":
        return f"anyOther (fun {x[2]} => {pp_bool(x[4])}) {x[3]} {arg(x[1])}"
    if k == "any":
        return f"{arg(x[1])}.any (fun {x[2]} => {pp_bool(x[3])})"
    if k == "not":
        return f"!({pp_bool(x[1])})" if x[1][0] not in ("bvar", "contains") else f"!{pp_bool(x[1])}"
    if k == "and":
        return f"({pp_bool(x[1])} && {pp_bool(x[2])})"
    if k == "contains":
        return f"{arg(x[1])}.contains {x[2]}"
    if k == "bvar":
        return x[1]
    if k == "true":
        return "true"
    if k == "depth":
        return f"(depth {x[2]} {x[1]} maxDepth)"
    if k == "all":
        fn = {">": "allGt", "<": "allLt", "<=": "allLe"}[x[1]]
        return f"{fn} ({x[2]}) ({x[3]})"
    raise Untranslatable(f"internal: bool node {k}")


def mentions(x, name) -> bool:
    if isinstance(x, tuple):
        if x[0] == "var" and x[1] == name:
            return True
        return any(mentions(y, name) for y in x[1:])
    return False


# ----------------------------------------------------------------------------------------------------------------
class Leaf:
    def __init__(self, lets, state, ret):
        self.lets, self.state, self.ret = lets, state, ret


class Branch:
    def __init__(self, nlets, lets, cond, a, b):
        self.nlets, self.lets, self.cond, self.a, self.b = nlets, lets, cond, a, b


class Acc:
    """an accumulator local: value (set IR) + how it was filled (for zip pairing)"""

    def __init__(self, value, origin=None):
        self.value, self.origin = value, origin


class ClassExec:
    def __init__(self, tree: ast.Module, cls: str, family: str, prefix: str):
        cs = [n for n in tree.body if isinstance(n, ast.ClassDef) and n.name == cls]
        if len(cs) != 1:
            raise Untranslatable(f"class {cls} not found")
        self.cls = cs[0]
        self.family, self.prefix = family, prefix
        self.methods, self.dup = {}, set()
        for n in self.cls.body:
            if isinstance(n, ast.FunctionDef):
                if n.name in self.methods:
                    self.dup.add(n.name)  # property + setter; an error only if the translator needs the method
                self.methods[n.name] = n
        self.state_vars = FAMILY[family][1]
        self.counter = 0

    # -- slack ----------------------------------------------------------------------------------------------
    def slack(self, n, in_init=False, depth=0) -> str:
        return self.slack_pp(self.slack_factors(n, in_init, depth))

    @staticmethod
    def slack_pp(fs):
        fs = sorted(fs)
        out = fs[0]
        for f in fs[1:]:
            out = f"(Slack.mul {out} {f})"
        return out

    def slack_factors(self, n, in_init, depth):
        text = ast.unparse(n)
        if depth > 4:
            raise Untranslatable(f"slack '{text}': definition chain too deep")
        if isinstance(n, ast.Constant) and isinstance(n.value, int) and not isinstance(n.value, bool) and n.value >= 0:
            return [f"(Slack.nat {n.value})"]
        atoms = {"self.epsilon": "Slack.eps", "self.cone_alpha": "Slack.coneAlpha", "self.u_star": "Slack.uStar"}
        if text in atoms:
            return [atoms[text]]
        if in_init and text == "epsilon":
            return ["Slack.eps"]  # the constructor argument stored as self.epsilon by PALAlgorithm.__init__
        if isinstance(n, ast.BinOp) and isinstance(n.op, ast.Mult):
            return self.slack_factors(n.left, in_init, depth) + self.slack_factors(n.right, in_init, depth)
        if isinstance(n, ast.Attribute) and isinstance(n.value, ast.Name) and n.value.id == "self":
            defs = []
            for m in self.methods.values():
                for s in ast.walk(m):
                    if isinstance(s, ast.Assign) and any(ast.unparse(t) == text for t in s.targets):
                        defs.append((m.name, s.value))
                    if isinstance(s, (ast.AugAssign, ast.AnnAssign)) and ast.unparse(s.target) == text:
                        defs.append((m.name, None))
            if len(defs) != 1 or defs[0][1] is None:
                raise Untranslatable(f"slack '{text}' is assigned {len(defs)} times in the class (expected once)")
            return self.slack_factors(defs[0][1], defs[0][0] == "__init__", depth + 1)
        raise Untranslatable(f"slack expression '{text}'")

    # -- expressions ----------------------------------------------------------------------------------------
    def fresh(self):
        self.counter += 1
        return f"a{self.counter}"

    def set_expr(self, n, st, env, lets):
        text = ast.unparse(n)
        if text in STATE_ATTR:
            v = STATE_ATTR[text]
            if v not in st or v == "enabled":
                raise Untranslatable(f"'{text}' is not a state set of this algorithm")
            return self.read(st[v], text)
        if isinstance(n, ast.Name):
            if n.id not in env:
                raise Untranslatable(f"name '{n.id}' is not a set-valued local")
            v = env[n.id]
            if isinstance(v, Acc):
                return self.read(v.value, n.id)
            if isinstance(v, tuple) and v[0] in ("var", "empty", "union", "diff", "filter", "removeAll", "addAll"):
                return v
            raise Untranslatable(f"name '{n.id}' does not denote a set")
        if isinstance(n, (ast.List, ast.Set)) and not n.elts:
            return ("empty",)
        if isinstance(n, ast.Call) and not n.keywords:
            f = n.func
            if isinstance(f, ast.Name) and f.id in ("set", "list") and len(n.args) <= 1:
                return ("empty",) if not n.args else self.set_expr(n.args[0], st, env, lets)
            if isinstance(f, ast.Attribute) and f.attr == "copy" and not n.args:
                return self.set_expr(f.value, st, env, lets)
            if isinstance(f, ast.Attribute) and f.attr in ("union", "difference") and len(n.args) == 1:
                a = self.set_expr(f.value, st, env, lets)
                b = self.set_expr(n.args[0], st, env, lets)
                return ("union" if f.attr == "union" else "diff", a, b)
            if (isinstance(f, ast.Attribute) and ast.unparse(f.value) == "self" and not n.args
                    and f.attr in self.methods and f.attr not in ("run_one_step",)):
                return self.call_value(f.attr, st, lets)
        raise Untranslatable(f"set expression '{text}'")

    def read(self, v, what):
        if v is None:
            raise Untranslatable(f"'{what}' is read inside the loop that fills it")
        return v

    def call_value(self, name, st, lets):
        """a method used as a set-valued function: executed symbolically on the current state"""
        if getattr(self, "_depth", 0) > 3:
            raise Untranslatable(f"recursive call of {name}")
        self._depth = getattr(self, "_depth", 0) + 1
        try:
            r = self.run(self.body(name), dict(st), {}, lets)
        finally:
            self._depth -= 1
        if not isinstance(r, Leaf) or r.ret is None:
            raise Untranslatable(f"{name}() does not return a set on a single path")
        if any(r.state[k] != st[k] for k in st):
            raise Untranslatable(f"{name}() changes the state sets")
        lets[:] = r.lets
        return r.ret

    def body(self, name):
        if name not in self.methods or name in self.dup:
            raise Untranslatable(f"method {name} not found (or defined twice) in class {self.cls.name}")
        b = self.methods[name].body
        if b and isinstance(b[0], ast.Expr) and isinstance(b[0].value, ast.Constant) and isinstance(b[0].value.value, str):
            b = b[1:]
        return b

    def bind(self, ir, lets):
        """a compound set value bound to a local becomes a `let`"""
        if ir[0] in ("var", "empty"):
            return ir
        nm = self.fresh()
        lets.append((nm, ir))
        return ("var", nm)

    # index / region / vector lookups inside loop bodies: env maps local -> ("region", v) ("width", v) ("vec", lean)
    def idx(self, n, env):
        if isinstance(n, ast.Name) and isinstance(env.get(n.id), tuple) and env[n.id][0] == "idx":
            return env[n.id][1]
        if isinstance(n, ast.Name) and isinstance(env.get(n.id), tuple) and env[n.id][0] == "pos":
            raise Untranslatable(f"positional index '{n.id}' used in a lookup (widths are looked up by design)")
        raise Untranslatable(f"'{ast.unparse(n)}' is not a loop variable over designs")

    def lookup(self, n, env):
        """region / width / vector denoted by an expression"""
        if isinstance(n, ast.Name) and isinstance(env.get(n.id), tuple) and env[n.id][0] in ("region", "width", "vec"):
            return env[n.id]
        if isinstance(n, ast.Subscript):
            base = ast.unparse(n.value)
            if base == REGIONS or env.get(base) == ("regions",):
                return ("region", self.idx(n.slice, env))
            if base == "self.beta_t":
                return ("width", self.idx(n.slice, env))
        if isinstance(n, ast.BinOp) and isinstance(n.op, ast.Add):
            a, b = self.vec(n.left, env), self.vec(n.right, env)
            return ("vec", f"vadd ({a}) ({b})")
        raise Untranslatable(f"lookup '{ast.unparse(n)}'")

    def vec(self, n, env):
        v = self.lookup(n, env)
        if v[0] == "width":
            return f"width {v[1]}"
        if v[0] == "vec":
            return v[1]
        raise Untranslatable(f"'{ast.unparse(n)}' is not a width vector")

    def region_idx(self, n, env):
        v = self.lookup(n, env)
        if v[0] != "region":
            raise Untranslatable(f"'{ast.unparse(n)}' is not a confidence region")
        return v[1]

    def centre(self, n, env):
        if isinstance(n, ast.Attribute) and n.attr == "center":
            return f"centre {self.region_idx(n.value, env)}"
        raise Untranslatable(f"'{ast.unparse(n)}' is not the centre of a confidence region")

    def test(self, n, st, env):
        text = ast.unparse(n)
        if isinstance(n, ast.UnaryOp) and isinstance(n.op, ast.Not):
            return ("not", self.test(n.operand, st, env))
        if isinstance(n, ast.Call) and not n.keywords:
            f = ast.unparse(n.func)
            if f in ORACLES:
                fn, has_slack = ORACLES[f]
                if self.family == "auer":
                    raise Untranslatable(f"oracle call '{f}' in Auer")
                if len(n.args) != (4 if has_slack else 3) or ast.unparse(n.args[0]) != "self.order":
                    raise Untranslatable(f"oracle call '{text}'")
                a, b = self.region_idx(n.args[1], env), self.region_idx(n.args[2], env)
                return ("oracle", fn, self.slack(n.args[3]) if has_slack else None, a, b)
            if f == "np.all" and len(n.args) == 1 and isinstance(n.args[0], ast.Compare) and self.family == "auer":
                c = n.args[0]
                if len(c.ops) != 1:
                    raise Untranslatable(f"comparison '{text}'")
                op = {ast.Gt: ">", ast.Lt: "<", ast.LtE: "<="}.get(type(c.ops[0]))
                if op is None:
                    raise Untranslatable(f"comparison operator in '{text}'")
                return ("all", op, self.scalar(c.left, env), self.vec(c.comparators[0], env))
        raise Untranslatable(f"test '{text}'")

    def scalar(self, n, env):
        if (isinstance(n, ast.Call) and not n.keywords and len(n.args) == 2
                and ast.unparse(n.func) in ("self.small_m", "self.big_m")):
            a, b = self.centre(n.args[0], env), self.centre(n.args[1], env)
            if ast.unparse(n.func) == "self.small_m":
                return f"gen_auer_small_m ({a}) ({b})"
            return f"gen_auer_big_m eps ({a}) ({b})"
        raise Untranslatable(f"scalar '{ast.unparse(n)}'")

    # -- statements -----------------------------------------------------------------------------------------
    @staticmethod
    def is_logging(s):
        return (isinstance(s, ast.Expr) and isinstance(s.value, ast.Call)
                and ast.unparse(s.value.func).startswith("logging."))

    def run(self, stmts, st, env, lets):
        """symbolic execution with explicit continuation: returns a Leaf or a Branch tree"""
        stmts = list(stmts)
        while stmts:
            s = stmts.pop(0)
            if self.is_logging(s) or isinstance(s, ast.Pass):
                continue
            if isinstance(s, ast.Return):
                ret = None if s.value is None else self.set_expr(s.value, st, env, lets)
                return Leaf(list(lets), dict(st), ret)
            if isinstance(s, ast.Assign) and len(s.targets) == 1:
                t = ast.unparse(s.targets[0])
                if t in STATE_ATTR:
                    v = STATE_ATTR[t]
                    if v not in st:
                        raise Untranslatable(f"assignment to '{t}'")
                    if v == "enabled":
                        if not (isinstance(s.value, ast.Constant) and isinstance(s.value.value, bool)):
                            raise Untranslatable(f"latch assigned '{ast.unparse(s.value)}'")
                        st[v] = ("true",) if s.value.value else ("not", ("true",))
                    else:
                        st[v] = self.set_expr(s.value, st, env, lets)
                    continue
                if isinstance(s.targets[0], ast.Name):
                    if ast.unparse(s.value) == REGIONS:
                        env[t] = ("regions",)
                        continue
                    if isinstance(s.value, ast.JoinedStr):
                        continue  # f-string for logging
                    ir = self.set_expr(s.value, st, env, lets)
                    env[t] = Acc(("empty",)) if ir == ("empty",) else self.bind(ir, lets)
                    continue
                raise Untranslatable(f"assignment '{ast.unparse(s)[:70]}'")
            if isinstance(s, ast.If):
                cond = self.state_test(s.test, st)
                a = self.run(list(s.body) + stmts, dict(st), dict(env), list(lets))
                b = self.run(list(s.orelse) + stmts, dict(st), dict(env), list(lets))
                return Branch(len(lets), list(lets), cond, a, b)
            if isinstance(s, ast.For):
                r = self.do_for(s, stmts, st, env, lets)
                if r is not None:
                    return r
                continue
            raise Untranslatable(f"statement {type(s).__name__}: '{ast.unparse(s)[:70]}'")
        return Leaf(list(lets), dict(st), None)

    def state_test(self, n, st):
        if isinstance(n, ast.UnaryOp) and isinstance(n.op, ast.Not):
            return ("not", self.state_test(n.operand, st))
        if ast.unparse(n) == LATCH and "enabled" in st:
            return st["enabled"]
        raise Untranslatable(f"if-test '{ast.unparse(n)}'")

    def loop_header(self, s, st, env, lets):
        """-> (element variable, position variable or None, iterated set)"""
        it, tg = s.iter, s.target
        if isinstance(it, ast.Call) and ast.unparse(it.func) == "enumerate" and len(it.args) == 1 and not it.keywords:
            if not (isinstance(tg, ast.Tuple) and len(tg.elts) == 2 and all(isinstance(e, ast.Name) for e in tg.elts)):
                raise Untranslatable(f"loop target '{ast.unparse(tg)}'")
            return tg.elts[1].id, tg.elts[0].id, self.set_expr(it.args[0], st, env, lets)
        if isinstance(it, ast.Call) and ast.unparse(it.func) == "zip" and len(it.args) == 2 and not it.keywords:
            if not (isinstance(tg, ast.Tuple) and len(tg.elts) == 2 and all(isinstance(e, ast.Name) for e in tg.elts)
                    and all(isinstance(a, ast.Name) for a in it.args)):
                raise Untranslatable(f"loop 'for {ast.unparse(tg)} in {ast.unparse(it)}'")
            pa, ea = env.get(it.args[0].id), env.get(it.args[1].id)
            if not (isinstance(pa, Acc) and isinstance(ea, Acc) and pa.origin is not None and ea.origin is not None
                    and pa.origin[0] == ea.origin[0] and pa.origin[1] == "pos" and ea.origin[1] == "elem"):
                raise Untranslatable(f"zip of lists that were not filled in lockstep: '{ast.unparse(it)}'")
            return tg.elts[1].id, tg.elts[0].id, self.read(ea.value, it.args[1].id)
        if not isinstance(tg, ast.Name):
            raise Untranslatable(f"loop target '{ast.unparse(tg)}'")
        return tg.id, None, self.set_expr(it, st, env, lets)

    @staticmethod
    def mut_call(s):
        """`X.append(v)` / `X.add(v)` / `X.remove(v)` / `X.discard(v)` as a statement -> (target text, op, arg name)"""
        if (isinstance(s, ast.Expr) and isinstance(s.value, ast.Call) and isinstance(s.value.func, ast.Attribute)
                and s.value.func.attr in ("append", "add", "remove", "discard") and len(s.value.args) == 1
                and isinstance(s.value.args[0], ast.Name) and not s.value.keywords):
            return ast.unparse(s.value.func.value), s.value.func.attr, s.value.args[0].id
        return None

    def do_for(self, s, rest, st, env, lets):
        body = [x for x in s.body if not self.is_logging(x)]
        muts = [self.mut_call(x) for x in body]
        # (1) apply loop --------------------------------------------------------------------------------------
        if body and all(m is not None and m[0] in STATE_ATTR for m in muts):
            var, pos, src = self.loop_header(s, st, env, lets)
            if s.orelse:
                raise Untranslatable("else-branch on an apply loop")
            src = self.bind(src, lets)
            for tgt, op, a in muts:
                v = STATE_ATTR[tgt]
                if a != var or v not in st or v == "enabled":
                    raise Untranslatable(f"'{tgt}.{op}({a})' in the loop over '{ast.unparse(s.iter)}'")
                if ast.unparse(s.iter) == tgt:
                    raise Untranslatable(f"'{tgt}' is changed while it is iterated")
                st[v] = ("removeAll", st[v], src) if op in ("remove", "discard") else ("addAll", st[v], src)
            return None
        # (2) gate loop: single `if C: return|break` -----------------------------------------------------------
        if (len(body) == 1 and isinstance(body[0], ast.If) and not body[0].orelse and len(body[0].body) == 1
                and isinstance(body[0].body[0], (ast.Return, ast.Break))):
            var, pos, src = self.loop_header(s, st, env, lets)
            c = self.gate_test(body[0].test, var)
            cond = ("any", src, "i", c)
            if isinstance(body[0].body[0], ast.Return):
                if body[0].body[0].value is not None:
                    raise Untranslatable("gate returns a value")
                a = Leaf(list(lets), dict(st), None)
            else:
                a = self.run(list(rest), dict(st), dict(env), list(lets))
            b = self.run(list(s.orelse) + list(rest), dict(st), dict(env), list(lets))
            return Branch(len(lets), list(lets), cond, a, b)
        # (3) collector loop -------------------------------------------------------------------------------------
        return self.collector(s, st, env, lets)

    def gate_test(self, n, var):
        if (isinstance(n, ast.Compare) and len(n.ops) == 1 and isinstance(n.ops[0], (ast.Eq, ast.NotEq))
                and isinstance(n.left, ast.Subscript) and ast.unparse(n.left.value) == DEPTHS
                and ast.unparse(n.left.slice) == var and ast.unparse(n.comparators[0]) == MAXDEPTH
                and self.family == "vogp_ad"):
            return ("depth", "==" if isinstance(n.ops[0], ast.Eq) else "!=", "i")
        raise Untranslatable(f"gate test '{ast.unparse(n)}'")

    def lookups(self, stmts, env):
        """consumes lookup assignments; returns the remaining statements"""
        out = []
        for x in stmts:
            if (isinstance(x, ast.Assign) and len(x.targets) == 1 and isinstance(x.targets[0], ast.Name)
                    and not isinstance(env.get(x.targets[0].id), Acc)):
                env[x.targets[0].id] = self.lookup(x.value, env)
                continue
            out.append(x)
        return out

    def actions(self, stmts, var, pos, env, st, when, loop_id, found):
        """accumulations `acc.append(var)`; records (target key, op, kind) in `found`"""
        for x in stmts:
            if self.is_logging(x):
                continue
            m = self.mut_call(x)
            if m is None or m[1] not in ("append", "add"):
                raise Untranslatable(f"'{ast.unparse(x)[:60]}' inside the scan (only accumulation of the scanned "
                                     "design is understood; a set changed inside the scan that reads it is not)")
            tgt, op, a = m
            kind = "elem" if a == var else "pos" if a == pos else None
            if kind is None:
                raise Untranslatable(f"'{tgt}.{op}({a})': the accumulated value is not the scanned design")
            found.append((tgt, op, kind, when))

    def collector(self, s, st, env, lets):
        if s.orelse:
            raise Untranslatable("else-branch on the outer loop")
        var, pos, src = self.loop_header(s, st, env, lets)
        # accumulators touched anywhere in the loop are unreadable while it runs
        touched = []
        for x in ast.walk(s):
            m = self.mut_call(x) if isinstance(x, ast.Expr) else None
            if m is not None:
                touched.append(m[0])
        saved_env, saved_st = {}, {}
        for t in touched:
            if t in STATE_ATTR and STATE_ATTR[t] in st:
                saved_st[STATE_ATTR[t]] = st[STATE_ATTR[t]]
            elif isinstance(env.get(t), Acc):
                saved_env[t] = env[t].value
            else:
                raise Untranslatable(f"'{t}' is changed inside the loop but is neither a state set nor a fresh list")
        src = self.bind(src, lets)
        inner_env = dict(env)
        for t in saved_env:
            inner_env[t] = Acc(None)
        inner_st = dict(st)
        for k in saved_st:
            inner_st[k] = None
        inner_env[var] = ("idx", "i")
        if pos is not None:
            inner_env[pos] = ("pos", "i")
        body = self.lookups([x for x in s.body if not self.is_logging(x)], inner_env)
        if len(body) != 1 or not isinstance(body[0], ast.For):
            raise Untranslatable("outer loop body is not [lookups +] one inner scan: '"
                                 + "; ".join(ast.unparse(x)[:40] for x in body) + "'")
        inner = body[0]
        ivar, ipos, isrc = self.loop_header(inner, inner_st, inner_env, lets)
        if mentions(isrc, "i"):
            raise Untranslatable("inner scan over a set that depends on the scanned design")
        ienv = dict(inner_env)
        ienv[ivar] = ("idx", "j")
        if ipos is not None:
            ienv[ipos] = ("pos", "j")
        ibody = [x for x in inner.body if not self.is_logging(x)]
        self_guard, extra = False, []
        rem = []
        for x in ibody:
            if (isinstance(x, ast.If) and not x.orelse and len(x.body) == 1 and isinstance(x.body[0], ast.Continue)):
                t = x.test
                if (isinstance(t, ast.Compare) and len(t.ops) == 1 and isinstance(t.ops[0], ast.Eq)
                        and {ast.unparse(t.left), ast.unparse(t.comparators[0])} == {var, ivar} and var != ivar):
                    if rem and any(not isinstance(y, ast.Assign) for y in rem):
                        raise Untranslatable("self-comparison guard after the test")
                    self_guard = True
                    continue
                if (isinstance(t, ast.Compare) and len(t.ops) == 1 and isinstance(t.ops[0], ast.In)
                        and ast.unparse(t.left) == ivar):
                    extra.append(("contains", self.set_expr(t.comparators[0], inner_st, ienv, lets), "j"))
                    continue
                raise Untranslatable(f"guard 'if {ast.unparse(t)}: continue' inside the scan")
            rem.append(x)
        rem = self.lookups(rem, ienv)
        if len(rem) != 1 or not isinstance(rem[0], ast.If) or rem[0].orelse:
            raise Untranslatable("inner scan body is not [guards, lookups +] one `if TEST: … break`: '"
                                 + "; ".join(ast.unparse(x)[:40] for x in rem) + "'")
        tst = self.test(rem[0].test, inner_st, ienv)
        tb = [x for x in rem[0].body if not self.is_logging(x)]
        if not tb or not isinstance(tb[-1], ast.Break):
            raise Untranslatable("the scan does not stop (`break`) at the first witness")
        found = []
        loop_id = id(s)
        self.actions(tb[:-1], var, pos, ienv, inner_st, "break", loop_id, found)
        self.actions(inner.orelse, var, pos, ienv, inner_st, "else", loop_id, found)
        if not found:
            raise Untranslatable("the scan has no effect (nothing is accumulated)")
        for g in extra:
            tst = ("and", ("not", g), tst)
        scan = ("anyOther", isrc, "j", "i", tst) if self_guard else ("any", isrc, "j", tst)
        for tgt, op, kind, when in found:
            cond = scan if when == "break" else ("not", scan)
            val = ("filter", src, "i", cond)
            if tgt in STATE_ATTR:
                k = STATE_ATTR[tgt]
                old = saved_st[k]
                if op != "add":
                    raise Untranslatable(f"'{tgt}.{op}'")
                st[k] = val if old == ("empty",) else ("addAll", old, self.bind(val, lets))
            else:
                old = saved_env[tgt]
                if old != ("empty",):
                    raise Untranslatable(f"accumulator '{tgt}' is not empty when the loop starts")
                # a list of positions is only ever read back through zip(positions, designs)
                env[tgt] = Acc(None if kind == "pos" else self.bind(val, lets), (loop_id, kind, when))
        # several accumulations of one target in one loop are not understood
        if len({f[0] for f in found}) != len(found):
            raise Untranslatable("an accumulator is filled at two places of one loop")
        return None

    # -- printing a phase --------------------------------------------------------------------------------------
    def pp_tree(self, t, shown, ind, value_fn):
        pad = " " * ind
        out = []
        for nm, ir in t.lets[shown:]:
            out.append(f"{pad}let {nm} := {pp_set(ir)}")
        if isinstance(t, Leaf):
            if value_fn:
                if t.ret is None:
                    raise Untranslatable("a path of the function returns nothing")
                out.append(pad + pp_set(t.ret))
            else:
                comps = []
                for v in self.state_vars:
                    x = t.state[v]
                    comps.append(pp_bool(x) if v == "enabled" else pp_set(x))
                out.append(pad + "(" + ", ".join(comps) + ")")
            return out
        out.append(f"{pad}if {pp_bool(t.cond)} then")
        out += self.pp_tree(t.a, len(t.lets), ind + 2, value_fn)
        out.append(f"{pad}else")
        out += self.pp_tree(t.b, len(t.lets), ind + 2, value_fn)
        return out

    def phase(self, name, value_fn=False):
        self.counter = 0
        st = {v: (("bvar", "enabled") if v == "enabled" else ("var", v)) for v in self.state_vars}
        t = self.run(self.body(name), st, {}, [])
        lines = self.pp_tree(t, 0, 2, value_fn)
        binders, _, rty = FAMILY[self.family]
        head = f"def gen_{self.prefix}_{name} {binders} : {'List Nat' if value_fn else rty} :="
        return head + "\n" + "\n".join(lines) + "\n"

    # -- run_one_step ------------------------------------------------------------------------------------------
    def round(self, phases, ok_phases):
        order, chain = [], []
        for s in self.body("run_one_step"):
            if self.is_logging(s):
                continue
            t = ast.unparse(s)
            if (isinstance(s, ast.If) and not order and not s.orelse and len(s.body) == 1
                    and ast.unparse(s.body[0]) == "return True"):
                order.append("stop if: " + ast.unparse(s.test))
                continue
            if isinstance(s, ast.AugAssign) and ast.unparse(s.target) == "self.round":
                continue
            if isinstance(s, ast.Assign) and isinstance(s.value, ast.JoinedStr):
                continue
            if isinstance(s, ast.Return):
                order.append("done: " + ast.unparse(s.value))
                break
            guarded = ""
            if isinstance(s, ast.If) and ast.unparse(s.test) == "self.S" and not s.orelse and len(s.body) == 1:
                s, guarded = s.body[0], "?"
            call = s.value if isinstance(s, (ast.Expr, ast.Assign)) else None
            if (isinstance(call, ast.Call) and isinstance(call.func, ast.Attribute)
                    and ast.unparse(call.func.value) == "self" and not call.args and not call.keywords):
                m = call.func.attr
                if m in phases:
                    if guarded or isinstance(s, ast.Assign):
                        raise Untranslatable(f"decision phase {m} called conditionally / for its value")
                    if m not in ok_phases:
                        raise Untranslatable(f"phase {m} could not be translated")
                    chain.append(m)
                order.append(m + guarded)
                continue
            raise Untranslatable(f"run_one_step: '{t[:70]}'")
        vs = self.state_vars
        lines, cur = [], list(vs)
        for k, m in enumerate(chain, 1):
            lines.append(f"  let r{k} := gen_{self.prefix}_{m} {ARGS[self.family]} "
                         + " ".join(c for c in self._ordered(cur)))
            cur = self._proj(f"r{k}", len(vs))
        binders, _, rty = FAMILY[self.family]
        lines.append("  (" + ", ".join(cur) + ")")
        rd = f"def gen_{self.prefix}_round {binders} : {rty} :=\n" + "\n".join(lines) + "\n"
        od = (f"def gen_{self.prefix}_stepOrder : List String :=\n  ["
              + ", ".join('"' + o + '"' for o in order) + "]\n")
        return rd, od

    def _ordered(self, cur):
        # binders put `enabled` before S P for vogp_ad
        if self.family == "vogp_ad":
            return [cur[2], cur[0], cur[1]]
        return cur

    @staticmethod
    def _proj(r, n):
        if n == 2:
            return [f"{r}.1", f"{r}.2"]
        return [f"{r}.1", f"{r}.2.1", f"{r}.2.2"]


# ----------------------------------------------------------------------------------------------------------------
# Auer's m(·,·) and M(·,·)
# ----------------------------------------------------------------------------------------------------------------
def auer_margin(ce: ClassExec, name: str) -> str:
    fn = ce.methods.get(name)
    if fn is None or name in ce.dup:
        raise Untranslatable(f"method {name} not found (or defined twice)")
    params = [a.arg for a in fn.args.args]
    if len(params) != 3 or params[0] != "self":
        raise Untranslatable(f"{name}: parameters {params}")
    body = ce.body(name)
    if len(body) != 1 or not isinstance(body[0], ast.Return):
        raise Untranslatable(f"{name}: body is not a single return")
    names = {params[1]: "ci", params[2]: "cj"}
    uses_eps = [False]

    def vecx(n):
        if isinstance(n, ast.Name) and n.id in names:
            return names[n.id]
        if isinstance(n, ast.BinOp) and isinstance(n.op, ast.Sub):
            return f"vsub ({vecx(n.left)}) ({vecx(n.right)})".replace("(ci)", "ci").replace("(cj)", "cj")
        if isinstance(n, ast.BinOp) and isinstance(n.op, ast.Add) and ast.unparse(n.right) == "self.epsilon":
            uses_eps[0] = True
            return f"({vecx(n.left)}.map (· + eps))"
        raise Untranslatable(f"{name}: vector expression '{ast.unparse(n)}'")

    def scal(n):
        if isinstance(n, ast.Call) and not n.keywords:
            f = ast.unparse(n.func)
            if f == "max" and len(n.args) == 2 and isinstance(n.args[0], ast.Constant) and n.args[0].value == 0 \
                    and not isinstance(n.args[0].value, bool):
                return f"max 0 ({scal(n.args[1])})"
            if f in ("np.min", "np.max") and len(n.args) == 1:
                return f"{'vmin' if f == 'np.min' else 'vmax'} ({vecx(n.args[0])})"
        raise Untranslatable(f"{name}: scalar expression '{ast.unparse(n)}'")

    term = scal(body[0].value)
    eps = "(eps : Rat) " if name == "big_m" else ""
    if uses_eps[0] and name != "big_m":
        raise Untranslatable(f"{name} now depends on self.epsilon")
    return f"def gen_auer_{name} {eps}(ci cj : Vec) : Rat :=\n  {term}\n"


# ----------------------------------------------------------------------------------------------------------------
def render(repo: Path):
    """-> (text of Gen/Phases.lean, {definition name: sha1}, [errors])"""
    defs, hashes, errors = [], {}, []

    def emit(name, where, fn):
        try:
            d = fn()
        except Untranslatable as e:
            errors.append(f"{where}: {e} [affects {name}]")
            return False
        doc = f"/-- generated from `{where}` -/\n"
        defs.append(doc + d)
        hashes[name] = hashlib.sha1(d.encode()).hexdigest()
        return True

    for prefix, file, cls, family, phases, valfns in ALGS:
        path = repo / ALG_DIR / file
        try:
            tree = ast.parse(path.read_text())
            ce = ClassExec(tree, cls, family, prefix)
        except (OSError, SyntaxError, Untranslatable) as e:
            errors.append(f"{ALG_DIR}{file}: {e} [affects every gen_{prefix}_*]")
            continue
        w = f"{ALG_DIR}{file}:{cls}."
        if family == "auer":
            emit("gen_auer_small_m", w + "small_m", lambda: auer_margin(ce, "small_m"))
            emit("gen_auer_big_m", w + "big_m", lambda: auer_margin(ce, "big_m"))
        for v in valfns:
            emit(f"gen_{prefix}_{v}", w + v, lambda v=v: ce.phase(v, value_fn=True))
        ok = [p for p in phases if emit(f"gen_{prefix}_{p}", w + p, lambda p=p: ce.phase(p))]
        rd = {}

        def do_round():
            rd["r"], rd["o"] = ce.round(phases, ok)
            return rd["r"]

        if emit(f"gen_{prefix}_round", w + "run_one_step", do_round):
            emit(f"gen_{prefix}_stepOrder", w + "run_one_step", lambda: rd["o"])
        else:
            # the call order is still worth pinning when only a phase body is unreadable
            def only_order():
                return ce.round(phases, phases)[1]
            emit(f"gen_{prefix}_stepOrder", w + "run_one_step", only_order)
    text = (
        "import VOPyVerif.Model.Steps\n"
        "/-!\nGENERATED by harness/translate_phases.py from\n"
        + "".join(f"  {ALG_DIR}{a[1]}:{a[2]}.{{{', '.join(a[5] + a[4] + ['run_one_step'])}}}\n" for a in ALGS)
        + "— do not edit.\n\n"
        "One definition per (algorithm, decision phase), produced mechanically from the current Python source text on\n"
        "every `./check C02|C03|C05`.  Every definition takes all oracles and all state sets of its algorithm and\n"
        "returns the whole new state.  `Proofs/GenAgreePhases.lean` proves each equal to the hand-written definition of\n"
        "`Model/Steps.lean` (DESIGN §2.10.2).\n-/\n"
        "set_option linter.unusedVariables false  -- every definition takes all oracles / sets of its algorithm\n"
        "namespace VOPy.Gen.Phases\nopen VOPy VOPy.Steps\n\n"
        + PRELUDE + "\n"
        + "\n".join(defs)
        + "\nend VOPy.Gen.Phases\n"
    )
    return text, hashes, errors


if __name__ == "__main__":
    import json
    import sys

    t, h, e = render(Path(sys.argv[1] if len(sys.argv) > 1 else "/repo"))
    print(t)
    print(json.dumps({"errors": e, "n": len(h)}, indent=1))
