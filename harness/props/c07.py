"""C07 — samples go to the acquisition maximiser among active designs and reach the model.

Part (i): the two REAL discrete optimisers (`optimize_acqf_discrete`,
`optimize_decoupled_acqf_discrete`) on arbitrary value tables (ties, duplicate rows, 1–4 objectives,
costs, every batch size 1 … n and n+1, n+2) against the Lean model `Acq.optimizeDiscrete` /
`Acq.optimizeDecoupled` and the decidable relations `Acq.discSpecOk` / `Acq.decSpecOk`
(proved sound in `Props/C07.lean`: an accepted batch carries the top-q values).  A batch size larger
than the number of choices must return ALL choices (distinct, non-increasing); the crash the code
had there (defect D7, fixed in /repo by commit 00d0f01) is kept as the regression key
`crash:optimize_acqf_discrete-q-exceeds-choices`.

Part (ii): whole runs of the real algorithms (see `run_alg`): the acquisition's `forward` is wrapped
to record what the optimiser saw, the problem is wrapped to record what was evaluated, and the
model's data is dumped before and after every `run_one_step()`.

Part (iii) (extension): the arithmetic of `ThompsonEntropyDecoupledAcquisition.forward` against
`Model/Thompson.lean` — in every DecoupledGP evaluation of part (ii) (each recorded `forward` call: the
cached Pareto mask against the tensor the definition builds from the recorded Thompson samples, the values
against the definition evaluated at `Float`, 1e-9) and in a direct stream (`kind: "thompson"`) that builds
the real acquisition on a scripted model list with dyadic Thompson samples (Pareto sets additionally by the
Lean model of `get_pareto_set`, exact) and checks the optimiser's pick against the model's value table.
"""
import itertools

import numpy as np

from harness import core
from harness.props import c07_cov as _cov   # part (iv): acquisition values on full covariance matrices
from harness.props import c07_thompson as _th   # part (iii): Thompson-entropy arithmetic (extension)

TITLE = "acquisition maximisers and model data vs Lean model"
RULE = ("(i) optimiser tables: (row ids with duplicates, value per id [per objective], costs, q); shapes: "
        "all-equal, two-level, small-integer ties, distinct, sorted up/down, max-last, one-ulp gaps, "
        "negative, exhaustive {0,1,2}^n for n<=5 (thorough); q from 1 to n+2; non-trivial = q < number of "
        "rows and at least two different values; distinct by (ids, values, costs, q). "
        "(ii) runs: (algorithm, designs, objective values, cone, batch size, costs, rounds, noise seed); "
        "non-trivial = at least one evaluation with a strict choice (fewer queried than active) or, for "
        "the evaluate-everything algorithms, an active set that shrank during the run. "
        "(iii) thompson: (n Thompson samples in 0..6, m objectives 2..3, K designs 1..6, exact cone, sample shape "
        "[random | dominant | alternating | fixed-order | duplicate rows], dyadic samples, costs, q); non-trivial = "
        "at least one design with a prior probability strictly between 0 and C(n,m)/n^m and two different values")
ASSUMPTIONS = [
    "acquisition values are finite floats (NaN / inf tables are outside the property)",
    "acquisition functions are row-wise: the value of a row does not depend on the other rows "
    "(true of the five bundled acquisition classes; Thompson values are cached per call and checked "
    "relative to the values actually produced)",
    "extension (c07_thompson.py): the Thompson values are additionally compared with their definition "
    "(Model/Thompson.lean at Float, 1e-9) given the Pareto mask, and the mask with the tensor the definition "
    "builds from the recorded Thompson samples; the Thompson samples themselves (GP posterior draws) are inputs",
]
MAX_JOBS = 14
D7_KEY = "crash:optimize_acqf_discrete-q-exceeds-choices"


def _viol(ctx, key, what, case, kind="R", detail=None):
    """at most two recorded violations per key and worker (core keeps only the first 20 overall, and a
    frequently reproduced defect such as D7 must not crowd out other keys); the rest is counted"""
    seen = ctx.__dict__.setdefault("_c07_keys", {})
    seen[key] = seen.get(key, 0) + 1
    ctx.count("viol_" + key)
    if seen[key] <= 2:
        ctx.violation(key, what, case, kind=kind, detail=detail)


# ------------------------------------------------------------------------------------------------
# table-lookup acquisition functions (the optimisers only see `acq(choices)`)
# ------------------------------------------------------------------------------------------------
def _acq_classes():
    from vopy.acquisition.acquisition import AcquisitionStrategy, DecoupledAcquisitionStrategy

    class TableAcq(AcquisitionStrategy):
        def __init__(self, idvals):
            super().__init__()
            self.idvals = np.array(idvals, dtype=float)
            self.calls = []

        def forward(self, x):
            ids = x[:, 0].astype(int) if len(x) else np.zeros(0, dtype=int)
            self.calls.append(ids.tolist())
            return self.idvals[ids]

    class TableDecAcq(DecoupledAcquisitionStrategy):
        def __init__(self, table, costs=None):
            super().__init__(len(table), evaluation_index=None, costs=costs)
            self.table = np.array(table, dtype=float)
            self.calls = []

        def forward(self, x):
            if self.evaluation_index is None:
                raise AssertionError("evaluation_index can't be None during forward.")
            ids = x[:, 0].astype(int) if len(x) else np.zeros(0, dtype=int)
            self.calls.append((int(self.evaluation_index), ids.tolist()))
            v = self.table[self.evaluation_index][ids]
            if self.costs is not None:
                v = v / self.costs[self.evaluation_index]
            return v

    return TableAcq, TableDecAcq


def _choices(ids, extra):
    """choice array: first column the identifying id, `extra` further columns derived from it"""
    ids = np.array(ids, dtype=float)
    cols = [ids] + [ids * 0.5 + k for k in range(extra)]
    return np.stack(cols, axis=1)


def _positions(ids, cand_ids):
    """map returned candidate rows (by id) back to positions of the choice array; among duplicate
    rows (identical rows, identical value) the first unused position is taken"""
    used, out = set(), []
    for c in cand_ids:
        for p, i in enumerate(ids):
            if i == c and p not in used:
                used.add(p)
                out.append(p)
                break
        else:
            out.append(None)
    return out


def _is_d7(e):
    return isinstance(e, ValueError) and "argmax of an empty sequence" in str(e) and \
        core.exc_key(e).endswith("optimize_acqf_discrete")


def _through_optimiser(e):
    """the exception was raised inside (or below) `optimize_acqf_discrete`"""
    import traceback

    return any(fr.name == "optimize_acqf_discrete" for fr in traceback.extract_tb(e.__traceback__))


# ------------------------------------------------------------------------------------------------
# generators
# ------------------------------------------------------------------------------------------------
VAL_SHAPES = ["equal", "twolevel", "smallint", "distinct", "up", "down", "maxlast", "ulp", "negative", "dyadic"]


def _values(rng, shape, k):
    if shape == "equal":
        return [core.dyadic(rng, -3, 3, 1)] * k
    if shape == "twolevel":
        a, b = core.dyadic(rng, -4, 4, 1), core.dyadic(rng, -4, 4, 1)
        return [rng.choice([a, b]) for _ in range(k)]
    if shape == "smallint":
        return [float(rng.randint(0, 2)) for _ in range(k)]
    if shape == "distinct":
        return [float(x) for x in rng.sample(range(-50, 50), k)]
    if shape == "up":
        return sorted(rng.random() for _ in range(k))
    if shape == "down":
        return sorted((rng.random() for _ in range(k)), reverse=True)
    if shape == "maxlast":
        v = [float(rng.randint(0, 3)) for _ in range(k)]
        v[-1] = 5.0
        return v
    if shape == "ulp":
        base = rng.choice([1.0, 0.1, 3.0e5, 7.0e-9])
        return [float(np.nextafter(base, np.inf)) if rng.random() < 0.4 else base for _ in range(k)]
    if shape == "negative":
        return [-abs(rng.gauss(0, 3)) for _ in range(k)]
    return [core.dyadic(rng, -8, 8, 2) for _ in range(k)]


def _ids(rng, n, dup):
    if not dup or n < 2:
        return list(range(n))
    k = rng.randint(1, n - 1)  # number of distinct ids
    ids = list(range(k)) + [rng.randrange(k) for _ in range(n - k)]
    rng.shuffle(ids)
    return ids


def gen_tables(ctx, rng):
    if ctx.tier == "thorough":  # exhaustive small lattices, worker-sharded
        c = 0
        for n in range(1, 6):
            for vals in itertools.product([0.0, 1.0, 2.0], repeat=n):
                for q in range(1, n + 2):
                    c += 1
                    if c % ctx.nworkers != ctx.worker:
                        continue
                    yield {"kind": "disc", "ids": list(range(n)), "idvals": list(vals), "q": q, "extra": 1,
                           "shape": "exhaustive"}
        for n in range(1, 4):
            for t in itertools.product([0.0, 1.0, 2.0], repeat=2 * n):
                for q in range(1, n + 2):
                    c += 1
                    if c % ctx.nworkers != ctx.worker:
                        continue
                    yield {"kind": "dec", "ids": list(range(n)), "table": [list(t[:n]), list(t[n:])],
                           "costs": None, "q": q, "extra": 1, "shape": "exhaustive"}
    for _ in range(ctx.n(300, 100000)):
        n = rng.choice([1, 2, 2, 3, 3, 4, 5, 6, 8, 12, 20])
        dup = rng.random() < 0.25
        ids = _ids(rng, n, dup)
        k = max(ids) + 1
        shape = rng.choice(VAL_SHAPES)
        r = rng.random()
        q = rng.randint(1, n) if r < 0.8 else (n + rng.randint(1, 2) if r < 0.9 else n)
        yield {"kind": "disc", "ids": ids, "idvals": _values(rng, shape, k), "q": q,
               "extra": rng.randint(0, 2), "shape": shape + ("+dup" if dup else "")}
    for _ in range(ctx.n(300, 100000)):
        n = rng.choice([1, 2, 3, 3, 4, 5, 6, 8, 12])
        m = rng.randint(1, 4)
        dup = rng.random() < 0.25
        ids = _ids(rng, n, dup)
        k = max(ids) + 1
        shape = rng.choice(VAL_SHAPES)
        if rng.random() < 0.3:  # one list of values shared by the objectives: cross-objective ties
            base = _values(rng, shape, k)
            table = [list(base) if rng.random() < 0.5 else _values(rng, shape, k) for _ in range(m)]
        else:
            table = [_values(rng, shape, k) for _ in range(m)]
        costs = None if rng.random() < 0.4 else [rng.choice([0.5, 1.0, 2.0, 4.0, 3.0, 0.1]) for _ in range(m)]
        r = rng.random()
        q = rng.randint(1, n) if r < 0.8 else (n + rng.randint(1, 2) if r < 0.9 else n)
        yield {"kind": "dec", "ids": ids, "table": table, "costs": costs, "q": q,
               "extra": rng.randint(0, 2), "shape": shape + ("+dup" if dup else "")}


def gen(ctx):
    import random

    # independent sub-streams (both derived from ctx.rng) so that the two parts do not shift each other
    r1, r2 = random.Random(ctx.rng.getrandbits(64)), random.Random(ctx.rng.getrandbits(64))
    r3 = random.Random(ctx.rng.getrandbits(64))   # drawn after r1, r2: the older streams are unchanged
    yield from gen_tables(ctx, r1)
    yield from _th.gen_thompson(ctx, r3)
    yield from gen_runs(ctx, r2)
    yield from _cov.gen_cov(ctx)


# ------------------------------------------------------------------------------------------------
# part (i): the optimisers on tables
# ------------------------------------------------------------------------------------------------
def run_disc(ctx, case):
    from vopy.acquisition.acquisition import optimize_acqf_discrete

    TableAcq, _ = _acq_classes()
    ids, q = case["ids"], case["q"]
    n = len(ids)
    idvals = [float(v) for v in case["idvals"]]
    vals = [idvals[i] for i in ids]
    ctx.count("disc_shape_" + case["shape"].split("+")[0])
    ctx.count("disc_q_%s" % ("gt_n" if q > n else "eq_n" if q == n else "lt_n"))
    acq = TableAcq(idvals)
    ch = _choices(ids, case.get("extra", 1))
    ch0 = ch.copy()
    qeff = min(q, n)
    try:
        cand, cvals = optimize_acqf_discrete(acq, q, ch)
    except Exception as e:
        if q > n and _is_d7(e):
            # regression key of defect D7 (fixed in /repo by commit 00d0f01)
            _viol(ctx, D7_KEY, "optimize_acqf_discrete raises ValueError (argmax of an empty sequence) when "
                          "the batch size exceeds the number of choices; the property demands a batch for every "
                          "batch size >= 1", case, detail={"n": n, "q": q})
            ctx.count("disc_crash_q_gt_n")
        else:
            _viol(ctx, "disc-crash:" + core.exc_key(e), f"optimize_acqf_discrete raised {type(e).__name__}: {e}", case)
        ctx.case_done(case, False)
        return
    if not np.array_equal(ch, ch0):
        _viol(ctx, "disc-mutates-choices", "optimize_acqf_discrete modified the caller's choices array", case, kind="F")
    cand = np.asarray(cand, dtype=float).reshape(-1, ch.shape[1])
    cvals = [float(v) for v in np.asarray(cvals, dtype=float).reshape(-1)]
    pos = _positions(ids, [int(r[0]) for r in cand])
    rows_ok = all(p is not None and np.array_equal(cand[k], ch0[p]) for k, p in enumerate(pos)) and len(pos) == len(cvals)
    if not rows_ok:
        _viol(ctx, "disc-spec", "returned candidates are not distinct rows of `choices`", case,
                      detail={"cand": cand.tolist()})
        ctx.case_done(case, False)
        return
    spec = ctx.ask("specd", core.qvec(vals), str(qeff), core.nats(pos), core.qvec(cvals))
    if spec != "ok":
        _viol(ctx, "disc-spec", "optimize_acqf_discrete output violates the batch specification (q distinct "
                      "rows, each maximal among the rows not picked before it, values non-increasing and equal to "
                      "the rows' acquisition values)", case, detail={"positions": pos, "values": cvals, "lean": spec})
    model = ctx.ask("optd", core.qvec(vals), str(q))
    prefix = ctx.ask("optdprefix", core.qvec(vals), str(q))
    if (prefix == "err") != (q > n) or (q <= n and prefix != model):
        _viol(ctx, "disc-model-prefix", "Lean: the pre-fix loop must crash exactly for q > n and agree with the "
              "fixed loop otherwise", case, kind="F", detail={"prefix": prefix, "model": model})
    if model in ("err", "bad-op", "empty"):
        _viol(ctx, "disc-model", "Lean model gives no batch where the code returned one", case, kind="F",
                      detail={"model": model})
    else:
        mp, mv = model.split(" ")
        mp, mv = core.parse_nats(mp), core.parse_qvec(mv)
        if [core.frac(v) for v in cvals] != mv:
            # the value list is determined by the property (descending top-q)
            _viol(ctx, "disc-values", "returned acquisition values differ from the model's (descending top-q "
                          "values)", case, kind="F", detail={"impl": cvals, "model": [str(x) for x in mv]})
        tie_free = len(set(vals)) == n
        if mp != pos:
            if tie_free:
                _viol(ctx, "disc-positions", "tie-free table: picked positions differ from the model's", case,
                              kind="F", detail={"impl": pos, "model": mp})
            elif len(set(ids)) == n:
                ctx.count("disc_tie_order_differs_info")
        first = ctx.ask("firstd", core.qvec(vals), core.nats(pos), core.qvec(cvals))
        if first != "ok" and len(set(ids)) == n:
            ctx.count("disc_not_first_argmax_info")
    ctx.count("disc_ties" if len(set(vals)) < n else "disc_tiefree")
    ctx.case_done(case, q < n and len(set(vals)) >= 2, canon=["disc", ids, idvals, q])


def run_dec(ctx, case):
    from vopy.acquisition.acquisition import optimize_decoupled_acqf_discrete

    _, TableDecAcq = _acq_classes()
    ids, q = case["ids"], case["q"]
    n = len(ids)
    costs = None if case.get("costs") is None else np.array(case["costs"], dtype=float)
    acq = TableDecAcq(case["table"], costs)
    m = len(case["table"])
    # the table the optimiser sees, position-indexed, computed by the same float operation
    table = []
    for j in range(m):
        row = np.array(case["table"][j], dtype=float)[np.array(ids, dtype=int)]
        if costs is not None:
            row = row / costs[j]
        table.append([float(v) for v in row])
    ctx.count("dec_shape_" + case["shape"].split("+")[0])
    ctx.count("dec_m_%d" % m)
    ctx.count("dec_q_%s" % ("gt_n" if q > n else "eq_n" if q == n else "lt_n"))
    ctx.count("dec_costs" if costs is not None else "dec_nocosts")
    ch = _choices(ids, case.get("extra", 1))
    ch0 = ch.copy()
    acq.evaluation_index = 7  # must be restored by the optimiser
    try:
        cand, cvals, objs = optimize_decoupled_acqf_discrete(acq, q, ch)
    except Exception as e:
        if q > n and _is_d7(e):
            _viol(ctx, D7_KEY, "optimize_acqf_discrete raises ValueError (argmax of an empty sequence) when "
                          "the batch size exceeds the number of choices; the property demands a batch for every "
                          "batch size >= 1", case, detail={"n": n, "q": q, "via": "optimize_decoupled_acqf_discrete"})
            ctx.count("dec_crash_q_gt_n")
        else:
            _viol(ctx, "dec-crash:" + core.exc_key(e),
                          f"optimize_decoupled_acqf_discrete raised {type(e).__name__}: {e}", case)
        ctx.case_done(case, False)
        return
    if acq.evaluation_index != 7:
        ctx.count("dec_evaluation_index_not_restored_info")
    cand = np.asarray(cand, dtype=float).reshape(-1, ch.shape[1])
    cvals = [float(v) for v in np.asarray(cvals, dtype=float).reshape(-1)]
    objs = [int(o) for o in np.asarray(objs).reshape(-1)]
    qeff = min(q, n * m)
    if not (len(cand) == len(cvals) == len(objs)):
        _viol(ctx, "dec-spec", "candidates, values and objective indices have different lengths", case,
                      detail={"lens": [len(cand), len(cvals), len(objs)]})
        ctx.case_done(case, False)
        return
    # positions: per objective, duplicates of a row are interchangeable
    pos = [None] * len(cand)
    for j in set(objs):
        ks = [k for k in range(len(cand)) if objs[k] == j]
        pj = _positions(ids, [int(cand[k][0]) for k in ks])
        for k, p in zip(ks, pj):
            pos[k] = p
    if any(p is None or not np.array_equal(cand[k], ch0[p]) for k, p in enumerate(pos)) or \
            any(o < 0 or o >= m for o in objs):
        _viol(ctx, "dec-spec", "returned (candidate, objective) pairs are not distinct (row, objective) pairs "
                      "of the table", case, detail={"cand": cand.tolist(), "objs": objs})
        ctx.case_done(case, False)
        return
    spec = ctx.ask("specdec", core.qmat(table), str(qeff), core.nats(pos), core.nats(objs), core.qvec(cvals))
    if spec != "ok":
        _viol(ctx, "dec-spec", "optimize_decoupled_acqf_discrete output violates the batch specification (q "
                      "distinct (row, objective) pairs carrying their own values, non-increasing, every pair "
                      "left out no larger than any selected one)", case,
                      detail={"positions": pos, "objs": objs, "values": cvals, "lean": spec})
    flat = [v for r in table for v in r]
    if True:
        model = ctx.ask("optdec", core.qmat(table), str(q))
        if model in ("err", "bad-op", "empty"):
            _viol(ctx, "dec-model", "Lean model gives no batch where the code returned one", case, kind="F",
                          detail={"model": model})
        else:
            mp, mo, mv = model.split(" ")
            mp, mo, mv = core.parse_nats(mp), core.parse_nats(mo), core.parse_qvec(mv)
            if [core.frac(v) for v in cvals] != mv:
                _viol(ctx, "dec-values", "returned acquisition values differ from the model's (descending "
                              "top-q values of the whole table)", case, kind="F",
                              detail={"impl": cvals, "model": [str(x) for x in mv]})
            if (mp, mo) != (pos, objs):
                if len(set(flat)) == len(flat):
                    _viol(ctx, "dec-pairs", "tie-free table: selected (row, objective) pairs differ from the "
                                  "model's", case, kind="F", detail={"impl": [pos, objs], "model": [mp, mo]})
                else:
                    ctx.count("dec_tie_choice_differs_info")
    ctx.count("dec_ties" if len(set(flat)) < len(flat) else "dec_tiefree")
    ctx.case_done(case, q < n * m and len(set(flat)) >= 2, canon=["dec", ids, case["table"], case.get("costs"), q])


# ------------------------------------------------------------------------------------------------
# part (ii): whole runs of the real algorithms
# ------------------------------------------------------------------------------------------------
COUPLED = {"VOGP": "diag", "EpsilonPAL": "diag", "VOGP_AD": "diag", "PaVeBaGP-IH": "sumvar", "PaVeBaGP-DE": "sumvar"}
DECOUPLED = {"PaVeBaPartialGP-rect": "varcost", "PaVeBaPartialGP-ell": "varcost", "DecoupledGP": "thompson"}
EVALALL = ("PaVeBa", "Auer", "NaiveElimination")
RUN_ALGS = list(COUPLED) + list(DECOUPLED) + list(EVALALL)
ACQ_CLASSES = ("MaxDiagonalAcquisition", "SumVarianceAcquisition", "MaxVarianceDecoupledAcquisition",
               "ThompsonEntropyDecoupledAcquisition")
CONES_BY_M = {2: ["orthant2", "acute2", "obtuse2", "skew2", "threefacet2"], 3: ["orthant3", "acute3", "fourfacet3"]}
SQUARE_CONES = {"orthant2", "acute2", "obtuse2", "skew2", "orthant3", "acute3"}
AD_FUNCS = {
    "lin": lambda x: np.stack([x[:, 0], 1.0 - x[:, -1]], axis=1),
    "quad": lambda x: np.stack([x[:, 0] * x[:, -1], 1.0 - x[:, 0] ** 2], axis=1),
    "bump": lambda x: np.stack([np.sin(3.0 * x[:, 0]), np.cos(2.0 * x[:, -1])], axis=1),
}


def gen_runs(ctx, rng):
    total = ctx.n(66, 6600)
    names = list(RUN_ALGS)
    for k in range(total):
        # every algorithm in turn (worker-shifted), parameters random
        alg = names[(k + ctx.worker) % len(names)]
        m = rng.choice([2, 2, 3])
        if alg == "VOGP_AD":
            m = 2
        n = rng.randint(3, 7)
        d = rng.choice([1, 2, 2])
        pts = set()
        while len(pts) < n:
            pts.add(tuple(core.dyadic(rng, 0, 8, 3) for _ in range(d)))
        X = [list(p) for p in sorted(pts)]
        rng.shuffle(X)
        Y = [[core.dyadic(rng, -8, 8, 3) for _ in range(m)] for _ in range(n)]
        geom = "real" if rng.random() < (0.2 if alg not in ("PaVeBa",) else 0.1) else \
            {"pd": rng.choice([0.0, 0.03, 0.1, 0.2]), "pc": rng.choice([0.3, 0.6, 0.9, 0.97])}
        cone = rng.choice(CONES_BY_M[m])
        if geom == "real" and cone not in SQUARE_CONES:
            cone = CONES_BY_M[m][0]
        case = {"kind": "run", "alg": alg, "X": X, "Y": Y, "cone": cone, "geom": geom,
                "batch": rng.choice([1, 1, 2, 2, 3, 4]), "rounds": rng.randint(2, 5),
                "seed": rng.randrange(10 ** 6), "eps": rng.choice([0.05, 0.2, 0.5]),
                "noise_var": rng.choice([0.01, 0.0625, 0.25]),
                "contraction": rng.choice([1.0, 8.0, 32.0])}
        if alg in DECOUPLED:
            r = rng.random()
            case["costs"] = None if (alg != "DecoupledGP" and r < 0.25) else [1.0] * m if r < 0.5 else \
                [rng.choice([0.5, 1.0, 2.0, 3.0]) for _ in range(m)]
            case["budget"] = rng.choice([3.0, 8.0, 1000.0])
            case["batch"] = rng.choice([1, 2, 2, 3, 3, 4])
        if alg == "VOGP_AD":
            case.update({"fn": rng.choice(sorted(AD_FUNCS)), "d": 2, "depth": rng.choice([2, 2, 3]), "batch": 1,
                         "rounds": rng.randint(6, 14)})
        if alg == "VOGP_AD" and geom == "real":  # parameters under which the real refinement rule fires
            case.update({"noise_var": 0.01, "contraction": 32.0, "fn": "bump", "rounds": rng.randint(5, 9)})
        if alg in EVALALL:
            case["batch"] = 0
            case["rounds"] = rng.randint(3, 8)
            case["contraction"] = rng.choice([1.0, 2.0, 4.0, 8.0])
            case["eps"] = rng.choice([0.05, 0.2])
            case["noise_var"] = rng.choice([0.01, 0.0625])
            case["noise"] = rng.choice(["seeded", "zero"])
            if rng.random() < 0.7:
                # many designs and sparse active sets: CPython iterates a set of small ints in hash order,
                # which differs from sorted order once indices >= 8 are present in a partly filled table —
                # `points[list(A)]`, `add_sample(A, …)` and any `sorted(A)` then disagree on the order
                K = rng.randint(12, 40)
                pts = set()
                while len(pts) < K:
                    pts.add(tuple(core.dyadic(rng, 0, 64, 4) for _ in range(d)))
                X = [list(p) for p in sorted(pts)]
                rng.shuffle(X)
                # distinct values per design (so a misfiled observation is visible even without noise)
                Y = [[core.dyadic(rng, -64, 64, 4) + i / 1024.0 for _ in range(m)] for i in range(K)]
                case.update({"X": X, "Y": Y})
                if case["geom"] == "real":
                    case["geom"] = {"pd": rng.choice([0.0, 0.03, 0.1]), "pc": rng.choice([0.6, 0.9, 0.97])}
                if alg != "NaiveElimination" and rng.random() < 0.7:
                    ids = list(range(K))
                    rng.shuffle(ids)
                    ns = rng.randint(3, 10)
                    nu = rng.randint(0, 4) if alg == "PaVeBa" else 0
                    np_ = rng.randint(0, 4)
                    case["force"] = {"S": ids[:ns], "U": ids[ns:ns + nu], "P": ids[ns:ns + nu + np_]}
        if alg == "NaiveElimination":
            case["L"] = rng.randint(1, 4)
        yield case


def _build(case):
    from harness import stubs
    from harness.cones import EXACT_CONES

    name = case["alg"]
    W = EXACT_CONES[case["cone"]][0]
    kw = {}
    if name in COUPLED or name in DECOUPLED:
        kw["batch_size"] = case["batch"]
        if name != "DecoupledGP":
            kw["conf_contraction"] = case["contraction"]
    if name in ("PaVeBaPartialGP-rect", "PaVeBaPartialGP-ell"):
        kw["costs"] = case["costs"]
        kw["cost_budget"] = case["budget"]
    if name == "DecoupledGP":
        kw["costs"] = case["costs"]
        kw["cost_budget"] = case["budget"]
    if name in ("PaVeBa", "Auer"):
        kw["conf_contraction"] = case["contraction"]
    if name == "NaiveElimination":
        kw["L"] = case["L"]
    if name == "VOGP_AD":
        prob = stubs.SyntheticContinuousProblem(AD_FUNCS[case["fn"]], case["d"], 2, case["noise_var"],
                                                depth_max=case["depth"])
        return stubs.build(name, problem=prob, W=W, model="fixed", epsilon=case["eps"],
                           noise_var=case["noise_var"], **kw)
    return stubs.build(name, in_data=np.array(case["X"], dtype=float), out_data=np.array(case["Y"], dtype=float),
                       W=W, model="fixed", epsilon=case["eps"], noise_var=case["noise_var"], **kw)


def _dump(model):
    """copy of the data the model conditions on"""
    if hasattr(model, "design_samples"):
        return {"kind": "emp", "samples": [np.array(s, dtype=float).copy() for s in model.design_samples]}
    ti = model.train_inputs
    if isinstance(ti, list):
        return {"kind": "list", "X": [t.detach().cpu().numpy().astype(float).copy() for t in ti],
                "Y": [t.detach().cpu().numpy().astype(float).copy() for t in model.train_targets]}
    return {"kind": "gp", "X": ti.detach().cpu().numpy().astype(float).copy(),
            "Y": model.train_targets.detach().cpu().numpy().astype(float).copy()}


def _locate(rows, points):
    """exact row lookup: index of each row of `rows` in `points` (first d columns), -1 if absent"""
    rows = np.atleast_2d(np.asarray(rows, dtype=float))
    pts = np.asarray(points, dtype=float)
    d = min(rows.shape[1], pts.shape[1])
    out = []
    for r in rows:
        hit = np.where(np.all(pts[:, :d] == r[:d], axis=1))[0]
        out.append(int(hit[0]) if len(hit) else -1)
    return out


def _points(alg, name):
    if name == "DecoupledGP":
        return alg.points
    if name == "NaiveElimination":
        return alg.dataset.in_data
    return alg.design_space.points


def _active(alg, name):
    if name in ("VOGP", "EpsilonPAL", "VOGP_AD"):
        return sorted(alg.S | alg.P)
    if name in ("PaVeBa", "PaVeBaGP-IH", "PaVeBaGP-DE", "PaVeBaPartialGP-rect", "PaVeBaPartialGP-ell"):
        return sorted(alg.S | alg.U)
    if name == "Auer":
        return sorted(alg.S)
    return list(range(len(_points(alg, name))))


def _snapshot(alg, name):
    snap = {"active": _active(alg, name), "points": np.array(_points(alg, name), dtype=float).copy(),
            "data": _dump(alg.model) if hasattr(alg, "model") else None,
            "sample_count": alg.sample_count, "total_cost": float(getattr(alg, "total_cost", 0.0)),
            "S": sorted(getattr(alg, "S", [])) if name not in ("DecoupledGP", "NaiveElimination") else None,
            "P": sorted(getattr(alg, "P", [])) if name not in ("DecoupledGP", "NaiveElimination") else None}
    kind = COUPLED.get(name) or DECOUPLED.get(name)
    if kind == "diag":
        snap["lower"] = [np.array(r.lower, dtype=float).copy() for r in alg.design_space.confidence_regions]
        snap["upper"] = [np.array(r.upper, dtype=float).copy() for r in alg.design_space.confidence_regions]
    elif kind in ("sumvar", "varcost"):
        act = snap["active"]
        _, cov = alg.model.predict(snap["points"][act])
        m = alg.m
        snap["cov"] = dict(zip(act, np.asarray(cov, dtype=float).reshape(-1, m, m).copy()))
    return snap


class _Forwards:
    """class-level wrappers around the acquisition classes' `forward`: record (class, rows, objective,
    values) of every call; restored on exit"""

    def __init__(self):
        self.calls = []

    def __enter__(self):
        import vopy.acquisition.acquisition as A

        self.saved = []
        for cname in ACQ_CLASSES:
            cls = getattr(A, cname)
            real = cls.__dict__["forward"]
            self.saved.append((cls, real))

            def make(real, cname):
                def forward(acq, x):
                    th = _th.begin(acq) if cname == "ThompsonEntropyDecoupledAcquisition" else None
                    try:
                        v = real(acq, x)
                    finally:
                        if th is not None:
                            _th.end(acq, th)
                    self.calls.append({"cls": cname, "x": np.array(x, dtype=float).copy(),
                                       "j": getattr(acq, "evaluation_index", None),
                                       "v": np.array(v, dtype=float).reshape(-1).copy()})
                    if th is not None:
                        self.calls[-1]["th"] = _th.record(acq, th)
                    return v
                return forward

            cls.forward = make(real, cname)
        return self

    def __exit__(self, *a):
        for cls, real in self.saved:
            cls.forward = real
        return False


class _OptReturns:
    """wrap the optimiser name imported into the algorithm's module: record what it returned"""

    NAMES = ("optimize_acqf_discrete", "optimize_decoupled_acqf_discrete")

    def __init__(self, alg):
        import sys

        self.mod = sys.modules[type(alg).__module__]
        self.calls = []

    def __enter__(self):
        self.saved = {}
        for nm in self.NAMES:
            if nm in self.mod.__dict__:
                real = self.mod.__dict__[nm]
                self.saved[nm] = real

                def make(real, nm):
                    def opt(acq, q, choices):
                        out = real(acq, q, choices)
                        self.calls.append({"name": nm, "q": q, "out": [np.array(o).copy() for o in out]})
                        return out
                    return opt

                self.mod.__dict__[nm] = make(real, nm)
        return self

    def __exit__(self, *a):
        for nm, real in self.saved.items():
            self.mod.__dict__[nm] = real
        return False


def _rand_geometry(seed, pd, pc):
    rs = np.random.RandomState(seed % (2 ** 32))
    return {"is_dominated": lambda *a: bool(rs.random_sample() < pd),
            "is_covered": lambda *a: bool(rs.random_sample() < pc),
            "check_dominates": lambda *a: bool(rs.random_sample() < pd)}


def run_alg(ctx, case):
    import contextlib

    from harness import stubs

    name = case["alg"]
    ctx.count("run_alg_" + name)
    ctx.count("run_geom_" + ("real" if case["geom"] == "real" else "random"))
    try:
        alg = _build(case)
    except Exception as e:
        _viol(ctx, "run-build:" + core.exc_key(e), f"constructor of {name} raised {type(e).__name__}: {e}", case, kind="F")
        ctx.case_done(case, False)
        return
    proxy = stubs.RecordingProblem.attach(alg)
    spy = stubs.spy_model(alg.model) if hasattr(alg, "model") else None
    evals = []
    meth = "evaluate_refine" if name == "VOGP_AD" else ("evaluating" if name != "NaiveElimination" else None)
    fw = _Forwards()
    opt = _OptReturns(alg)
    if meth is not None:
        real_eval = getattr(alg, meth)

        def wrapped():
            rec = {"snap": _snapshot(alg, name), "f0": len(fw.calls), "p0": len(proxy.calls),
                   "a0": len(spy.add_sample), "o0": len(opt.calls), "exc": None}
            evals.append(rec)
            try:
                real_eval()
            except Exception as e:
                rec["exc"] = e
                raise
            finally:
                rec["f1"], rec["p1"], rec["a1"] = len(fw.calls), len(proxy.calls), len(spy.add_sample)
                rec["opt"] = opt.calls[rec["o0"]:]
                rec["after"] = _dump(alg.model)
                rec["sample_count"] = alg.sample_count
                rec["total_cost"] = float(getattr(alg, "total_cost", 0.0))
                rec["points_after"] = np.array(_points(alg, name), dtype=float).copy()
                rec["S_after"] = sorted(getattr(alg, "S", [])) if rec["snap"]["S"] is not None else None
                rec["P_after"] = sorted(getattr(alg, "P", [])) if rec["snap"]["P"] is not None else None

        setattr(alg, meth, wrapped)
    geom = contextlib.nullcontext() if case["geom"] == "real" or name in ("Auer", "NaiveElimination", "DecoupledGP") \
        else stubs.patch_geometry(alg, **_rand_geometry(case["seed"] + 17, case["geom"]["pd"], case["geom"]["pc"]))
    nontrivial = False
    crashed = False
    if name == "VOGP_AD" and case["geom"] != "real":
        # refinement decisions (property C18) replaced by a seeded coin, so that active sets of several nodes
        # are reached within a few rounds; the depth limit is respected
        ds, coin = alg.design_space, np.random.RandomState((case["seed"] + 5) % (2 ** 32))
        ds.should_refine_design = lambda model, i, scale: bool(ds.point_depths[i] < ds.max_depth
                                                               and coin.random_sample() < 0.5)
    if case.get("force"):
        # a legitimate reachable shape of the sets (S ∩ P = ∅, U ⊆ P), installed before the first round
        alg.S, alg.P = set(case["force"]["S"]), set(case["force"]["P"])
        if hasattr(alg, "U"):
            alg.U = set(case["force"]["U"])
        ctx.count("run_forced_sets")
    noise = stubs.zero_noise() if case.get("noise") == "zero" else stubs.seeded_noise(case["seed"])
    try:
        with fw, opt, geom, noise:
            for _ in range(case["rounds"]):
                if name == "NaiveElimination":
                    before = {"samples": alg.samples.copy(), "p0": len(proxy.calls), "count": alg.sample_count,
                              "done": alg.round == alg.L}
                try:
                    done = alg.run_one_step()
                except Exception as e:
                    crashed = True
                    rec = evals[-1] if evals and evals[-1]["exc"] is e else None
                    if rec is not None and _through_optimiser(e) and case["batch"] > len(rec["snap"]["active"]):
                        # regression key of defect D7.  With a real GP behind the acquisition the empty
                        # `choices` array already made `acq(choices)` raise (RuntimeError in gpytorch,
                        # ValueError in locate_points) before np.argmax was reached
                        _viol(ctx, D7_KEY, "optimize_acqf_discrete raises ValueError (argmax of an empty sequence) when "
                              "the batch size exceeds the number of choices; the property demands a batch for every "
                              "batch size >= 1", case,
                              detail={"algorithm": name, "batch": case["batch"], "active": rec["snap"]["active"],
                                      "exception": f"{type(e).__name__}: {e}"[:200]})
                        ctx.count("run_crash_batch_gt_active")
                    else:
                        _viol(ctx, "run-crash:" + core.exc_key(e), f"{name}.run_one_step raised {type(e).__name__}: {e}", case)
                    break
                if name == "NaiveElimination":
                    _check_naive(ctx, case, alg, proxy, before)
                if done:
                    break
        for rec in evals:
            if rec["exc"] is not None:
                continue
            if name in COUPLED:
                nt = _check_coupled(ctx, case, name, alg, rec, fw.calls[rec["f0"]:rec["f1"]],
                                    proxy.calls[rec["p0"]:rec["p1"]], spy.add_sample[rec["a0"]:rec["a1"]])
            elif name in DECOUPLED:
                nt = _check_decoupled(ctx, case, name, alg, rec, fw.calls[rec["f0"]:rec["f1"]],
                                      proxy.calls[rec["p0"]:rec["p1"]], spy.add_sample[rec["a0"]:rec["a1"]])
            else:
                nt = _check_evalall(ctx, case, name, alg, rec, proxy.calls[rec["p0"]:rec["p1"]],
                                    spy.add_sample[rec["a0"]:rec["a1"]])
            nontrivial = nontrivial or nt
        if name in ("PaVeBa", "Auer"):
            sizes = [len(r["snap"]["active"]) for r in evals]
            nontrivial = len(set(sizes)) > 1
        if name == "NaiveElimination":
            nontrivial = alg.round >= 2
        ctx.count("run_evaluations", len(evals))
    finally:
        if spy is not None:
            spy.restore()
        proxy.detach()
        if meth is not None:
            alg.__dict__.pop(meth, None)
    ctx.count("run_crashed" if crashed else "run_completed")
    ctx.case_done(case, nontrivial, canon=case)


def _close(a, b, tol=1e-9):
    a, b = float(a), float(b)
    return abs(a - b) <= tol * max(1.0, abs(a), abs(b))


def _spec_tol(vals, q, pos, tol=1e-9):
    """the batch relation with every comparison relaxed by a relative 1e-9 (used only to classify a failure of
    the exact relation as a numerical near-tie)"""
    if len(pos) != q or len(set(pos)) != len(pos):
        return False
    rem = set(range(len(vals)))
    for p in pos:
        best = max(vals[t] for t in rem)
        if vals[p] < best - tol * max(1.0, abs(best)):
            return False
        rem.discard(p)
    return True


def _data_check_gp(ctx, case, name, alg, rec, X, Y, adds):
    """new training data = old ++ (queried rows, returned observations), via the Lean store model"""
    old, new = rec["snap"]["data"], rec["after"]
    d = alg.model.input_dim
    ans = ctx.ask("gpadd", str(d), core.qmat(old["X"]), core.qmat(old["Y"]), core.qmat(X), core.qmat(Y))
    exp = core.qmat(new["X"]) + " " + core.qmat(new["Y"])
    if ans != exp:
        _viol(ctx, "data-gp", f"{name}: the model's training data after the step is not the old data followed by "
              "exactly the returned observations paired with the queried designs", case,
              detail={"old_n": len(old["X"]), "new_n": len(new["X"]), "queried": np.asarray(X).tolist(),
                      "returned": np.asarray(Y).tolist(), "new_tail_X": new["X"][len(old["X"]):].tolist(),
                      "new_tail_Y": new["Y"][len(old["Y"]):].tolist()})
    if len(adds) != 1:
        _viol(ctx, "add-sample-calls", f"{name}: add_sample called {len(adds)} times in one evaluating()", case, kind="F")


def _defvals(name, kind, snap, designs, j=None, costs=None):
    """acquisition DEFINITION computed from the pre-step state for the given designs"""
    if kind == "diag":
        return [float(np.linalg.norm(snap["upper"][i] - snap["lower"][i])) for i in designs]
    if kind == "sumvar":
        return [float(np.trace(snap["cov"][i])) for i in designs]
    if kind == "varcost":
        return [float(snap["cov"][i][j, j] / (costs[j] if costs is not None else 1.0)) for i in designs]
    raise ValueError(kind)


def _check_rowwise(ctx, case, name, calls, picked_rows):
    """calls of one `optimize_acqf_discrete` invocation: each later call sees the previous rows minus the
    picked one, with unchanged per-row values"""
    ok = True
    for k in range(1, len(calls)):
        prev, cur = calls[k - 1], calls[k]
        if len(cur["x"]) != len(prev["x"]) - 1:
            ok = False
            break
        # the removed row
        rem = [i for i in range(len(prev["x"])) if i >= len(cur["x"]) or not np.array_equal(prev["x"][i], cur["x"][i])]
        r = rem[0] if rem else len(prev["x"]) - 1
        if not (np.array_equal(np.delete(prev["x"], r, axis=0), cur["x"])
                and np.array_equal(np.delete(prev["v"], r), cur["v"])):
            ok = False
            break
    if not ok:
        ctx.count("rowwise_assumption_broken_info")
    return ok


def _check_coupled(ctx, case, name, alg, rec, fcalls, pcalls, adds):
    """One evaluating() of a coupled algorithm.  The property fixes the OUTCOME (which designs are
    queried and what reaches the model), not the route: the verdicts (R) are taken against the rule's value
    table computed here from the state the property names (region diagonals / summed posterior variance
    of the ACTIVE designs at the moment evaluating() is entered).  The spy on the acquisition object is a
    cross-check only: if it was consulted its values must equal that table (F); if not, that is counted
    (`acquisition-bypassed_info`) and nothing is raised."""
    kind = COUPLED[name]
    snap = rec["snap"]
    act = snap["active"]
    q = case["batch"]
    own = _defvals(name, kind, snap, act)          # the rule's values, position k = design act[k]
    dv = dict(zip(act, own))
    consulted = bool(fcalls)
    rows, v0 = None, None
    if not consulted:
        ctx.count("acquisition-bypassed_info")
    else:
        x0, v0 = fcalls[0]["x"], [float(v) for v in fcalls[0]["v"]]
        rows = _locate(x0, snap["points"])
        # ---- cross-check: the choice set is the active set
        if sorted(rows) != act:
            _viol(ctx, "choice-set", f"{name}: the optimiser's choices are not the active designs "
                  f"(S∪P for VOGP/ε-PAL/VOGP_AD, S∪U for the PaVeBa family)", case, kind="F",
                  detail={"choices": rows, "active": act})
        # ---- cross-check: recorded values = acquisition definition on the pre-step state
        if all(i in dv for i in rows):
            for i, a_ in zip(rows, v0):
                b_ = dv[i]
                bad = (a_ != b_) if kind == "diag" else not _close(a_, b_)
                if bad:
                    _viol(ctx, "acq-value", f"{name}: acquisition value of design {i} differs from its definition on "
                          "the pre-step state", case, kind="F", detail={"design": i, "seen": a_, "definition": b_})
                    break
        _check_rowwise(ctx, case, name, fcalls, None)
    # ---- the own table against the exact Lean definitions
    if kind == "diag":  # value² vs Σ(u−l)² of the displayed rectangle
        for i, a_ in zip(act, own):
            ex = core.parse_q(ctx.ask("diagsq", core.qvec(snap["lower"][i]), core.qvec(snap["upper"][i])))
            if abs(core.frac(a_) ** 2 - ex) > ex * core.frac(1e-12):
                _viol(ctx, "acq-value", f"{name}: squared diagonal of design {i} differs from Σ(u−l)² of its "
                      "displayed region", case, kind="F", detail={"design": i, "seen": a_, "exact_sq": str(ex)})
                break
    else:
        for i, a_ in zip(act[:3], own[:3]):
            ex = core.parse_q(ctx.ask("sumvar", core.qmat(snap["cov"][i])))
            if not _close(a_, float(ex)):
                _viol(ctx, "acq-value", f"{name}: trace of the posterior covariance of design {i} differs from the Lean "
                      "definition", case, kind="F", detail={"design": i, "seen": a_, "trace": float(ex)})
                break
    # ---- what was asked of the problem
    refined = False
    if name == "VOGP_AD" and not pcalls:
        # the node was refined instead of evaluated: the refined node must be the maximiser
        gone = sorted(set(snap["S"]) | set(snap["P"]))  # active before
        now = set(rec["S_after"]) | set(rec["P_after"])
        removed = [i for i in gone if i not in now]
        refined = True
        ctx.count("ad_refined")
        if len(removed) != 1 or len(rec["points_after"]) <= len(snap["points"]):
            _viol(ctx, "ad-refine", "VOGP_AD: neither an evaluation nor a refinement of exactly one node", case, kind="F",
                  detail={"removed": removed})
            return False
        queried = removed
        Xq = Yq = None
    else:
        if len(pcalls) != 1:
            _viol(ctx, "evaluate-calls", f"{name}: problem.evaluate called {len(pcalls)} times in one evaluating()",
                  case, kind="F")
            return False
        Xq, Yq = pcalls[0]["x"], pcalls[0]["values"]
        queried = _locate(Xq, snap["points"])
    if any(i not in act for i in queried):
        _viol(ctx, "queried-not-active", f"{name}: a queried design is not active", case,
              detail={"queried": queried, "active": act})
        return False
    # ---- (R) against the own table: min(q, |active|) distinct active designs, each an arg-max of the rule among
    #      the active designs not yet in the batch (exact ties either way), hence non-increasing
    qown = 1 if refined else min(q, len(act))
    opos = [act.index(i) for i in queried]
    spec = ctx.ask("specd", core.qvec(own), str(qown), core.nats(opos), core.qvec([own[p] for p in opos]))
    if spec != "ok" and kind != "diag" and _spec_tol(own, qown, opos):
        # GP posteriors recomputed for another batch of rows differ in the last bits: a tie within 1e-9
        ctx.count("run_near_tie_info")
    elif spec != "ok":
        _viol(ctx, "not-maximiser-among-active", f"{name}: the queried designs {queried} are not {qown} distinct active "
              "designs each maximising the acquisition rule among the active designs not yet in the batch "
              "(non-increasing order)", case,
              detail={"queried": queried, "active_values": {str(t): dv[t] for t in act}, "lean": spec})
    if not consulted:
        # no acquisition object to cross-check: the Lean step model on the own table (sorted active rows)
        model = ctx.ask("optd", core.qvec(own), str(qown))
        if spec == "ok" and not refined and model not in ("err", "bad-op", "empty") and \
                core.parse_nats(model.split(" ")[0]) == opos:
            obs = [[] for _ in act]
            for p_, y in zip(opos, np.asarray(Yq, dtype=float)):
                obs[p_] = list(y)
            old, new = snap["data"], rec["after"]
            ans = ctx.ask("step", str(alg.model.input_dim), core.qmat(snap["points"][act]), core.qvec(own), str(q),
                          core.qmat(obs), core.qmat(old["X"]), core.qmat(old["Y"]))
            if ans != core.qmat(Xq) + " " + core.qmat(new["X"]) + " " + core.qmat(new["Y"]):
                _viol(ctx, "step-model", f"{name}: candidates / training data after the step differ from the "
                      "Lean model of one evaluating() step", case, kind="F", detail={"lean": ans[:300]})
            ctx.count("run_step_model_checked")
    else:
        # ---- cross-check on the values the optimiser saw: the batch is the optimiser's output for them
        qeff = min(q, len(rows))
        pos = _positions(rows, queried)
        if None in pos:
            _viol(ctx, "queried-not-a-choice", f"{name}: a queried design was not among the optimiser's choices", case,
                  detail={"queried": queried, "choices": rows})
            return False
        vq = [v0[p] for p in pos]
        # exact, call by call: pick k maximises the values the optimiser was handed in its k-th iteration
        for k, i in enumerate(queried):
            if k >= len(fcalls):
                _viol(ctx, "batch-spec", f"{name}: more designs queried than optimiser iterations", case, kind="F")
                break
            rk, vk = _locate(fcalls[k]["x"], snap["points"]), [float(v) for v in fcalls[k]["v"]]
            if i not in rk:
                _viol(ctx, "batch-spec", f"{name}: pick {k} (design {i}) was not among the rows of iteration {k} "
                      "(a design picked twice, or a row that was not a choice)", case,
                      detail={"iteration_rows": rk, "queried": queried})
                break
            pk = rk.index(i)
            if ctx.ask("specd", core.qvec(vk), "1", str(pk), core.q(vk[pk])) != "ok":
                _viol(ctx, "batch-spec", f"{name}: pick {k} (design {i}) does not maximise the acquisition values of "
                      f"iteration {k}", case, detail={"rows": rk, "values": vk, "picked": i})
                break
            if k + 1 < len(fcalls) and _locate(fcalls[k + 1]["x"], snap["points"]) != rk[:pk] + rk[pk + 1:]:
                _viol(ctx, "batch-spec", f"{name}: the picked row was not removed from the choices", case,
                      detail={"rows": rk, "picked": i, "next_rows": _locate(fcalls[k + 1]["x"], snap["points"])})
                break
        spec = ctx.ask("specd", core.qvec(v0), str(1 if refined else qeff), core.nats(pos), core.qvec(vq))
        if spec != "ok" and _spec_tol(v0, 1 if refined else qeff, pos):
            ctx.count("run_near_tie_info")
        elif spec != "ok":
            _viol(ctx, "batch-spec", f"{name}: the queried designs are not a batch of {qeff} distinct maximisers of the "
                  "recorded acquisition values in non-increasing order", case,
                  detail={"choices": rows, "values": v0, "queried": queried, "lean": spec})
        else:
            model = ctx.ask("optd", core.qvec(v0), str(1 if refined else q))
            if model not in ("err", "bad-op", "empty"):
                mp = core.parse_nats(model.split(" ")[0])
                if mp == pos and not refined:
                    # whole step through the Lean model `Acq.evaluatingStep`: candidates and the data afterwards
                    obs = [[] for _ in rows]
                    for p_, y in zip(pos, np.asarray(Yq, dtype=float)):
                        obs[p_] = list(y)
                    old, new = snap["data"], rec["after"]
                    ans = ctx.ask("step", str(alg.model.input_dim), core.qmat(x0), core.qvec(v0), str(q), core.qmat(obs),
                                  core.qmat(old["X"]), core.qmat(old["Y"]))
                    if ans != core.qmat(Xq) + " " + core.qmat(new["X"]) + " " + core.qmat(new["Y"]):
                        _viol(ctx, "step-model", f"{name}: candidates / training data after the step differ from the "
                              "Lean model of one evaluating() step", case, kind="F", detail={"lean": ans[:300]})
                    ctx.count("run_step_model_checked")
                if mp != pos:
                    if len(set(v0)) == len(v0):
                        _viol(ctx, "batch-positions", f"{name}: tie-free values but the batch differs from the model's",
                              case, kind="F", detail={"impl": pos, "model": mp})
                    else:
                        ctx.count("run_tie_order_differs_info")
    if refined:
        return len(act) > 1
    # ---- what reached the model
    if adds:
        a = adds[0][0]
        if not (np.array_equal(np.asarray(a[0], dtype=float), Xq) and np.array_equal(np.asarray(a[1], dtype=float), Yq)):
            _viol(ctx, "add-sample-args", f"{name}: add_sample did not receive the queried rows with the returned "
                  "observations", case, kind="F")
    _data_check_gp(ctx, case, name, alg, rec, Xq, Yq, adds)
    if rec["sample_count"] - snap["sample_count"] != len(queried):
        _viol(ctx, "sample-count", f"{name}: sample_count advanced by {rec['sample_count'] - snap['sample_count']} "
              f"for {len(queried)} evaluations", case, kind="F")
    ctx.count("run_batch_%d" % len(queried))
    return len(queried) < len(act) and len(set(own)) >= 2


def _thompson_batch(ctx, case, name, alg, rec, fcalls, queried, objs):
    """All decoupled algorithms; for DecoupledGP the only batch check: the Thompson acquisition re-samples
    whenever the choice array changes, so it is not a fixed table.  Checked relative to the values it actually produced: every pick inside the per-objective
    loops maximises the values of *that* call, and the final batch is the top-q of the per-call maxima."""
    snap, q, m = rec["snap"], case["batch"], alg.m
    if not rec["opt"] or rec["opt"][0]["name"] != "optimize_decoupled_acqf_discrete":
        ctx.count("optimiser-bypassed_info")   # the route is not part of the property
        return "skip"
    out = rec["opt"][0]["out"]
    avals = [float(v) for v in np.asarray(out[1], dtype=float).reshape(-1)]
    if _locate(out[0], snap["points"]) != queried or [int(o) for o in np.asarray(out[2]).reshape(-1)] != objs:
        _viol(ctx, "batch-spec", f"{name}: the designs/objectives sent to the problem are not the optimiser's output",
              case, detail={"queried": queried, "objs": objs})
        return None
    C, info = [], []   # per (objective, call): maximum, and the designs allowed as that call's pick
    for j in range(m):
        cj = [c for c in fcalls if c["j"] == j]
        if len(cj) != min(q, len(snap["active"])):
            ctx.count("optimiser-route-differs_info")   # another route through the acquisition: not a verdict
            return "skip"
        for k, c in enumerate(cj):
            vals = [float(v) for v in c["v"]]
            rows = _locate(c["x"], snap["points"])
            if k == 0 and sorted(rows) != snap["active"]:
                _viol(ctx, "choice-set", f"{name}: the optimiser's choices are not all designs", case, kind="F",
                      detail={"choices": rows})
            best = max(vals)
            if k + 1 < len(cj):
                nxt = _locate(cj[k + 1]["x"], snap["points"])
                gone = [p for p in range(len(rows)) if rows[:p] + rows[p + 1:] == nxt]
                if not gone:
                    _viol(ctx, "batch-spec", f"{name}: the choice list did not lose exactly one row after a pick", case,
                          detail={"before": rows, "after": nxt})
                    return None
                p = gone[0]
                if ctx.ask("specd", core.qvec(vals), "1", str(p), core.q(vals[p])) != "ok":
                    _viol(ctx, "batch-spec", f"{name}: objective {j}, pick {k}: the removed design does not maximise the "
                          "acquisition values produced for that call", case,
                          detail={"choices": rows, "values": vals, "picked": rows[p]})
                allowed = [rows[p]]
            else:
                allowed = [rows[p] for p in range(len(rows)) if vals[p] == best]
            C.append(best)
            info.append((j, allowed))
    used, pos = set(), []
    for i, o, a in zip(queried, objs, avals):
        hit = [t for t in range(len(C)) if t not in used and info[t][0] == o and i in info[t][1] and C[t] == a]
        if not hit:
            _viol(ctx, "batch-spec", f"{name}: selected (design {i}, objective {o}, value {a}) is not one of the "
                  "per-objective candidates with its recorded value", case, detail={"candidates": C})
            return None
        used.add(hit[0])
        pos.append(hit[0])
    spec = ctx.ask("specd", core.qvec(C), str(min(q, len(C))), core.nats(pos), core.qvec(avals))
    if spec != "ok":
        _viol(ctx, "batch-spec", f"{name}: the batch is not the top-{min(q, len(C))} of the per-objective candidates in "
              "non-increasing order", case, detail={"candidates": C, "positions": pos, "values": avals})
    return len(set(C)) >= 2


def _check_decoupled(ctx, case, name, alg, rec, fcalls, pcalls, adds):
    """One evaluating() of a decoupled algorithm; verdicts against the own table (see `_check_coupled`)."""
    kind = DECOUPLED[name]
    snap = rec["snap"]
    act = snap["active"]
    m = alg.m
    costs = None if alg.costs is None else np.asarray(alg.costs, dtype=float)
    firsts = {}
    for c in fcalls:
        if c["j"] is not None and int(c["j"]) not in firsts:
            firsts[int(c["j"])] = c
    consulted = sorted(firsts) == list(range(m))
    if not consulted:
        ctx.count("acquisition-bypassed_info")
    if kind == "thompson":
        if consulted:
            _th.check_calls(ctx, case, name, fcalls)   # values / mask against Model/Thompson.lean
        return _check_decoupled_tail(ctx, case, name, alg, rec, fcalls, pcalls, adds, None, None, consulted)
    rows = table = None
    if consulted:
        rows = _locate(firsts[0]["x"], snap["points"])
        table = []
        for j in range(m):
            if _locate(firsts[j]["x"], snap["points"]) != rows:
                _viol(ctx, "choice-set", f"{name}: the objectives were optimised over different choice lists", case, kind="F")
                return False
            table.append([float(v) for v in firsts[j]["v"]])
        if sorted(rows) != act:
            _viol(ctx, "choice-set", f"{name}: the optimiser's choices are not the active designs", case, kind="F",
                  detail={"choices": rows, "active": act})
        if kind == "varcost" and all(i in snap["cov"] for i in rows):
            for j in range(m):
                defv = _defvals(name, kind, snap, rows, j, costs)
                for i, a, b in zip(rows, table[j], defv):
                    if not _close(a, b):
                        _viol(ctx, "acq-value", f"{name}: acquisition value of (design {i}, objective {j}) is not "
                              "cov_jj / cost_j on the pre-step state", case, kind="F",
                              detail={"design": i, "objective": j, "seen": a, "definition": b})
                        break
        for j in range(m):
            _check_rowwise(ctx, case, name, [c for c in fcalls if c["j"] == j], None)
    if kind == "varcost" and act:
        i0 = act[0]
        own00 = _defvals(name, kind, snap, [i0], 0, costs)[0]
        ex = ctx.ask("varcost", core.qmat(snap["cov"][i0]), "0", "none" if costs is None else core.qvec(costs))
        if ex in ("err", "bad-op") or not _close(own00, float(core.parse_q(ex))):
            _viol(ctx, "acq-value", f"{name}: cov_00 / cost_0 of design {i0} differs from the Lean definition",
                  case, kind="F", detail={"seen": own00, "lean": ex})
    return _check_decoupled_tail(ctx, case, name, alg, rec, fcalls, pcalls, adds, rows, table, consulted)


def _check_decoupled_tail(ctx, case, name, alg, rec, fcalls, pcalls, adds, rows, table, consulted=True):
    kind = DECOUPLED[name]
    snap = rec["snap"]
    act = snap["active"]
    q = case["batch"]
    m = alg.m
    costs = None if alg.costs is None else np.asarray(alg.costs, dtype=float)
    if len(pcalls) != 1:
        _viol(ctx, "evaluate-calls", f"{name}: problem.evaluate called {len(pcalls)} times in one evaluating()", case, kind="F")
        return False
    Xq, Yq = pcalls[0]["x"], np.asarray(pcalls[0]["values"], dtype=float).reshape(-1)
    ei = pcalls[0]["args"][0] if pcalls[0]["args"] else pcalls[0]["kwargs"].get("evaluation_index")
    objs = [int(o) for o in np.asarray(ei).reshape(-1)]
    queried = _locate(Xq, snap["points"])
    if any(i not in act for i in queried):
        _viol(ctx, "queried-not-active", f"{name}: a queried design is not active", case,
              detail={"queried": queried, "active": act})
        return False
    if len(objs) != len(queried) or any(o < 0 or o >= m for o in objs):
        _viol(ctx, "batch-spec", f"{name}: objective indices do not match the queried designs", case,
              detail={"queried": queried, "objs": objs})
        return False
    # ---- (R) independent of the route: min(q, |active|·m) distinct (design, objective) pairs
    qown = min(q, len(act) * m)
    keys = list(zip(queried, objs))
    if len(keys) != qown or len(set(keys)) != len(keys):
        _viol(ctx, "batch-spec", f"{name}: the batch is not {qown} distinct (design, objective) pairs", case,
              detail={"queried": queried, "objs": objs})
        return False
    nt = len(queried) < len(act) * m
    if kind == "varcost":
        # ---- (R) against the own table cov_jj / cost_j of the active designs at entry of evaluating()
        own = [_defvals(name, kind, snap, act, j, costs) for j in range(m)]
        opos = [act.index(i) for i in queried]
        ovals = [own[o][p] for p, o in zip(opos, objs)]
        spec = ctx.ask("specdec", core.qmat(own), str(qown), core.nats(opos), core.nats(objs), core.qvec(ovals))
        ncol = len(act)
        if spec != "ok" and _spec_tol([v for r in own for v in r], qown, [o * ncol + p for p, o in zip(opos, objs)]):
            ctx.count("run_near_tie_info")
        elif spec != "ok":
            _viol(ctx, "not-maximiser-among-active", f"{name}: the queried (design, objective) pairs are not {qown} "
                  "distinct pairs each maximising cov_jj / cost_j among the active pairs not yet in the batch "
                  "(non-increasing order)", case,
                  detail={"queried": queried, "objs": objs, "active": act, "table": own, "lean": spec})
        if not consulted and spec == "ok":
            model = ctx.ask("optdec", core.qmat(own), str(q))
            if model not in ("err", "bad-op", "empty"):
                mp, mo, _ = model.split(" ")
                if (core.parse_nats(mp), core.parse_nats(mo)) == (opos, objs):
                    obs = [[0.0] * len(act) for _ in range(m)]
                    for p_, o_, y_ in zip(opos, objs, Yq):
                        obs[o_][p_] = float(y_)
                    old, new = snap["data"], rec["after"]
                    ans = ctx.ask("decstep", str(alg.model.input_dim), str(m), core.qmat(snap["points"][act]),
                                  core.qmat(own), str(q), core.qmat(obs), core.qmats(old["X"]), core.qmat(old["Y"]))
                    exp = " ".join([core.qmat(Xq), core.nats(objs), core.qmats(new["X"]), core.qmat(new["Y"])])
                    if ans != exp:
                        _viol(ctx, "step-model", f"{name}: candidates / per-objective training data after the step "
                              "differ from the Lean model of one decoupled evaluating() step", case, kind="F",
                              detail={"lean": ans[:300]})
                    ctx.count("run_step_model_checked")
        nt = nt and len(set(v for r in own for v in r)) >= 2
    if consulted:
        # ---- cross-checks on the values the acquisition object produced
        t = _thompson_batch(ctx, case, name, alg, rec, fcalls, queried, objs)  # exact, per optimiser iteration
        if t is None:
            return False
        if kind != "thompson":
            t2 = _table_batch(ctx, case, name, alg, rec, rows, table, queried, objs, fcalls, Xq, Yq)
            if t2 is None:
                return False
        elif t != "skip":
            nt = bool(t)
    return _decoupled_data(ctx, case, name, alg, rec, pcalls, adds, queried, objs, Xq, Yq, costs) and nt


def _table_batch(ctx, case, name, alg, rec, rows, table, queried, objs, fcalls, Xq, Yq):
    kind = DECOUPLED[name]
    snap = rec["snap"]
    act = snap["active"]
    q = case["batch"]
    m = alg.m
    costs = None if alg.costs is None else np.asarray(alg.costs, dtype=float)
    pos = [None] * len(queried)
    for j in set(objs):
        ks = [k for k in range(len(queried)) if objs[k] == j]
        for k, p in zip(ks, _positions(rows, [queried[k] for k in ks])):
            pos[k] = p
    if None in pos:
        _viol(ctx, "batch-spec", f"{name}: queried (design, objective) pairs are not distinct choices", case,
              detail={"queried": queried, "objs": objs, "choices": rows})
        return None
    vq = [table[o][p] for p, o in zip(pos, objs)]
    qeff = min(q, len(rows) * m)
    spec = ctx.ask("specdec", core.qmat(table), str(qeff), core.nats(pos), core.nats(objs), core.qvec(vq))
    ncol = len(rows)
    if spec != "ok" and _spec_tol([v for r in table for v in r], qeff, [o * ncol + p for p, o in zip(pos, objs)]):
        ctx.count("run_near_tie_info")
    elif spec != "ok":
        _viol(ctx, "batch-spec", f"{name}: the queried (design, objective) pairs are not {qeff} distinct pairs with the "
              "largest recorded acquisition values in non-increasing order", case,
              detail={"choices": rows, "table": table, "queried": queried, "objs": objs, "lean": spec})
    else:
        flat = [v for r in table for v in r]
        model = ctx.ask("optdec", core.qmat(table), str(q))
        if model not in ("err", "bad-op", "empty"):
            mp, mo, _ = model.split(" ")
            if (core.parse_nats(mp), core.parse_nats(mo)) == (pos, objs):
                # whole step through the Lean model `Acq.evaluatingStepDecoupled`
                x0 = next(c["x"] for c in fcalls if c["j"] is not None)
                obs = [[0.0] * len(rows) for _ in range(m)]
                for p_, o_, y_ in zip(pos, objs, Yq):
                    obs[o_][p_] = float(y_)
                old, new = snap["data"], rec["after"]
                ans = ctx.ask("decstep", str(alg.model.input_dim), str(m), core.qmat(x0), core.qmat(table), str(q),
                              core.qmat(obs), core.qmats(old["X"]), core.qmat(old["Y"]))
                exp = " ".join([core.qmat(Xq), core.nats(objs), core.qmats(new["X"]), core.qmat(new["Y"])])
                if ans != exp:
                    _viol(ctx, "step-model", f"{name}: candidates / per-objective training data after the step differ "
                          "from the Lean model of one decoupled evaluating() step", case, kind="F",
                          detail={"lean": ans[:300]})
                ctx.count("run_step_model_checked")
            if (core.parse_nats(mp), core.parse_nats(mo)) != (pos, objs):
                if len(set(flat)) == len(flat):
                    _viol(ctx, "batch-positions", f"{name}: tie-free table but the batch differs from the model's",
                          case, kind="F", detail={"impl": [pos, objs], "model": model})
                else:
                    ctx.count("run_tie_order_differs_info")
    if kind == "varcost":
        dv = {(i, j): v for j in range(m) for i, v in zip(act, _defvals(name, kind, snap, act, j, costs))}
        remaining = set(dv)
        for k, key in enumerate(zip(queried, objs)):
            if key not in remaining:
                break
            best = max(dv[t] for t in remaining)
            if dv[key] < best - 1e-9 * max(1.0, abs(best)):
                _viol(ctx, "not-maximiser-among-active", f"{name}: queried pair {key} (pick {k}) does not maximise "
                      "cov_jj / cost_j among the active (design, objective) pairs not yet in the batch", case,
                      detail={"pair": list(key), "value": dv[key], "best": best})
                break
            remaining.discard(key)
    flat = [v for r in table for v in r]
    return len(queried) < len(act) * m and len(set(flat)) >= 2


def _decoupled_data(ctx, case, name, alg, rec, pcalls, adds, queried, objs, Xq, Yq, costs):
    snap, m = rec["snap"], alg.m
    # ---- what reached the model
    if adds:
        a = adds[0][0]
        if not (np.array_equal(np.asarray(a[0], dtype=float), Xq)
                and np.array_equal(np.asarray(a[1], dtype=float).reshape(-1), Yq)
                and [int(o) for o in np.asarray(a[2]).reshape(-1)] == objs):
            _viol(ctx, "add-sample-args", f"{name}: add_sample did not receive the queried rows, the returned "
                  "observations and the requested objective indices", case, kind="F")
    if len(adds) != 1:
        _viol(ctx, "add-sample-calls", f"{name}: add_sample called {len(adds)} times in one evaluating()", case, kind="F")
    old, new = snap["data"], rec["after"]
    d = alg.model.input_dim
    ans = ctx.ask("listadd", str(d), str(m), core.qmats(old["X"]), core.qmat(old["Y"]), core.qmat(Xq), core.qvec(Yq),
                  core.nats(objs))
    exp = core.qmats(new["X"]) + " " + core.qmat(new["Y"])
    if ans != exp:
        _viol(ctx, "data-list", f"{name}: per-objective training data after the step is not the old data followed by "
              "exactly the returned observations, each under its requested objective, paired with its design", case,
              detail={"queried": Xq.tolist(), "objs": objs, "returned": Yq.tolist(),
                      "old_sizes": [len(t) for t in old["Y"]], "new_sizes": [len(t) for t in new["Y"]],
                      "new_tail_Y": [new["Y"][j][len(old["Y"][j]):].tolist() for j in range(m)],
                      "new_tail_X": [new["X"][j][len(old["X"][j]):].tolist() for j in range(m)]})
    if rec["sample_count"] - snap["sample_count"] != len(queried):
        _viol(ctx, "sample-count", f"{name}: sample_count advanced by {rec['sample_count'] - snap['sample_count']} "
              f"for {len(queried)} evaluations", case, kind="F")
    if costs is not None:
        want = float(sum(costs[o] for o in objs))
        if not _close(rec["total_cost"] - snap["total_cost"], want, 1e-12):
            _viol(ctx, "cost-accounting", f"{name}: total_cost advanced by {rec['total_cost'] - snap['total_cost']} but the "
                  f"requested objectives cost {want}", case, kind="F", detail={"objs": objs, "costs": costs.tolist()})
    ctx.count("run_batch_%d" % len(queried))
    return True


def _check_evalall(ctx, case, name, alg, rec, pcalls, adds):
    snap = rec["snap"]
    act = snap["active"]
    if len(pcalls) != 1:
        _viol(ctx, "evaluate-calls", f"{name}: problem.evaluate called {len(pcalls)} times in one evaluating()", case, kind="F")
        return False
    Xq, Yq = pcalls[0]["x"], np.asarray(pcalls[0]["values"], dtype=float)
    queried = _locate(Xq, snap["points"][:, :-1])
    S = snap["S"]
    U = [i for i in act if i not in S]
    want = core.parse_nats(ctx.ask("evalall", core.nats(S), core.nats(U)))
    if sorted(queried) != sorted(want):
        _viol(ctx, "evaluate-all", f"{name}: the designs evaluated in this round are not every active design exactly "
              "once", case, detail={"queried": queried, "active": sorted(want)})
        return False
    if len(adds) != 1:
        _viol(ctx, "add-sample-calls", f"{name}: add_sample called {len(adds)} times in one evaluating()", case, kind="F")
        return False
    idx = [int(i) for i in np.asarray(adds[0][0][0]).reshape(-1)]
    Ya = np.asarray(adds[0][0][1], dtype=float)
    # each stored observation must be the one returned for that design
    ret = {i: Yq[k] for k, i in enumerate(queried)}
    if len(idx) != len(Ya) or any(i not in ret or not np.array_equal(Ya[k], ret[i]) for k, i in enumerate(idx)):
        _viol(ctx, "data-emp", f"{name}: an observation was stored under a design other than the one it was returned "
              "for", case, detail={"queried_order": queried, "stored_under": idx})
        return False
    old, new = snap["data"]["samples"], rec["after"]["samples"]
    ans = ctx.ask("empadd", str(len(old)), core.qmats(old), core.nats(idx), core.qmat(Ya))
    if ans != core.qmats(new):
        _viol(ctx, "data-emp", f"{name}: design_samples after the step are not the old samples followed by exactly "
              "the returned observations of each design", case,
              detail={"stored_under": idx, "old_sizes": [len(s) for s in old], "new_sizes": [len(s) for s in new]})
    order_differs = idx != sorted(idx)
    ctx.count("run_set_order_%s_sorted" % ("differs_from" if order_differs else "equals"))
    if case.get("noise") == "zero":
        # noise-free observations: the new row of design i must be design i's own (distinct) value
        truth = np.array(case["Y"], dtype=float)
        for i in sorted(want):
            tail = np.asarray(new[i], dtype=float)[len(old[i]):]
            if tail.shape != (1, truth.shape[1]) or not np.array_equal(tail[0], truth[i]):
                _viol(ctx, "data-emp", f"{name}: with noise-free observations the sample appended for design {i} is "
                      "not that design's own value", case, detail={"design": i, "appended": tail.tolist(),
                                                                   "own_value": truth[i].tolist()})
                break
        ctx.count("run_zero_noise_value_checks")
    obs = [[] for _ in old]
    for k, i in enumerate(queried):
        obs[i] = [float(v) for v in Yq[k]]
    ans = ctx.ask("evalallstep", str(len(old)), core.nats(S), core.nats(U), core.qmat(obs), core.qmats(old))
    if ans != core.qmats(new):
        _viol(ctx, "step-model", f"{name}: design_samples after the round differ from the Lean model of one "
              "evaluate-everything step (each active design gets exactly its own new observation)", case, kind="F",
              detail={"lean": ans[:300]})
    ctx.count("run_step_model_checked")
    if rec["sample_count"] - snap["sample_count"] != len(queried):
        _viol(ctx, "sample-count", f"{name}: sample_count advanced by {rec['sample_count'] - snap['sample_count']} "
              f"for {len(queried)} evaluations", case, kind="F")
    return False


def _check_naive(ctx, case, alg, proxy, before):
    calls = proxy.calls[before["p0"]:]
    if before["done"]:
        if calls:
            _viol(ctx, "evaluate-all", "NaiveElimination evaluated designs after its last round", case, kind="F")
        return
    n = len(alg.dataset.in_data)
    if len(calls) != 1:
        _viol(ctx, "evaluate-calls", f"NaiveElimination: problem.evaluate called {len(calls)} times in one round", case, kind="F")
        return
    queried = _locate(calls[0]["x"], alg.dataset.in_data)
    want = core.parse_nats(ctx.ask("evalall", core.nats(range(n)), "_"))
    if sorted(queried) != want:
        _viol(ctx, "evaluate-all", "NaiveElimination: a round does not evaluate every design exactly once", case,
              detail={"queried": queried})
        return
    Y = np.asarray(calls[0]["values"], dtype=float)
    old, new = before["samples"], alg.samples
    ok = new.shape == (n, old.shape[1] + 1, old.shape[2]) and np.array_equal(new[:, :-1, :], old)
    ok = ok and all(np.array_equal(new[i, -1, :], Y[k]) for k, i in enumerate(queried))
    if ok and case.get("noise") == "zero":
        ok = np.array_equal(new[:, -1, :], np.array(case["Y"], dtype=float))
    if not ok:
        _viol(ctx, "data-naive", "NaiveElimination: the sample array after the round is not the old samples followed "
              "by the returned observation of each design", case)
    if alg.sample_count - before["count"] != n:
        _viol(ctx, "sample-count", "NaiveElimination: sample_count did not advance by the number of designs", case, kind="F")



def run_case(ctx, case):
    kind = case["kind"]
    if kind == "disc":
        run_disc(ctx, case)
    elif kind == "dec":
        run_dec(ctx, case)
    elif kind == "run":
        run_alg(ctx, case)
    elif kind in ("acq", "covrun", "twospace", "alias", "locate"):
        _cov.run_cov(ctx, case)
    elif kind == "thompson":
        _th.run_thompson(ctx, case)
    else:
        raise ValueError(f"unknown case kind {kind!r}")
