"""C19 — gaps, ε-coverage and ε-F1 agree with their geometric definitions.

Real `get_smallmij / get_delta / is_covered / get_uncovered_set / get_uncovered_size`
(`vopy/utils/utils.py`) and `calculate_epsilonF1_score /
calculate_hypervolume_discrepancy_for_model` (`vopy/utils/evaluate.py`) against the Lean model
`VOPy.Eval` (exact rational arithmetic on the exported floats; ε-coverage through an exact
projection with a KKT / Farkas certificate checked in Lean).

Verdicts
* (R) the code's value differs from the geometric definition the theorems of `Props/C19.lean` are
  about (`smallM` = largest uniform shift, `isCoveredPt` = ∃ cone vector of norm ≤ ε, `f1` built
  from them), a law of the F1 score fails on the real function, the hypervolume inequality fails,
  an input array is mutated, or the code crashes on a well-formed input outside the numerical band.
* (F) botorch's hypervolume differs from the exact union-of-boxes volume beyond tolerance.
* ε-coverage is compared only outside the band: the exact distance `d` must satisfy
  `d ≤ ε(1−1e-6) − 1e-9` (robustly covered) or `d ≥ ε(1+1e-6) + 1e-9` (robustly not covered);
  inside the band the solver's answer (including `SolverError`) is recorded as information.
"""
from __future__ import annotations

import math
import time
import warnings
from fractions import Fraction as Fr

import numpy as np

from harness import core
from harness.cones import EXACT_CONES

TITLE = "gaps / ε-coverage / ε-F1 / hypervolume vs Lean model"
RULE = ("case kinds: smallm (cone, α, vi, vj), delta (cone, α, value set), cover (cone, vi, vj, ladder of ε "
        "incl. 0 and values just outside the band around the exact distance), uncov (index sets), f1 (cone, α, "
        "value set, true Pareto set, predicted list = true/subset/superset/shuffled/empty/all/duplicates/random, "
        "ladder of ε incl. 0 and exact ties δ_k = ε), hv (botorch Hypervolume on subsets), hvmodel (the real "
        "calculate_hypervolume_discrepancy_for_model on stub problem/model), history (ONE value set scored in "
        "sequence under several cones, wide→narrow→wide or random with repeats, incl. N>m and integer-row cones, "
        "several ε / predicted sets, interleaved with get_delta / get_smallmij / is_covered on the same arrays, "
        "the array handed over as same object / copy / float32 / Fortran order / strided view: every answer "
        "must be the model's answer for that call's own arguments), enduser (the REAL OrderingCone built from "
        "diag(c)·W0 with per-row scales 0.25…4, its own α: get_delta / ε-F1 exactly as a user calls them must be "
        "invariant under the row scaling and equal the model's gaps for an independently known α), translate (a "
        "lattice value set and the same set plus a common offset odd·2^12…2^20 per coordinate: all subtractions "
        "exact, so gaps / scores must be bit-identical and equal the model's on the translated values; a quarter "
        "of the delta / f1 / hv cases carry such an offset too), afteruse (the order object after it has been "
        "handed to the constructors of the algorithm classes, two objects sharing it, optionally one step: W and "
        "α unchanged bit for bit and gaps / F1 with the USED order equal the model's), large (n ∈ {255, 256, 257, "
        "300, 513, 1030}: a front of ≤ 6 lattice points plus n − |front| points each dominated in the interior by "
        "every front point, so every gap is decided by the front; all n gaps compared exactly, the tail and the "
        "indices around 256 / 512 / 1024 also through the Lean driver, and the F1 of front + tail design). Cones: integer-row cones "
        "(harness/cones.py + scaled/flat ones) with dyadic value sets (float path exact, compared with ==) and "
        "the bundled orders and rotated orthonormal cones (Pythagorean rotations of the orthant in 2-D / 3-D, square "
        "orthonormal non-permutation W) with their real float W and solver α exported exactly (1e-12 / band); "
        "uncov also checks get_uncovered_size == len(get_uncovered_set) == count implied by pairwise is_covered. "
        "non-trivial = verdict not fixed by the shape (a positive gap and a zero gap both present; ε-ladder "
        "with both verdicts; F1 strictly between 0 and 1 or a tie); distinct by canonical case content")
ASSUMPTIONS = [
    "ε-coverage verdicts are compared only outside the band ε(1±1e-6)±1e-9 around the exact distance",
    "value sets are dyadic; for integer-row cones W(vj−vi) is exact in binary floating point",
    "α is a parameter of the functions: the comparison uses the α the code was given (exported exactly)",
]
MAX_JOBS = 14
LARGE_1030_IN_QUICK = False  # n = 1030: ~8 s per call of the real O(n²) get_delta (and F1 calls it again): thorough only

TAU = Fr(1, 10 ** 6)
ABS = Fr(1, 10 ** 9)

EXTRA_CONES = {
    "scaled2": [[1, 0], [0, 2]],
    "scaled3": [[2, 0, 0], [0, 1, 0], [0, 0, 4]],
    "skewscaled2": [[1, 0], [-1, 2]],
}
ROT_CONES = {  # square orthonormal, NOT permutations: rotated orthants (W Wᵀ = I up to rounding, all α_n = 1)
    "rot2_53": [[3 / 5, 4 / 5], [-4 / 5, 3 / 5]],
    "rot2_37": [[4 / 5, 3 / 5], [-3 / 5, 4 / 5]],
    "rot2_67": [[5 / 13, 12 / 13], [-12 / 13, 5 / 13]],
    "rot2_23": [[12 / 13, 5 / 13], [-5 / 13, 12 / 13]],
    "rot2_28": [[15 / 17, 8 / 17], [-8 / 17, 15 / 17]],
    "rot2_16": [[24 / 25, 7 / 25], [-7 / 25, 24 / 25]],
    "rot2_44": [[21 / 29, 20 / 29], [-20 / 29, 21 / 29]],
    "rot2_74": [[7 / 25, 24 / 25], [-24 / 25, 7 / 25]],
    "rot3_z53": [[3 / 5, 4 / 5, 0], [-4 / 5, 3 / 5, 0], [0, 0, 1]],
    "rot3_x23": [[1, 0, 0], [0, 12 / 13, 5 / 13], [0, -5 / 13, 12 / 13]],
    "rot3_thirds": [[2 / 3, -1 / 3, 2 / 3], [2 / 3, 2 / 3, -1 / 3], [-1 / 3, 2 / 3, 2 / 3]],
    "rot3_sevenths": [[2 / 7, 3 / 7, 6 / 7], [3 / 7, -6 / 7, 2 / 7], [6 / 7, 2 / 7, -3 / 7]],
}
FLAT_CONES = {  # empty interior: only for is_covered (α would be 0)
    "flat2": [[1, 0], [-1, 0]],
    "ray3": [[1, 0, 0], [-1, 0, 0], [0, 1, 0], [0, -1, 0], [0, 0, 1]],
}
BUNDLED = ["comp2", "comp3", "theta45", "theta60", "theta90", "theta120", "theta135",
           "acute3d", "right3d", "obtuse3d", "ice30_4", "ice45_6"]

_cone_cache: dict = {}


def _bundled(name):
    from vopy.order import ComponentwiseOrder, ConeOrder3D, ConeOrder3DIceCream, ConeTheta2DOrder

    if name.startswith("comp"):
        return ComponentwiseOrder(int(name[4:]))
    if name.startswith("theta"):
        return ConeTheta2DOrder(float(name[5:]))
    if name.endswith("3d"):
        return ConeOrder3D(name[:-2])
    if name.startswith("ice"):
        deg, k = name[3:].split("_")
        return ConeOrder3DIceCream(float(deg), int(k))
    raise KeyError(name)


def cone_info(name):
    """(W as list of float rows, real α as list of floats or None, integer rows?)"""
    if name in _cone_cache:
        return _cone_cache[name]
    if name in FLAT_CONES:
        info = ([[float(x) for x in r] for r in FLAT_CONES[name]], None, True)
    elif name in BUNDLED:
        o = _bundled(name)
        W = np.array(o.ordering_cone.W, dtype=float)
        info = (W.tolist(), [float(a) for a in np.ravel(o.ordering_cone.alpha)],
                bool(np.all(W == np.round(W))))
    else:
        from vopy.utils import get_alpha_vec

        rows = (EXACT_CONES[name][0] if name in EXACT_CONES else
                EXTRA_CONES[name] if name in EXTRA_CONES else ROT_CONES[name])
        W = np.array(rows, dtype=float)
        info = (W.tolist(), [float(a) for a in np.ravel(get_alpha_vec(W))], bool(np.all(W == np.round(W))))
    _cone_cache[name] = info
    return info


ALPHA_CONES = sorted(EXACT_CONES) + sorted(EXTRA_CONES) + BUNDLED + sorted(ROT_CONES)
ALL_CONES = ALPHA_CONES + sorted(FLAT_CONES)


def make_order(W, alpha):
    """Real PolyhedralConeOrder / OrderingCone objects with the given W and α (the α stored in the
    case, so that run_case is a pure function of the case and no solver is needed)."""
    from vopy.order import PolyhedralConeOrder
    from vopy.ordering_cone import OrderingCone

    oc = OrderingCone.__new__(OrderingCone)
    oc.W = np.array(W, dtype=float)
    oc.dim = oc.W.shape[1]
    oc.alpha = np.array(alpha, dtype=float).reshape(-1, 1)
    return PolyhedralConeOrder(oc)


class _DS:
    """the only attribute calculate_epsilonF1_score reads"""

    def __init__(self, out):
        self.out_data = out


# --------------------------------------------------------------------------------------------- helpers
def _viol(ctx, key, what, case, kind="R", detail=None):
    """report the first instance of each failure class per worker (the shared recorder keeps only 20
    records, and one replay is written per key anyway); later instances are only counted"""
    seen = ctx.__dict__.setdefault("_c19_seen", set())
    ctx.count("viol_" + key.split(":")[0])
    if key in seen:
        return
    seen.add(key)
    ctx.violation(key, what, case, kind=kind, detail=detail)


def F(x):
    return core.frac(x)


def fdot(w, d):
    return sum(F(a) * b for a, b in zip(w, d))


def call(fn, *a):
    """('ok', value) or ('exc', exception-name, exception)"""
    try:
        with warnings.catch_warnings():
            warnings.simplefilter("ignore")
            return ("ok", fn(*a))
    except Exception as e:  # noqa: BLE001
        return ("exc", type(e).__name__, e)


def same_value(code: float, model: Fr, exact: bool) -> bool:
    code = float(code)
    if code != code:
        return False
    if exact:
        # correctly rounded quotient + monotone min/max: the code's float is the rounding of the model's rational
        return code == float(model)
    return abs(F(code) - model) <= Fr(1, 10 ** 12) * max(1, abs(model))


def cover_band(d2, eps: Fr, rel: Fr = TAU):
    """True / False if the exact squared distance d2 (Fraction, or 'infeasible') decides ε-coverage
    with relative margin `rel` (and absolute margin 1e-9), None inside that band."""
    if d2 == "infeasible":
        return False
    lo = eps * (1 - rel) - ABS
    hi = eps * (1 + rel) + ABS
    if lo >= 0 and d2 <= lo * lo:
        return True
    if hi < 0 or d2 >= hi * hi:
        return False
    return None


NEAR = Fr(1, 1000)  # relative margin below which the conic solver is observed to fail on marginally
#                     infeasible instances (SolverError / iteration limit); reported under separate keys


def ask_dist2(ctx, vi, vj, W):
    """exact squared distance (Fraction) | 'infeasible' | None (no certificate)"""
    a = ctx.ask("dist2", core.qvec(vi), core.qvec(vj), core.qmat(W))
    if a.startswith("d2 "):
        return Fr(a.split(" ")[1])
    if a.startswith("infeasible"):
        return "infeasible"
    if a == "unknown":
        return None
    raise RuntimeError("driver answered " + a)


def lattice_vec(rng, m, p, lo=-4, hi=4):
    return [core.dyadic(rng, lo, hi, p) for _ in range(m)]


def interior_vec(rng, W, p):
    """a dyadic vector with W d > 0 if one is found quickly, else any"""
    m = len(W[0])
    for _ in range(60):
        d = lattice_vec(rng, m, p)
        if all(fdot(w, [F(x) for x in d]) > 0 for w in W):
            return d
    return lattice_vec(rng, m, p)


def alpha_choice(rng, name, N):
    """(mode, α list of floats)"""
    _, real, _ = cone_info(name)
    mode = rng.choice(["real", "real", "pow2eq", "pow2", "dyadic"])
    if mode == "real":
        return mode, list(real)
    if mode == "pow2eq":
        return mode, [2.0 ** rng.randint(-2, 2)] * N
    if mode == "pow2":
        return mode, [2.0 ** rng.randint(-2, 2) for _ in range(N)]
    return mode, [rng.randint(1, 12) / 4.0 for _ in range(N)]


def value_set(rng, W, n, p):
    m = len(W[0])
    shape = rng.choice(["random", "chain", "dups", "facet", "dominated", "antichain"])
    X = [lattice_vec(rng, m, p) for _ in range(n)]
    if shape == "chain":
        d = interior_vec(rng, W, p)
        X = [[b + i * dd for b, dd in zip(X[0], d)] for i in range(n)]
        rng.shuffle(X)
    elif shape == "dups" and n >= 2:
        for _ in range(rng.randint(1, n)):
            X[rng.randrange(n)] = list(X[rng.randrange(n)])
    elif shape == "facet" and m == 2:
        w = W[rng.randrange(len(W))]
        t = [-w[1], w[0]]
        if max(abs(t[0]), abs(t[1])) <= 4:
            X = [[X[0][0] + i * t[0] / 2 ** p, X[0][1] + i * t[1] / 2 ** p] for i in range(-1, n - 1)]
            rng.shuffle(X)
    elif shape == "dominated":
        d = interior_vec(rng, W, p)
        top = X[0]
        X = [top] + [[t - k * dd for t, dd in zip(top, d)] for k in (rng.randint(1, 3) for _ in range(n - 1))]
        rng.shuffle(X)
    elif shape == "antichain" and m == 2:
        X = [[float(i), float(n - i)] for i in range(n)]
        rng.shuffle(X)
    return shape, X


def on_lattice(mu) -> bool:
    a = np.array(mu, dtype=float)
    return bool(a.size == 0 or (np.all(a * 64 == np.round(a * 64)) and np.all(np.abs(a) <= 1024)))


def big_offset(rng, m):
    """a common translation, odd·2^k per coordinate with k = 12…20: values O(1e4…5e6), differences unchanged"""
    return [rng.choice([-1.0, 1.0]) * rng.choice([1, 3, 5]) * 2.0 ** rng.randint(12, 20) for _ in range(m)]


def translate(mu, off):
    """mu + off if every addition (and hence every later subtraction) is exact, else None"""
    a = np.array(mu, dtype=float)
    b = a + np.array(off, dtype=float)
    if on_lattice(mu) and np.array_equal(b - np.array(off, dtype=float), a):
        return b.tolist()
    return None


def maybe_offset(rng, mu, shape, prob=0.25):
    """with probability `prob` translate a lattice value set by a large common offset (raw, unstandardised
    objectives): the gaps / coverage / scores depend on differences only"""
    if mu and rng.random() < prob:
        t = translate(mu, big_offset(rng, len(mu[0])))
        if t is not None:
            return t, shape + "+offset"
    return mu, shape


# --------------------------------------------------------------------------------------------- generation
def gen(ctx):
    rng = ctx.rng
    # ---- malformed stream (rejected inputs)
    if ctx.worker == 0:
        yield {"kind": "smallm", "cone": "emptyW", "W": [], "alpha": [], "vi": [0.0, 0.0], "vj": [1.0, 1.0],
               "exactW": True, "shape": "malformed"}
        yield {"kind": "smallm", "cone": "orthant2", "W": [[1.0, 0.0], [0.0, 1.0]], "alpha": [1.0, 1.0, 1.0],
               "vi": [0.0, 0.0], "vj": [1.0, 1.0], "exactW": True, "shape": "malformed"}
        yield {"kind": "f1", "cone": "orthant2", "W": [[1.0, 0.0], [0.0, 1.0]], "alpha": [1.0, 1.0],
               "alpha_mode": "pow2eq", "exactW": True, "mu": [[0.0, 0.0], [1.0, 1.0]], "truth": [1, 5], "pred": [1],
               "eps": [0.0], "perm": [1], "pred_shape": "malformed"}
        yield {"kind": "f1", "cone": "orthant2", "W": [[1.0, 0.0], [0.0, 1.0]], "alpha": [1.0, 1.0],
               "alpha_mode": "pow2eq", "exactW": True, "mu": [[0.0, 0.0], [1.0, 1.0]], "truth": [], "pred": [],
               "eps": [0.0, 0.5], "perm": [], "pred_shape": "both-empty"}

    def pick_cone(pool):
        name = rng.choice(pool)
        W, real, exactW = cone_info(name)
        return name, W, real, exactW

    # ---- get_smallmij
    for _ in range(ctx.n(300, 12000)):
        name, W, _, exactW = pick_cone(ALPHA_CONES)
        m, N = len(W[0]), len(W)
        p = rng.choice([0, 1, 3])
        mode, alpha = alpha_choice(rng, name, N)
        shape = rng.choice(["random", "dominated", "same", "facet", "reverse"])
        vi = lattice_vec(rng, m, p)
        if shape == "random":
            vj = lattice_vec(rng, m, p)
        elif shape == "same":
            vj = list(vi)
        else:
            d = interior_vec(rng, W, p)
            if shape == "reverse":
                d = [-x for x in d]
            if shape == "facet" and m == 2:
                w = W[rng.randrange(N)]
                d = [-w[1], w[0]] if rng.random() < 0.5 else [w[1], -w[0]]
            vj = [a + b for a, b in zip(vi, d)]
        yield {"kind": "smallm", "cone": name, "W": W, "alpha": alpha, "alpha_mode": mode, "vi": vi, "vj": vj,
               "exactW": exactW, "shape": shape}

    # ---- get_delta
    for _ in range(ctx.n(150, 6000)):
        name, W, _, exactW = pick_cone(ALPHA_CONES)
        mode, alpha = alpha_choice(rng, name, len(W))
        n = rng.randint(1, 8)
        shape, mu = value_set(rng, W, n, rng.choice([0, 1, 3]))
        mu, shape = maybe_offset(rng, mu, shape)
        yield {"kind": "delta", "cone": name, "W": W, "alpha": alpha, "alpha_mode": mode, "mu": mu,
               "exactW": exactW, "shape": shape}

    # ---- is_covered on points, ladder of ε around the exact distance
    for _ in range(ctx.n(150, 5000)):
        name, W, _, exactW = pick_cone(ALL_CONES)
        m = len(W[0])
        p = rng.choice([0, 1, 3])
        vi = lattice_vec(rng, m, p)
        shape = rng.choice(["random", "dominated", "same", "near"])
        if shape == "random":
            vj = lattice_vec(rng, m, p)
        elif shape == "same":
            vj = list(vi)
        elif shape == "dominated":
            vj = [a + b for a, b in zip(vi, interior_vec(rng, W, p))]
        else:
            vj = [a + core.dyadic(rng, -2, 2, 3) for a in vi]
        d2 = ask_dist2(ctx, vi, vj, W)
        eps, must = [0.0, core.dyadic(rng, 0, 16, 2)], []
        if isinstance(d2, Fr) and d2 > 0:
            d = math.sqrt(float(d2))
            must = [d * (1 - 2e-3), d * (1 + 2e-3)]  # just outside the solver's flaky zone: most informative
            eps += [d, d * (1 - 3e-6), d * (1 + 3e-6), d * (1 - 3e-5), d * (1 + 3e-5), d / 2, 2 * d]
            r = math.isqrt(d2.numerator * d2.denominator)
            if r * r == d2.numerator * d2.denominator:  # rational distance: ε = d exactly
                eps.append(float(Fr(r, d2.denominator)))
        else:
            eps += [1e-8, 1.0]
        eps = sorted(set(eps))
        rng.shuffle(eps)
        eps = must + eps[: rng.randint(1, 3)]
        yield {"kind": "cover", "cone": name, "W": W, "vi": vi, "vj": vj, "eps": eps, "exactW": exactW, "shape": shape}

    # ---- get_uncovered_set / get_uncovered_size
    for _ in range(ctx.n(60, 2500)):
        name, W, _, exactW = pick_cone(sorted(ROT_CONES) if rng.random() < 0.3 else ALL_CONES)
        n = rng.randint(2, 6)
        shape, mu = value_set(rng, W, n, rng.choice([0, 1]))
        P = [rng.randrange(n) for _ in range(rng.randint(0, 3))]
        Ph = [rng.randrange(n) for _ in range(rng.randint(0, 3))]
        eps = rng.choice([0.0, 0.5, 1.0, core.dyadic(rng, 0, 24, 2)])
        yield {"kind": "uncov", "cone": name, "W": W, "mu": mu, "P": P, "Phat": Ph, "eps": eps,
               "exactW": exactW, "shape": shape}

    # ---- ε-F1
    for _ in range(ctx.n(100, 4000)):
        name, W, real, exactW = pick_cone(ALPHA_CONES)
        N = len(W)
        mode, alpha = alpha_choice(rng, name, N)
        n = rng.randint(1, 7)
        shape, mu = value_set(rng, W, n, rng.choice([0, 1, 2]))
        mu, shape = maybe_offset(rng, mu, shape)
        order = make_order(W, alpha)
        truth = sorted(int(i) for i in order.get_pareto_set(np.array(mu, dtype=float)))
        pshape = rng.choice(["true", "true", "subset", "superset", "shuffled", "empty", "all", "dups", "random",
                             "complement"])
        if pshape in ("true", "shuffled"):
            pred = list(truth)
        elif pshape == "subset":
            pred = [i for i in truth if rng.random() < 0.6]
        elif pshape == "superset":
            pred = sorted(set(truth) | {i for i in range(n) if rng.random() < 0.5})
        elif pshape == "empty":
            pred = []
        elif pshape == "all":
            pred = list(range(n))
        elif pshape == "dups":
            pred = [rng.randrange(n) for _ in range(rng.randint(1, n + 2))]
        elif pshape == "complement":
            pred = [i for i in range(n) if i not in truth]
        else:
            pred = sorted({rng.randrange(n) for _ in range(rng.randint(0, n))})
        if pshape != "true":
            rng.shuffle(pred)
        perm = list(pred)
        rng.shuffle(perm)
        # ε ladder: 0, exact ties with gap values (the model's gaps, exact), random dyadic values
        ladder = {0.0, core.dyadic(rng, 0, 12, 2), core.dyadic(rng, 0, 40, 3)}
        a = ctx.ask("delta", core.qmat(mu), core.qmat(W), core.qvec(alpha))
        if a != "ValueError":
            for q in core.parse_qvec(a):
                if q > 0 and rng.random() < 0.7 and float(q) == q:
                    ladder.add(float(q))
        ladder = sorted(ladder)
        if len(ladder) > 5:
            ladder = sorted(rng.sample(ladder, 5))
        u = rng.random()
        if u < 0.8:
            truth_case = truth
        elif u < 0.9:  # arbitrary "true" index set
            truth_case = sorted({rng.randrange(n) for _ in range(rng.randint(0, n))})
        else:  # repeated indices: the code goes through set(true_indices)
            truth_case = truth + [rng.choice(truth) for _ in range(rng.randint(1, 2))]
            rng.shuffle(truth_case)
        yield {"kind": "f1", "cone": name, "W": W, "alpha": alpha, "alpha_mode": mode, "exactW": exactW, "mu": mu,
               "truth": truth_case, "is_pareto": truth_case == truth, "pred": pred, "perm": perm, "eps": ladder,
               "pred_shape": pshape, "shape": shape}

    # ---- hypervolume through botorch on subsets
    for _ in range(ctx.n(40, 1500)):
        name = rng.choice([c for c in sorted(EXACT_CONES) if EXACT_CONES[c][1]] + sorted(EXTRA_CONES))
        W, _, exactW = cone_info(name)
        n = rng.randint(1, 8)
        shape, f = value_set(rng, W, n, rng.choice([0, 1]))
        f, shape = maybe_offset(rng, f, shape)
        sub = [i for i in range(n) if rng.random() < 0.6]
        yield {"kind": "hv", "cone": name, "W": W, "f": f, "subset": sub, "shape": shape}

    # ---- the real calculate_hypervolume_discrepancy_for_model on a stub problem / model
    for _ in range(ctx.n(4, 40)):
        name = rng.choice(["orthant2", "acute2", "obtuse2", "theta60", "theta120", "comp2"])
        W, _, _ = cone_info(name)
        yield {"kind": "hvmodel", "cone": name, "W": W, "seed": rng.randrange(10 ** 6),
               "coef": [core.dyadic(rng, -8, 8, 2) for _ in range(6)],
               "model": rng.choice(["exact", "shift", "swap", "noisy"]),
               "shift": [core.dyadic(rng, -4, 4, 2) for _ in range(4)]}

    # ---- LARGE value sets: sizes around plausible internal block sizes (fixed list in every run)
    sizes = [255, 256, 257, 300, 513] + ([1030] if ctx.tier == "thorough" or LARGE_1030_IN_QUICK else [])
    extra = ([rng.choice([258, 384, 511, 512, 600, 767, 769, 1000, 1023, 1025]) for _ in range(28)]
             if ctx.tier == "thorough" else [])
    for k, n in enumerate(sizes + extra):
        if k % ctx.nworkers != ctx.worker:
            continue
        cname = rng.choice(["orthant2", "acute2", "obtuse2", "skew2", "redundant2", "threefacet2", "orthant3",
                            "acute3", "fourfacet3", "pyramid3", "scaled2"])
        W, _, _ = cone_info(cname)
        yield {"kind": "large", "cone": cname, "W": W, "alpha": [2.0 ** rng.randint(-1, 1) for _ in W], "n": n,
               "seed": rng.randrange(10 ** 6), "nfront": rng.randint(1, 6)}

    # ---- TRANSLATION: gaps, coverage and scores are functions of differences only
    for _ in range(ctx.n(30, 1200)):
        name, W, _, exactW = pick_cone(ALPHA_CONES)
        mode, alpha = alpha_choice(rng, name, len(W))
        n = rng.randint(2, 7)
        for _try in range(5):
            shape, mu = value_set(rng, W, n, rng.choice([0, 1, 2]))
            if on_lattice(mu):
                break
        else:
            mu = [lattice_vec(rng, len(W[0]), 1) for _ in range(n)]
        off = big_offset(rng, len(W[0]))
        if rng.random() < 0.2:  # offset in one coordinate only / the readme's raw-objective scale
            off[rng.randrange(len(off))] = 0.0
        pshape = rng.choice(["true", "all", "random", "true+worst"])
        yield {"kind": "translate", "cone": name, "W": W, "alpha": alpha, "alpha_mode": mode, "exactW": exactW,
               "mu": mu, "offset": off, "shape": shape, "pred_shape": pshape, "pick": rng.random(),
               "eps": sorted({0.0, core.dyadic(rng, 0, 12, 2), core.dyadic(rng, 0, 40, 3)})}

    # ---- AFTER USE: the order object scored with after it has been handed to algorithm constructors
    names = list(AFTERUSE_ALGS)
    for k in range(ctx.n(4, 60)):
        k0 = 3 * (k * ctx.nworkers + ctx.worker)
        algs = [[names[(k0 + t) % len(names)], rng.choice([0.5, 0.25, 0.125])] for t in range(3)]
        algs.append([algs[0][0], rng.choice([0.5, 0.25])])  # a second object of the same class on the same order
        cname = rng.choice(["theta60", "theta45", "theta120", "acute2", "obtuse2", "orthant2", "skew2", "scaled2",
                            "rot2_53", "rot2_23", "comp2"])
        W, real, exactW = cone_info(cname)
        n = rng.randint(4, 6)
        shape, mu = value_set(rng, W, n, rng.choice([0, 1, 2]))
        yield {"kind": "afteruse", "cone": cname, "W": W, "alpha": list(real), "exactW": exactW, "mu": mu,
               "algs": algs, "step": rng.random() < 0.7, "seed": rng.randrange(10 ** 6), "shape": shape,
               "pred_shape": rng.choice(["true", "all", "random"]), "pick": rng.random(),
               "eps": sorted({0.0, core.dyadic(rng, 0, 12, 2), core.dyadic(rng, 0, 40, 3)})}

    # ---- END-USER path: the REAL OrderingCone (its own get_alpha_vec) built from non-unit rows
    pool = [c for c in ALPHA_CONES if c not in ("halfplane2", "wedge3")]
    for _ in range(ctx.n(25, 800)):
        name = rng.choice(pool)
        W0, _, _ = cone_info(name)
        N = len(W0)
        scale = [rng.choice([0.25, 0.5, 1.0, 2.0, 4.0]) for _ in range(N)]
        if len(set(scale)) == 1:
            scale[rng.randrange(N)] = 2.0 if scale[0] != 2.0 else 0.5
        n = rng.randint(2, 7)
        shape, mu = value_set(rng, W0, n, rng.choice([0, 1, 2]))
        yield {"kind": "enduser", "cone": name, "W0": W0, "scale": scale, "mu": mu, "shape": shape,
               "eps": sorted({0.0, core.dyadic(rng, 0, 12, 2), core.dyadic(rng, 0, 40, 3)}),
               "pred_shape": rng.choice(["true", "all", "subset", "random"]), "pick": rng.random()}

    # ---- HISTORY: one value set scored under a sequence of cones in one process
    for _ in range(ctx.n(14, 500)):
        yield gen_history(ctx)


# cones usable on one data set of dimension m, with a rough "width" rank (larger = wider cone)
HISTORY_CONES = {
    2: {"obtuse2": 5, "theta135": 5, "theta120": 4, "orthant2": 3, "comp2": 3, "theta90": 3, "redundant2": 3,
        "scaled2": 3, "rot2_53": 3, "rot2_23": 3, "rot2_67": 3, "rot2_44": 3, "skew2": 2, "skewscaled2": 2, "theta60": 1, "acute2": 1, "threefacet2": 1, "theta45": 0},
    3: {"obtuse3": 3, "obtuse3d": 3, "orthant3": 2, "comp3": 2, "right3d": 2, "scaled3": 2, "rot3_z53": 2, "rot3_thirds": 2, "rot3_sevenths": 2, "fourfacet3": 1,
        "pyramid3": 1, "ice45_6": 1, "acute3": 0, "acute3d": 0, "ice30_4": 0},
}
LAYOUTS = ["same", "copy", "f32", "fortran", "view"]


def gen_history(ctx):
    rng = ctx.rng
    m = rng.choice([2, 2, 3])
    pool = HISTORY_CONES[m]
    names = rng.sample(sorted(pool), rng.randint(2, 4))
    mode = rng.choice(["wide-narrow-wide", "narrow-wide-narrow", "random"])
    if mode == "wide-narrow-wide":
        names.sort(key=lambda c: -pool[c])
    elif mode == "narrow-wide-narrow":
        names.sort(key=lambda c: pool[c])
    n = rng.randint(3, 9)
    W0 = cone_info(names[0])[0]
    shape, mu = value_set(rng, W0, n, rng.choice([0, 1, 2]))
    if shape in ("chain", "dominated") and rng.random() < 0.5:
        mu = [lattice_vec(rng, m, 1) for _ in range(n)]
    cones = []
    for c in names:
        W, real, exactW = cone_info(c)
        alpha = list(real) if rng.random() < 0.7 else [2.0 ** rng.randint(-1, 1)] * len(W)
        truth = sorted(int(i) for i in make_order(W, alpha).get_pareto_set(np.array(mu, dtype=float)))
        a = ctx.ask("delta", core.qmat(mu), core.qmat(W), core.qvec(alpha))
        ties = [float(q) for q in core.parse_qvec(a) if q > 0 and float(q) == q] if a != "ValueError" else []
        cones.append({"name": c, "W": W, "alpha": alpha, "exactW": exactW, "truth": truth, "ties": ties})
    seq = list(range(len(cones)))
    seq = seq + seq[::-1] if mode != "random" else [rng.randrange(len(cones)) for _ in range(2 * len(cones) + 1)]
    steps = []
    for c in seq:
        truth = cones[c]["truth"]
        preds = [list(truth)]
        extra = rng.choice(["all", "subset", "random", "shuffled"])
        if extra == "all":
            preds.append(list(range(n)))
        elif extra == "subset":
            preds.append([i for i in truth if rng.random() < 0.6])
        elif extra == "shuffled":
            q = list(truth)
            rng.shuffle(q)
            preds.append(q)
        else:
            preds.append(sorted({rng.randrange(n) for _ in range(rng.randint(1, n))}))
        ladder = sorted({0.0, core.dyadic(rng, 0, 12, 2)} | set(rng.sample(cones[c]["ties"], min(1, len(cones[c]["ties"])))))
        for pred in preds:
            for eps in ladder if pred is preds[-1] else ladder[:1 + (rng.random() < 0.5)]:
                steps.append({"op": "f1", "c": c, "pred": pred, "eps": eps, "layout": rng.choice(LAYOUTS)})
        for _ in range(rng.randint(0, 2)):
            op = rng.choice(["delta", "smallm", "cover"])
            st = {"op": op, "c": c, "layout": rng.choice(LAYOUTS)}
            if op != "delta":
                st["i"], st["j"] = rng.randrange(n), rng.randrange(n)
            if op == "cover":
                st["eps"] = rng.choice([0.0, 0.5, 1.0, core.dyadic(rng, 0, 24, 2)])
            steps.append(st)
    return {"kind": "history", "cone": "history%dd" % m, "mode": mode, "mu": mu,
            "cones": [{k: v for k, v in c.items() if k != "ties"} for c in cones], "steps": steps}


# --------------------------------------------------------------------------------------------- run
def run_case(ctx, case):
    kind = case["kind"]
    ctx.count("kind_" + kind)
    ctx.count("cone_" + case["cone"])
    {"smallm": run_smallm, "delta": run_delta, "cover": run_cover, "uncov": run_uncov, "f1": run_f1,
     "hv": run_hv, "hvmodel": run_hvmodel, "history": run_history, "enduser": run_enduser,
     "translate": run_translate, "afteruse": run_afteruse, "large": run_large}[kind](ctx, case)


def _classify_gap(ctx, case, what, got, spec: Fr, bro: Fr, exact, where):
    """got: the code's float with the column α; spec/bro: model values"""
    if same_value(got, spec, exact):
        return True
    if same_value(got, bro, exact):
        _viol(ctx, "gap-alpha-broadcast",
                      f"{where}: with the documented (N,1) alpha_vec numpy broadcasts prod/alpha_vec to an N×N "
                      "table, so the value is min_k relu(w_k·d)/max_n α_n, not the gap min_n relu(w_n·d)/α_n",
                      case, kind="R", detail={"code": float(got), "gap": str(spec), "broadcast": str(bro)})
    else:
        _viol(ctx, what, f"{where}: value differs from the geometric gap formula", case, kind="R",
                      detail={"code": float(got), "gap": str(spec), "broadcast": str(bro)})
    return False


def run_smallm(ctx, case):
    from vopy.utils import get_smallmij

    W = np.array(case["W"], dtype=float).reshape(len(case["W"]), len(case["vi"]))
    a = np.array(case["alpha"], dtype=float)
    vi, vj = np.array(case["vi"], dtype=float), np.array(case["vj"], dtype=float)
    exact = case["exactW"]
    args = (core.qvec(vi), core.qvec(vj), core.qmat(case["W"]), core.qvec(a))
    spec_s, bro_s = ctx.ask("smallm", *args), ctx.ask("smallmb", *args)
    ctx.count("shape_smallm_" + case["shape"])
    # flat alpha ---------------------------------------------------------------------------------
    ins = [vi.copy(), vj.copy(), W.copy(), a.copy()]
    r = call(get_smallmij, *ins)
    if any(not np.array_equal(x, y) for x, y in zip(ins, [vi, vj, W, a])):
        _viol(ctx, "smallmij-mutates-input", "get_smallmij changed one of its input arrays", case)
    if spec_s == "ValueError":
        if r[0] != "exc" or r[1] != "ValueError":
            _viol(ctx, "smallmij-malformed", "malformed input not rejected with ValueError as modelled", case,
                          kind="F", detail={"code": str(r[:2])})
        ctx.case_done(case, False)
        return
    spec, bro = Fr(spec_s), Fr(bro_s)
    if r[0] == "exc":
        _viol(ctx, "smallmij-crash:" + core.exc_key(r[2]), "get_smallmij raised on a well-formed input", case)
        return
    if not same_value(r[1], spec, exact):
        _viol(ctx, "smallmij-value", "get_smallmij (flat α): value differs from min_n relu(w_n·(vj−vi))/α_n",
                      case, detail={"code": float(r[1]), "model": str(spec)})
    if float(r[1]) < 0:
        _viol(ctx, "smallmij-negative", "negative gap", case)
    # (N,1) column alpha (what get_alpha_vec returns) ------------------------------------------------
    ins = [vi.copy(), vj.copy(), W.copy(), a.reshape(-1, 1).copy()]
    r2 = call(get_smallmij, *ins)
    if any(not np.array_equal(x, y) for x, y in zip(ins, [vi, vj, W, a.reshape(-1, 1)])):
        _viol(ctx, "smallmij-mutates-input", "get_smallmij changed one of its input arrays", case)
    if r2[0] == "exc":
        _viol(ctx, "smallmij-crash:" + core.exc_key(r2[2]), "get_smallmij raised on a well-formed input", case)
        return
    _classify_gap(ctx, case, "smallmij-value", r2[1], spec, bro, exact, "get_smallmij")
    ctx.count("smallm_" + ("positive" if spec > 0 else "zero"))
    if spec != bro:
        ctx.count("smallm_broadcast_visible")
    ctx.case_done(case, spec > 0 or case["shape"] in ("random", "facet"),
                  canon=[case["W"], case["alpha"], case["vi"], case["vj"]])


def run_delta(ctx, case):
    from vopy.utils import get_delta

    mu = np.array(case["mu"], dtype=float)
    W = np.array(case["W"], dtype=float)
    a = np.array(case["alpha"], dtype=float)
    exact = case["exactW"]
    args = (core.qmat(mu), core.qmat(W), core.qvec(a))
    spec = core.parse_qvec(ctx.ask("delta", *args))
    bro = core.parse_qvec(ctx.ask("deltab", *args))
    ctx.count("shape_delta_" + case["shape"])
    ins = [mu.copy(), W.copy(), a.copy()]
    r = call(get_delta, *ins)
    first_now = np.array(np.ravel(r[1]), dtype=float, copy=True) if r[0] != "exc" and isinstance(r[1], np.ndarray) else None
    ins2 = [mu.copy(), W.copy(), a.reshape(-1, 1).copy()]
    r2 = call(get_delta, *ins2)
    if first_now is not None and len(mu) > 1:
        # the gap array the caller still holds must not change when get_delta is asked about other values afterwards
        call(get_delta, (mu[::-1] * 2.0 + 1.0).copy(), W.copy(), a.copy())
        late = np.ravel(r[1])
        if late.shape != first_now.shape or not np.array_equal(late, first_now, equal_nan=True):
            _viol(ctx, "result-changes-after-later-call", "the gap array returned by get_delta, kept by the caller, "
                  "changed after a later get_delta call on other values", case)
            return
    if any(not np.array_equal(x, y) for x, y in zip(ins + ins2, [mu, W, a, mu, W, a.reshape(-1, 1)])):
        _viol(ctx, "delta-mutates-input", "get_delta changed one of its input arrays", case)
    for rr in (r, r2):
        if rr[0] == "exc":
            _viol(ctx, "delta-crash:" + core.exc_key(rr[2]), "get_delta raised on a well-formed input", case)
            return
        if np.shape(rr[1]) != (len(mu), 1):
            _viol(ctx, "delta-shape", "get_delta does not return an (n,1) array", case)
            return
    flat, col = np.ravel(r[1]), np.ravel(r2[1])
    ok = True
    for i in range(len(mu)):
        if not same_value(flat[i], spec[i], exact):
            _viol(ctx, "delta-value", "get_delta (flat α): Δ_i differs from max(0, max_j m(i,j))", case,
                          detail={"i": i, "code": float(flat[i]), "model": str(spec[i])})
            ok = False
            break
    for i in range(len(mu)):
        if not _classify_gap(ctx, case, "delta-value", col[i], spec[i], bro[i], exact, f"get_delta[{i}]"):
            ok = False
            break
    # (R) law on the real function: Δ_i = 0 ⇔ no design dominates i in the interior of the cone
    fm = [[F(x) for x in row] for row in case["mu"]]
    tol = Fr(0) if exact else ABS
    for i in range(len(mu)):
        status = False  # True: an interior dominator exists; None: within rounding of the boundary
        for j in range(len(mu)):
            vals = [fdot(w, [b - c for b, c in zip(fm[j], fm[i])]) for w in case["W"]]
            if all(v > tol for v in vals):
                status = True
                break
            if all(v > -tol for v in vals) and any(v != 0 for v in vals) and not exact:
                status = None
        if status is None:
            ctx.count("delta_zero_law_borderline")
            continue
        for nm, arr in (("flat", flat), ("column", col)):
            if arr[i] < 0 or (float(arr[i]) == 0.0) == status:
                _viol(ctx, "delta-zero-law", f"get_delta ({nm} α): Δ_i = 0 must hold exactly when no design "
                              "dominates i in the cone's interior", case, detail={"i": i, "delta": float(arr[i])})
                ok = False
    npos = sum(1 for q in spec if q > 0)
    ctx.count("delta_mixed" if 0 < npos < len(spec) else "delta_uniform")
    if spec != bro:
        ctx.count("delta_broadcast_visible")
    ctx.case_done(case, 0 < npos < len(spec), canon=[case["W"], case["alpha"], case["mu"]])
    return ok


def _is_covered_outcome(vi, vj, eps, W):
    from vopy.utils import is_covered

    r = call(is_covered, np.array(vi, dtype=float), np.array(vj, dtype=float), eps, np.array(W, dtype=float))
    return r


def _distance_oracle(vi, vj, W):
    """min ‖z‖ s.t. W z ≥ 0, W (vj + z − vi) ≥ 0 by cvxpy (float): distance, 'infeasible' or None"""
    import cvxpy as cp

    Wn = np.array(W, dtype=float)
    d = np.array(vj, dtype=float) - np.array(vi, dtype=float)
    z = cp.Variable(Wn.shape[1])
    prob = cp.Problem(cp.Minimize(cp.norm(z)), [Wn @ z >= 0, Wn @ (z + d) >= 0])
    try:
        with warnings.catch_warnings():
            warnings.simplefilter("ignore")
            prob.solve()
    except Exception:  # noqa: BLE001
        return None
    if prob.status in ("optimal",):
        return float(prob.value)
    if prob.status in ("infeasible",):
        return "infeasible"
    return None


def run_cover(ctx, case):
    W = case["W"]
    d2 = ask_dist2(ctx, case["vi"], case["vj"], W)
    ctx.count("shape_cover_" + case["shape"])
    if d2 is None:
        ctx.count("cover_inconclusive")
        ctx.case_done(case, False)
        return
    # independent least-distance oracle straight from the geometric definition (float, other objective)
    o = _distance_oracle(case["vi"], case["vj"], W)
    if o is not None:
        ctx.count("cover_oracle_checked")
        if (d2 == "infeasible") != (o == "infeasible") or (
                d2 != "infeasible" and abs(math.sqrt(float(d2)) - o) > 1e-5 * max(1.0, o)):
            _viol(ctx, "dist-oracle", "the model's certified covering distance differs from an independent "
                  "numerical minimisation of ‖z‖ over {z ∈ C, vj + z − vi ∈ C}", case, kind="F",
                  detail={"model_dist2": str(d2), "oracle": o})
    verdicts = set()
    for eps in case["eps"]:
        band = cover_band(d2, F(eps))
        # the driver's own boolean must agree with the harness's use of the certified distance
        m = ctx.ask("iscov", core.qvec(case["vi"]), core.qvec(case["vj"]), core.q(eps), core.qmat(W))
        exact_verdict = (d2 != "infeasible") and eps >= 0 and d2 <= F(eps) ** 2
        if m != ("1" if exact_verdict else "0"):
            raise RuntimeError(f"driver iscov {m} inconsistent with dist2 {d2} at eps {eps}")
        r = _is_covered_outcome(case["vi"], case["vj"], eps, W)
        if band is None:
            ctx.count("cover_borderline")
            ctx.count("cover_borderline_code_" + (str(bool(r[1])) if r[0] == "ok" else r[1]) + "_info")
            continue
        near = cover_band(d2, F(eps), NEAR) is None
        sfx = "-near" if near else ""
        ctx.count("cover_robust_" + str(band) + sfx)
        verdicts.add(band)
        if r[0] == "exc":
            _viol(ctx, "is_covered-crash" + sfx + ":" + core.exc_key(r[2]),
                  "is_covered raised outside the numerical band"
                  + (" (ε within 1e-3 relative of the exact covering distance)" if near else ""), case,
                  detail={"eps": eps, "dist2": str(d2), "expected": band})
        elif bool(r[1]) != band and near:
            # Within 1e-3 relative of the exact covering distance the decision belongs to the conic
            # solver's own tolerance (the code falls back to SCS, eps ≈ 1e-4, when CLARABEL gives up on a
            # marginally infeasible problem): counted, not a violation.  A *crash* there is still (R).
            ctx.count("is_covered_wrong_within_solver_tolerance_info")
        elif bool(r[1]) != band:
            _viol(ctx, "is_covered-verdict" + sfx,
                  "is_covered disagrees with ∃ z ∈ C, ‖z‖ ≤ ε, vj + z ≽ vi (exact certified distance)"
                  + (" (ε within 1e-3 relative of that distance)" if near else ""),
                  case, detail={"eps": eps, "code": bool(r[1]), "dist2": str(d2)})
    ctx.case_done(case, len(verdicts) == 2, canon=[W, case["vi"], case["vj"], case["eps"]])


def _pair_table(ctx, mu, W, I, J):
    tab = {}
    for i in set(I):
        for j in set(J):
            tab[(i, j)] = ask_dist2(ctx, mu[i], mu[j], W)
    return tab


def _robust_pairs(tab, eps):
    """all pairs decided robustly?  (None entries = no certificate → not robust)"""
    return all(d2 is not None and cover_band(d2, F(eps), NEAR) is not None for d2 in tab.values())


def run_uncov(ctx, case):
    from vopy.utils import get_uncovered_set, get_uncovered_size

    mu = np.array(case["mu"], dtype=float)
    W = np.array(case["W"], dtype=float)
    P, Ph, eps = case["P"], case["Phat"], case["eps"]
    tab = _pair_table(ctx, case["mu"], case["W"], P, Ph)
    ctx.count("shape_uncov_" + case["shape"])
    if not _robust_pairs(tab, eps):
        ctx.count("uncov_borderline")
        ctx.case_done(case, False)
        return
    model = ctx.ask("uncset", core.nats(P), core.nats(Ph), core.qmat(mu), core.q(eps), core.qmat(W))
    if model == "unknown":
        ctx.count("uncov_inconclusive")
        ctx.case_done(case, False)
        return
    model = core.parse_nats(model)
    r = call(get_uncovered_set, list(P), list(Ph), mu.copy(), eps, W.copy())
    if r[0] == "exc":
        _viol(ctx, "uncovered_set-crash:" + core.exc_key(r[2]), "get_uncovered_set raised", case)
        return
    if [int(i) for i in r[1]] != model:
        _viol(ctx, "uncovered_set-value", "get_uncovered_set differs from {i ∈ P | no j ∈ P̂ ε-covers i}",
                      case, detail={"code": [int(i) for i in r[1]], "model": model})
    msize = ctx.ask("uncsize", core.qmat(mu[P]) if P else "_", core.qmat(mu[Ph]) if Ph else "_", core.q(eps),
                    core.qmat(W))
    r2 = call(get_uncovered_size, mu[P].reshape(len(P), mu.shape[1]), mu[Ph].reshape(len(Ph), mu.shape[1]), eps,
              W.copy())
    if r2[0] == "exc":
        _viol(ctx, "uncovered_size-crash:" + core.exc_key(r2[2]), "get_uncovered_size raised", case)
        return
    if str(int(r2[1])) != msize or int(r2[1]) != len(model):
        _viol(ctx, "uncovered_size-value", "get_uncovered_size differs from the number of uncovered points",
                      case, detail={"code": int(r2[1]), "model": msize})
    # (R) the three coverage routines of the real code must tell the same story (every cone)
    from vopy.utils import is_covered

    pair = {}
    for i in set(P):
        for j in set(Ph):
            rr = call(is_covered, mu[i, :].copy(), mu[j, :].copy(), eps, W.copy())
            pair[(i, j)] = None if rr[0] == "exc" else bool(rr[1])
    if all(v is not None for v in pair.values()):
        implied = [i for i in P if not any(pair[(i, j)] for j in Ph)]
        ctx.count("uncov_consistency_checked")
        if not (int(r2[1]) == len(r[1]) == len(implied)) or [int(i) for i in r[1]] != implied:
            _viol(ctx, "coverage-routines-disagree",
                  "get_uncovered_size, len(get_uncovered_set) and the count implied by pairwise is_covered differ "
                  "on the same points, ε and cone", case,
                  detail={"size": int(r2[1]), "set": [int(i) for i in r[1]], "pairwise": implied, "model": model})
    ctx.count("uncov_some" if 0 < len(model) < len(P) else "uncov_all_or_none")
    ctx.case_done(case, 0 < len(model) < len(P) or (len(P) > 0 and len(Ph) > 0),
                  canon=[case["W"], case["mu"], P, Ph, eps])


def _gap_robust(ds, pred, eps: Fr, exactW: bool):
    """is every comparison delta_k <= ε (k ∈ pred) decided identically in floats and exactly?
    With exact products the code's gap is the correctly rounded exact gap q, so `q ≤ ε ⇒ fl(q) ≤ ε`
    (ties included); only a q slightly above ε can round onto ε."""
    band = ABS * max(1, abs(eps))
    for k in set(pred):
        q = ds[k]
        if exactW:
            if not (q <= eps or q - eps > band):
                return False
        elif abs(q - eps) <= band:
            return False
    return True


def run_f1(ctx, case):
    from vopy.utils.evaluate import calculate_epsilonF1_score

    mu = np.array(case["mu"], dtype=float)
    W, alpha = case["W"], case["alpha"]
    truth, pred, perm = case["truth"], case["pred"], case["perm"]
    order = make_order(W, alpha)
    ds = _DS(mu)
    ctx.count("predshape_" + case["pred_shape"])
    ctx.count("alpha_" + case["alpha_mode"])
    margs = (core.qmat(mu), core.qmat(W), core.qvec(alpha))
    da, db = ctx.ask("delta", *margs), ctx.ask("deltab", *margs)
    inrange = all(0 <= i < len(mu) for i in truth + pred)
    exact_path = case["exactW"]
    missed = sorted(set(truth) - set(pred))
    tab = _pair_table(ctx, case["mu"], W, missed, pred) if inrange else {}
    dspec = core.parse_qvec(da) if da != "ValueError" else None
    dbro = core.parse_qvec(db) if db != "ValueError" else None
    results = []  # (eps, code value, robust?)
    nontrivial = False
    for eps in case["eps"]:
        fargs = margs + (core.nats(truth), core.nats(pred), core.q(eps))
        m_spec, m_bro = ctx.ask("f1", *fargs), ctx.ask("f1b", *fargs)
        r = call(calculate_epsilonF1_score, ds, order, list(truth), list(pred), eps)
        if m_spec == "IndexError":
            if r[0] != "exc" or r[1] != "IndexError":
                _viol(ctx, "f1-malformed", "out-of-range index not rejected with IndexError as modelled", case,
                              kind="F", detail={"code": str(r[:2])})
            continue
        if m_spec == "unknown" or m_bro == "unknown" or dspec is None:
            ctx.count("f1_inconclusive")
            continue
        robust = (_robust_pairs(tab, eps) and _gap_robust(dspec, pred, F(eps), exact_path)
                  and _gap_robust(dbro, pred, F(eps), exact_path))
        if not robust:
            ctx.count("f1_borderline_skipped")
            results.append((eps, None, False))
            continue
        if r[0] == "exc":
            _viol(ctx, "f1-crash:" + core.exc_key(r[2]),
                          "calculate_epsilonF1_score raised on a well-formed input outside the band", case,
                          detail={"eps": eps})
            continue
        val = float(r[1])
        results.append((eps, val, True))
        ctx.count("f1_compared")

        def agrees(ms):
            return (val != val) if ms == "nan" else (val == val and val == float(Fr(ms)))

        if not agrees(m_spec):
            if agrees(m_bro):
                _viol(ctx, "gap-alpha-broadcast",
                              "calculate_epsilonF1_score: get_delta is fed the (N,1) alpha column, whose broadcast "
                              "makes the gaps min_k relu(w_k·d)/max_n α_n; the true-positive count differs from "
                              "the one of the geometric gaps", case, kind="R",
                              detail={"eps": eps, "code": val, "f1": m_spec, "f1_broadcast": m_bro})
            else:
                parts = ctx.ask("f1parts", margs[0], margs[1], da, core.nats(truth), core.nats(pred), core.q(eps))
                _viol(ctx, "f1-value", "calculate_epsilonF1_score differs from 2tp/(2tp+fp+unc) built from "
                              "the geometric gaps and ε-coverage", case, kind="R",
                              detail={"eps": eps, "code": val, "model": m_spec, "model_tp_fp_unc": parts})
        if m_spec not in ("nan", "0", "1"):
            nontrivial = True
        if dspec is not None and any(dspec[k] == F(eps) and dspec[k] > 0 for k in set(pred)):
            ctx.count("f1_tie_gap_eq_eps")
            nontrivial = True
        # ---- laws on the real function (R)
        if val == val and not (0.0 <= val <= 1.0):
            _viol(ctx, "f1-range", "ε-F1 outside [0,1]", case, detail={"eps": eps, "code": val})
        if case.get("is_pareto") and len(truth) > 0 and sorted(pred) == sorted(truth) and eps >= 0 and val != 1.0:
            _viol(ctx, "f1-true-set", "ε-F1 of the true Pareto set is not 1", case,
                          detail={"eps": eps, "code": val})
        if perm != pred:
            rp = call(calculate_epsilonF1_score, ds, order, list(truth), list(perm), eps)
            if rp[0] == "exc" or not (float(rp[1]) == val or (val != val and float(rp[1]) != float(rp[1]))):
                _viol(ctx, "f1-permutation", "ε-F1 depends on the order of the predicted indices", case,
                              detail={"eps": eps, "code": val, "permuted": str(rp[1])})
            ctx.count("f1_perm_checked")
    # monotone in ε over the robust rungs of the ladder
    rob = [(e, v) for e, v, ok in results if ok and v == v]
    for (e1, v1), (e2, v2) in zip(rob, rob[1:]):
        ctx.count("f1_monotone_checked")
        if e1 <= e2 and v1 > v2:
            _viol(ctx, "f1-monotone", "ε-F1 decreases as ε grows", case,
                          detail={"eps": [e1, e2], "values": [v1, v2]})
    ctx.case_done(case, nontrivial, canon=[W, alpha, case["mu"], truth, pred, case["eps"]])


# --------------------------------------------------------------------------------------------- large value sets
def _large_points(case):
    """front (≤ 6 lattice points) + dominated points q with f − q ∈ int C for EVERY front point f, shuffled so
    that the front sits at random positions; returns (mu as float array, front indices)"""
    import random

    rng = random.Random(case["seed"])
    W = np.array(case["W"], dtype=float)
    m = W.shape[1]
    n, nf = case["n"], min(case["nfront"], case["n"])
    front = [[float(rng.randint(-6, 6)) / 2 for _ in range(m)] for _ in range(nf)]
    d = None
    for _ in range(500):
        c = [float(rng.randint(-3, 3)) for _ in range(m)]
        if np.all(W @ np.array(c) > 0):
            d = np.array(c)
            break
    if d is None:
        raise RuntimeError("no interior direction found")
    Fa = np.array(front)
    pts = []
    k = 8
    while len(pts) < n - nf:
        q = Fa[rng.randrange(nf)] - (k + rng.randint(0, 40)) * d / 2 + np.array(
            [rng.randint(-8, 8) / 2 for _ in range(m)])
        if np.all((Fa - q) @ W.T > 0):
            pts.append(q.tolist())
        else:
            k += 1
    idx = list(range(n))
    rng.shuffle(idx)
    fpos = sorted(idx[:nf])
    mu = np.zeros((n, m))
    rest = iter(pts)
    fi = iter(front)
    fset = set(fpos)
    for i in range(n):
        mu[i] = next(fi) if i in fset else next(rest)
    return mu, fpos


def run_large(ctx, case):
    """(R) `gap-tail-block`: every gap of a large value set, in particular the last indices and the indices
    around 256 / 512 / 1024, equals the geometric gap; and the ε-F1 of front + a tail design follows."""
    from vopy.utils import get_delta
    from vopy.utils.evaluate import calculate_epsilonF1_score

    mu, fpos = _large_points(case)
    n = len(mu)
    W = np.array(case["W"], dtype=float)
    alpha = np.array(case["alpha"], dtype=float)
    ctx.count("large_n_%d" % n)
    t0 = time.time()
    r = call(get_delta, mu.copy(), W.copy(), alpha.reshape(-1, 1).copy())
    ctx.count("large_get_delta_ms", int(1000 * (time.time() - t0)))
    if r[0] == "exc" or np.shape(r[1]) != (n, 1):
        _viol(ctx, "gap-tail-block", "get_delta raised / returned the wrong shape on a large value set", case,
              detail={"n": n, "code": str(r[1])[:200]})
        return
    d = np.ravel(r[1])
    # all n gaps: every non-front point is dominated by every front point and m(i, ·) is monotone in the cone
    # order, so max_j m(i, j) is attained on the front; integer rows, half-integer values and power-of-two α
    # make this numpy evaluation exact
    Fa = mu[fpos]
    prod = np.clip((Fa[None, :, :] - mu[:, None, :]) @ W.T, 0, None)          # (n, |F|, N)
    expect = (prod / alpha).min(axis=2).max(axis=1, initial=0.0)
    bad = [int(i) for i in np.nonzero(d != expect)[0]]
    # the tail, the block boundaries and a random sample also through the Lean driver (gaps within sample ∪ front
    # equal the gaps in the full set by the same monotonicity argument)
    import random

    rng = random.Random(case["seed"] + 1)
    sample = set(range(max(0, n - 50), n)) | {i for i in (255, 256, 257, 511, 512, 513, 1023, 1024, 1025) if i < n}
    sample |= {rng.randrange(n) for _ in range(20)} | set(fpos)
    sample = sorted(sample)
    dm = core.parse_qvec(ctx.ask("delta", core.qmat(mu[sample]), core.qmat(W), core.qvec(alpha)))
    for pos, i in enumerate(sample):
        if F(expect[i]) != dm[pos]:
            raise RuntimeError(f"large: harness oracle {expect[i]} != Lean gap {dm[pos]} at index {i}")
        if not same_value(d[i], dm[pos], True) and i not in bad:
            bad.append(i)
    if bad:
        bad.sort()
        _viol(ctx, "gap-tail-block", "get_delta on a large value set: some designs' gaps differ from the geometric "
              "gap (largest uniform shift by which some design dominates them)", case,
              detail={"n": n, "n_wrong": len(bad), "first_wrong": bad[:5], "last_wrong": bad[-5:],
                      "code": [float(d[i]) for i in bad[:5]], "gap": [float(expect[i]) for i in bad[:5]]})
    # ε-F1 of "true Pareto set + tail design(s)"
    order = make_order(case["W"], case["alpha"])
    truth = sorted(int(i) for i in order.get_pareto_set(mu.copy()))
    tail = [i for i in (n - 1, n - 2, 256, 512) if 0 <= i < n and i not in truth and expect[i] > 0][:2]
    pred = truth + tail
    pos_of = {i: p for p, i in enumerate(sample)}
    if all(i in pos_of for i in pred):
        gaps = sorted({float(expect[i]) for i in tail})
        # every F1 call runs the O(n²) get_delta again: two ε (below the smallest tail gap / the tie) for small n
        ladder = [gaps[0] / 2] + ([gaps[0]] if n <= 300 else []) if gaps else [0.0]
        for eps in ladder:
            model = ctx.ask("f1", core.qmat(mu[sample]), core.qmat(W), core.qvec(alpha),
                            core.nats(sorted(pos_of[i] for i in truth)), core.nats([pos_of[i] for i in pred]),
                            core.q(eps))
            rf = call(calculate_epsilonF1_score, _DS(mu.copy()), order, list(truth), list(pred), eps)
            ctx.count("large_f1_compared")
            if rf[0] == "exc" or model in ("unknown", "nan") or float(rf[1]) != float(Fr(model)):
                _viol(ctx, "gap-tail-block", "ε-F1 of the true Pareto set plus late-indexed dominated designs of a "
                      "large value set differs from the score built from the geometric gaps", case,
                      detail={"n": n, "eps": eps, "pred_tail": tail, "tail_gaps": [float(expect[i]) for i in tail],
                              "code": str(rf[1]), "model": model})
    ctx.case_done(case, True, canon=[case["W"], case["alpha"], n, case["seed"], case["nfront"]])


# --------------------------------------------------------------------------------------------- translation
def _pick_pred(ps, u, truth, n, worst=None):
    if ps == "true":
        return list(truth)
    if ps == "all":
        return list(range(n))
    if ps == "true+worst":
        return list(truth) + ([worst] if worst is not None and worst not in truth else [])
    return [i for i in range(n) if (u * (i + 2) * 5.1) % 1 < 0.5]


def run_translate(ctx, case):
    """(R) gaps / ε-F1 of a translated value set equal those of the original set bit for bit when every
    subtraction is exact, and equal the model's values for the translated set."""
    from vopy.utils import get_delta, get_smallmij
    from vopy.utils.evaluate import calculate_epsilonF1_score

    W = np.array(case["W"], dtype=float)
    acol = np.array(case["alpha"], dtype=float).reshape(-1, 1)
    mu = np.array(case["mu"], dtype=float)
    tr = translate(case["mu"], case["offset"])
    if tr is None:
        ctx.count("translate_inexact_skipped")
        ctx.case_done(case, False)
        return
    mt = np.array(tr, dtype=float)
    n = len(mu)
    exact = bool(case["exactW"])
    r, rt = call(get_delta, mu.copy(), W, acol), call(get_delta, mt.copy(), W, acol)
    if r[0] == "exc" or rt[0] == "exc":
        _viol(ctx, "delta-crash:" + core.exc_key((r if r[0] == "exc" else rt)[2]), "get_delta raised", case)
        return
    d, dt = np.ravel(r[1]), np.ravel(rt[1])
    detail = {"offset": case["offset"], "original": [float(x) for x in d], "translated": [float(x) for x in dt]}
    if not np.array_equal(d, dt):
        _viol(ctx, "gap-translation-variant", "get_delta of the value set translated by a common offset (all "
              "additions and subtractions exact) differs from get_delta of the original set: the gap depends on "
              "differences v_j − v_i only", case, detail=detail)
    dm = core.parse_qvec(ctx.ask("delta", core.qmat(mt), core.qmat(W), core.qvec(case["alpha"])))
    if any(not same_value(dt[i], dm[i], exact) for i in range(n)):
        _viol(ctx, "delta-value", "get_delta on a value set with a large common offset differs from the geometric "
              "gaps of those values", case, detail={**detail, "model": [str(q) for q in dm]})
    i, j = int(case["pick"] * n) % n, int(case["pick"] * 7919) % n
    a, b = call(get_smallmij, mu[i], mu[j], W, acol), call(get_smallmij, mt[i], mt[j], W, acol)
    if a[0] == "exc" or b[0] == "exc" or float(a[1]) != float(b[1]):
        _viol(ctx, "gap-translation-variant", "get_smallmij changes under a common translation of both vectors", case,
              detail={"offset": case["offset"], "i": i, "j": j, "original": str(a[1]), "translated": str(b[1])})
    order = make_order(case["W"], case["alpha"])
    truth = sorted(int(k) for k in order.get_pareto_set(mu.copy()))
    worst = max(range(n), key=lambda k: dm[k])
    pred = _pick_pred(case["pred_shape"], case["pick"], truth, n, worst)
    missed = sorted(set(truth) - set(pred))
    tab = _pair_table(ctx, tr, case["W"], missed, pred)
    nontrivial = any(q > 0 for q in dm)
    for eps in case["eps"]:
        if not _robust_pairs(tab, eps):
            ctx.count("translate_f1_borderline_skipped")
            continue
        f0 = call(calculate_epsilonF1_score, _DS(mu.copy()), order, list(truth), list(pred), eps)
        f1 = call(calculate_epsilonF1_score, _DS(mt.copy()), order, list(truth), list(pred), eps)
        ctx.count("translate_f1_compared")
        if f0[0] == "exc" or f1[0] == "exc":
            _viol(ctx, "f1-crash:" + core.exc_key((f0 if f0[0] == "exc" else f1)[2]),
                  "calculate_epsilonF1_score raised", case, detail={"eps": eps})
            continue
        v0, v1 = float(f0[1]), float(f1[1])
        if not (v0 == v1 or (v0 != v0 and v1 != v1)):
            _viol(ctx, "gap-translation-variant", "ε-F1 changes under a pure translation of the value set (all "
                  "subtractions exact)", case,
                  detail={"offset": case["offset"], "eps": eps, "pred": pred, "truth": truth, "original": v0,
                          "translated": v1})
        if _gap_robust(dm, pred, F(eps), exact):
            model = ctx.ask("f1", core.qmat(mt), core.qmat(W), core.qvec(case["alpha"]), core.nats(truth),
                            core.nats(pred), core.q(eps))
            if model not in ("unknown",) and not ((v1 != v1) if model == "nan" else v1 == float(Fr(model))):
                _viol(ctx, "f1-value", "calculate_epsilonF1_score on a value set with a large common offset differs "
                      "from the score built from the geometric gaps and ε-coverage", case,
                      detail={"eps": eps, "pred": pred, "truth": truth, "code": v1, "model": model})
    ctx.case_done(case, nontrivial, canon=[case["W"], case["alpha"], case["mu"], case["offset"], case["eps"]])


# --------------------------------------------------------------------------------------------- after use
AFTERUSE_ALGS = ["PaVeBa", "PaVeBaGP-IH", "PaVeBaGP-DE", "PaVeBaPartialGP-rect", "PaVeBaPartialGP-ell", "VOGP",
                 "VOGP_AD", "NaiveElimination", "DecoupledGP", "EpsilonPAL", "Auer"]


def _build_alg(name, order, Y, aeps):
    from harness import stubs

    X = np.linspace(0.0, 1.0, len(Y)).reshape(-1, 1)
    if name == "VOGP_AD":
        pr = stubs.SyntheticContinuousProblem(lambda x: np.stack([x[:, 0], 1.0 - x[:, 0]], axis=1), 1, 2, 0.01,
                                              depth_max=2)
        return stubs.build(name, problem=pr, order=order, epsilon=aeps, model="fixed")
    if name in ("EpsilonPAL", "Auer"):
        return stubs.build(name, in_data=X, out_data=Y, epsilon=aeps)
    return stubs.build(name, in_data=X, out_data=Y, order=order, epsilon=aeps, model="fixed")


def run_afteruse(ctx, case):
    """The typical flow: build order → build algorithm(s) with it → (run) → score with the SAME order."""
    from harness import stubs
    from vopy.utils import get_delta
    from vopy.utils.evaluate import calculate_epsilonF1_score

    mu = np.array(case["mu"], dtype=float)
    n = len(mu)
    order = make_order(case["W"], case["alpha"])
    order.ordering_cone.beta = 2.0  # NaiveElimination reads the cone's ordering complexity (ConeTheta2D.beta)
    W_ref, a_ref = order.ordering_cone.W.copy(), order.ordering_cone.alpha.copy()
    W_obj, a_obj = order.ordering_cone.W, order.ordering_cone.alpha
    for name, aeps in case["algs"]:
        ctx.count("afteruse_alg_" + name)
        with warnings.catch_warnings():
            warnings.simplefilter("ignore")
            try:
                alg = _build_alg(name, order, mu.copy(), aeps)
            except Exception as e:  # noqa: BLE001  (constructors are other properties' business)
                ctx.count("afteruse_build_failed_%s_%s_info" % (name, type(e).__name__))
                alg = None
            own = None
            if alg is not None and name in ("EpsilonPAL", "Auer"):
                own = (alg.order.ordering_cone, alg.order.ordering_cone.W.copy(), alg.order.ordering_cone.alpha.copy())
            if alg is not None and case["step"]:
                try:
                    with stubs.seeded_noise(case["seed"]):
                        alg.run_one_step()
                    ctx.count("afteruse_step_ok")
                except Exception as e:  # noqa: BLE001
                    ctx.count("afteruse_step_failed_%s_%s_info" % (name, type(e).__name__))
        oc = order.ordering_cone
        if not (np.array_equal(oc.W, W_ref) and np.array_equal(np.ravel(oc.alpha), np.ravel(a_ref))
                and np.shape(oc.alpha) == np.shape(a_ref) and np.array_equal(W_obj, W_ref)
                and np.array_equal(a_obj, a_ref)):
            _viol(ctx, "order-mutated-by-algorithm", "constructing / stepping an algorithm changed the W or α of the "
                  "order object it was given (the same object is later used for gaps and ε-F1)", case,
                  detail={"algorithm": name, "epsilon": aeps, "alpha_before": [float(a) for a in np.ravel(a_ref)],
                          "alpha_after": [float(a) for a in np.ravel(oc.alpha)],
                          "W_changed": not np.array_equal(oc.W, W_ref)})
        if own is not None and not (np.array_equal(own[0].W, own[1]) and np.array_equal(own[0].alpha, own[2])
                                    and np.allclose(own[2], 1.0, atol=1e-6)):
            _viol(ctx, "order-mutated-by-algorithm", "the algorithm's own componentwise order changed during a step "
                  "(or its α is not 1)", case, detail={"algorithm": name, "alpha": [float(a) for a in np.ravel(own[0].alpha)]})
    # ---- the usual gap / F1 checks with the USED order object, against the α recorded before use
    oc = order.ordering_cone
    exact = bool(case["exactW"]) and on_lattice(case["mu"])
    margs = (core.qmat(mu), core.qmat(W_ref), core.qvec(np.ravel(a_ref)))
    dm = core.parse_qvec(ctx.ask("delta", *margs))
    r = call(get_delta, mu.copy(), oc.W, oc.alpha)
    if r[0] == "exc" or np.shape(r[1]) != (n, 1) or any(
            not same_value(np.ravel(r[1])[i], dm[i], exact) for i in range(n)):
        _viol(ctx, "gap-after-use", "get_delta(mu, cone.W, cone.alpha) with an order object that has been handed to "
              "algorithm constructors differs from the geometric gaps of that cone", case,
              detail={"algs": case["algs"], "code": str(np.ravel(r[1]) if r[0] == "ok" else r[1])[:300],
                      "model": [float(q) for q in dm]})
    truth = sorted(int(k) for k in order.get_pareto_set(mu.copy()))
    pred = _pick_pred(case["pred_shape"], case["pick"], truth, n)
    if case.get("pred") is not None:
        pred = list(case["pred"])
    tab = _pair_table(ctx, case["mu"], case["W"], sorted(set(truth) - set(pred)), pred)
    for eps in case["eps"]:
        if not (_robust_pairs(tab, eps) and _gap_robust(dm, pred, F(eps), exact)):
            ctx.count("afteruse_f1_borderline_skipped")
            continue
        model = ctx.ask("f1", *margs, core.nats(truth), core.nats(pred), core.q(eps))
        if model == "unknown":
            continue
        rf = call(calculate_epsilonF1_score, _DS(mu.copy()), order, list(truth), list(pred), eps)
        ctx.count("afteruse_f1_compared")
        if rf[0] == "exc" or not ((float(rf[1]) != float(rf[1])) if model == "nan" else float(rf[1]) == float(Fr(model))):
            _viol(ctx, "f1-after-use", "calculate_epsilonF1_score with an order object that has been handed to "
                  "algorithm constructors differs from the score built from the geometric gaps and ε-coverage", case,
                  detail={"algs": case["algs"], "eps": eps, "pred": pred, "truth": truth, "code": str(rf[1]),
                          "model": model})
    ctx.case_done(case, any(q > 0 for q in dm), canon=[case["W"], case["mu"], case["algs"], case["eps"]])


# --------------------------------------------------------------------------------------------- end-user path
_real_cones: dict = {}


def _real_cone(W):
    """OrderingCone built by the real constructor (α from the code's own get_alpha_vec), cached per W"""
    from vopy.ordering_cone import OrderingCone

    key = tuple(tuple(r) for r in W)
    if key not in _real_cones:
        with warnings.catch_warnings():
            warnings.simplefilter("ignore")
            _real_cones[key] = OrderingCone(np.array(W, dtype=float))
    return _real_cones[key]


def alpha_closed_form(W):
    """α_n = max{w_n·u | W u ≥ 0, ‖u‖ ≤ 1} where it is known in closed form, else None:
    ‖w_n‖ when w_n ∈ C (any cone); for a 2×2 cone otherwise the better of the two extreme rays."""
    W = [[float(x) for x in r] for r in W]
    out = []
    for n, w in enumerate(W):
        if all(sum(a * b for a, b in zip(v, w)) >= 0 for v in W):
            out.append(math.sqrt(sum(x * x for x in w)))
        elif len(W) == 2 and len(w) == 2:
            rays = []
            for k in (0, 1):
                o = W[1 - k]
                r = [-o[1], o[0]]
                if sum(a * b for a, b in zip(W[k], r)) < 0:
                    r = [-r[0], -r[1]]
                rays.append(r)
            out.append(max(sum(a * b for a, b in zip(w, r)) / math.hypot(*r) for r in rays))
        else:
            return None
    return out


def run_enduser(ctx, case):
    """get_delta / calculate_epsilonF1_score exactly as a user calls them: real OrderingCone, its own α."""
    from vopy.order import PolyhedralConeOrder
    from vopy.utils import get_delta
    from vopy.utils.evaluate import calculate_epsilonF1_score

    W0 = case["W0"]
    W = [[c * x for x in r] for c, r in zip(case["scale"], W0)]
    mu = np.array(case["mu"], dtype=float)
    n = len(mu)
    try:
        oc, oc0 = _real_cone(W), _real_cone(W0)
    except Exception as e:  # noqa: BLE001
        _viol(ctx, "enduser-cone-crash:" + core.exc_key(e), "OrderingCone constructor raised", case)
        return
    r, r0 = call(get_delta, mu.copy(), oc.W, oc.alpha), call(get_delta, mu.copy(), oc0.W, oc0.alpha)
    if r[0] == "exc" or r0[0] == "exc":
        _viol(ctx, "delta-crash:" + core.exc_key((r if r[0] == "exc" else r0)[2]), "get_delta raised", case)
        return
    d, d0 = np.ravel(r[1]), np.ravel(r0[1])
    tol = lambda a, b: abs(a - b) <= 1e-7 * max(1.0, abs(a), abs(b))  # noqa: E731
    # a gap that is 0 in exact arithmetic is 0 in floats only if the products are exact: rows on the quarter
    # lattice and values on the dyadic lattice (a "facet" value set of a float-W cone has products at 1e-17)
    Wn = np.array(W, dtype=float)
    exact = bool(np.all(Wn * 4 == np.round(Wn * 4)) and np.all(mu * 64 == np.round(mu * 64))
                 and np.all(np.abs(mu) <= 1024))
    # (R) the geometric gap does not change when the rows of W are rescaled by positive numbers
    if any(not tol(float(d[i]), float(d0[i])) for i in range(n)):
        _viol(ctx, "gap-not-scale-invariant",
              "get_delta(mu, cone.W, cone.alpha) with the real OrderingCone(diag(c)·W0) differs from the one with "
              "OrderingCone(W0): the gap is a property of the cone, not of the scaling of its facet normals",
              case, detail={"scaled": [float(x) for x in d], "base": [float(x) for x in d0],
                            "alpha_scaled": [float(a) for a in np.ravel(oc.alpha)],
                            "alpha_base": [float(a) for a in np.ravel(oc0.alpha)]})
    # (R) against the model with an independently known α
    at = alpha_closed_form(W)
    ctx.count("enduser_alpha_" + ("closed_form" if at else "scale_only"))
    order = PolyhedralConeOrder(oc)
    truth = sorted(int(i) for i in order.get_pareto_set(mu.copy()))
    ps, u = case["pred_shape"], case["pick"]
    if ps == "true":
        pred = list(truth)
    elif ps == "all":
        pred = list(range(n))
    elif ps == "subset":
        pred = [i for k, i in enumerate(truth) if (u * (k + 2) * 7.3) % 1 < 0.6]
    else:
        pred = [i for i in range(n) if (u * (i + 2) * 5.1) % 1 < 0.5]
    nontrivial = False
    if at is not None:
        margs = (core.qmat(mu), core.qmat(W), core.qvec(at))
        dm = core.parse_qvec(ctx.ask("delta", *margs))
        if any(not tol(float(d[i]), float(dm[i])) for i in range(n)):
            _viol(ctx, "gap-real-alpha",
                  "get_delta with the cone's own α (OrderingCone.alpha) differs from the geometric gap "
                  "min_n relu(w_n·d)/α_n with α_n = max{w_n·u | u ∈ C, ‖u‖ ≤ 1} known in closed form", case,
                  detail={"code": [float(x) for x in d], "model": [float(q) for q in dm],
                          "alpha_code": [float(a) for a in np.ravel(oc.alpha)], "alpha_true": at})
        nontrivial = any(q > 0 for q in dm)
        missed = sorted(set(truth) - set(pred))
        tab = _pair_table(ctx, case["mu"], W, missed, pred)
        for eps in case["eps"]:
            gap_ok = all((exact and dm[k] == 0) or abs(dm[k] - F(eps)) > Fr(1, 10 ** 6) * max(1, F(eps))
                         for k in set(pred))
            if not (_robust_pairs(tab, eps) and gap_ok):
                ctx.count("enduser_f1_borderline_skipped")
                continue
            model = ctx.ask("f1", *margs, core.nats(truth), core.nats(pred), core.q(eps))
            if model == "unknown":
                continue
            rf = call(calculate_epsilonF1_score, _DS(mu.copy()), order, list(truth), list(pred), eps)
            ctx.count("enduser_f1_compared")
            if rf[0] == "exc":
                _viol(ctx, "f1-crash:" + core.exc_key(rf[2]), "calculate_epsilonF1_score raised", case)
                continue
            val = float(rf[1])
            ok = (val != val) if model == "nan" else (val == val and val == float(Fr(model)))
            if not ok:
                _viol(ctx, "f1-real-alpha", "calculate_epsilonF1_score with the real OrderingCone (its own α) differs "
                      "from the score built from the geometric gaps and ε-coverage", case,
                      detail={"eps": eps, "pred": pred, "truth": truth, "code": val, "model": model})
            if truth and sorted(pred) == truth and val != 1.0:
                _viol(ctx, "f1-true-set", "ε-F1 of the true Pareto set is not 1", case,
                      detail={"eps": eps, "code": val})
    else:
        # no closed form: the score, too, must not depend on the row scaling
        order0 = PolyhedralConeOrder(oc0)
        for eps in case["eps"]:
            if any(abs(float(d0[k]) - eps) <= 1e-6 * max(1.0, eps) and not (exact and d0[k] == 0)
                   for k in set(pred)):
                continue
            missed = sorted(set(truth) - set(pred))
            tab = _pair_table(ctx, case["mu"], W0, missed, pred)
            if not _robust_pairs(tab, eps):
                continue
            a, b = (call(calculate_epsilonF1_score, _DS(mu.copy()), o, list(truth), list(pred), eps)
                    for o in (order, order0))
            ctx.count("enduser_f1_scale_compared")
            if a[0] == "exc" or b[0] == "exc" or not (float(a[1]) == float(b[1]) or
                                                      (a[1] != a[1] and b[1] != b[1])):
                _viol(ctx, "gap-not-scale-invariant", "ε-F1 with OrderingCone(diag(c)·W0) differs from ε-F1 with "
                      "OrderingCone(W0)", case, detail={"eps": eps, "scaled": str(a[1]), "base": str(b[1])})
        nontrivial = any(x > 0 for x in d0)
    ctx.case_done(case, nontrivial, canon=[W0, case["scale"], case["mu"], case["eps"], ps])


# --------------------------------------------------------------------------------------------- history
def _layout(base, how):
    """the same values handed over in another dtype / memory layout"""
    n, m = base.shape
    if how == "same":
        return base
    if how == "f32":
        a = base.astype(np.float32)
        if np.array_equal(a.astype(np.float64), base):
            return a
        how = "copy"
    if how == "fortran":
        return np.asfortranarray(base)
    if how == "view":
        big = np.full((2 * n + 1, m + 2), 7.25)
        big[1::2, 1:m + 1] = base
        return big[1::2, 1:m + 1]
    return base.copy()


def run_history(ctx, case):
    """One value set, one process, a sequence of calls with different cones / ε / predictions / layouts:
    every answer must equal the model's answer for that call's own arguments."""
    from vopy.utils import get_delta, get_smallmij, is_covered
    from vopy.utils.evaluate import calculate_epsilonF1_score

    base = np.array(case["mu"], dtype=float)
    ref = base.copy()
    n = len(base)
    cones = case["cones"]
    orders = [make_order(c["W"], c["alpha"]) for c in cones]
    qmu = core.qmat(base)
    deltas, tabs = {}, {}
    ctx.count("history_mode_" + case["mode"])

    def delta_of(c):
        if c not in deltas:
            a = ctx.ask("delta", qmu, core.qmat(cones[c]["W"]), core.qvec(cones[c]["alpha"]))
            deltas[c] = core.parse_qvec(a)
        return deltas[c]

    def d2_of(c, i, j):
        if (c, i, j) not in tabs:
            tabs[(c, i, j)] = ask_dist2(ctx, case["mu"][i], case["mu"][j], cones[c]["W"])
        return tabs[(c, i, j)]

    # `==` comparisons need exact products: integer rows AND dyadic-lattice values (a "facet"-shaped value
    # set built from a float-W cone is not on the lattice)
    lattice = bool(np.all(base * 64 == np.round(base * 64)) and np.all(np.abs(base) <= 1024))
    exact_of = [bool(c["exactW"]) and lattice for c in cones]
    seen = {}      # identical call -> first answer
    series = {}    # (cone, pred) -> [(eps, value)]
    nontrivial = False
    for k, st in enumerate(case["steps"]):
        c = st["c"]
        cone, order = cones[c], orders[c]
        W = np.array(cone["W"], dtype=float)
        acol = np.array(cone["alpha"], dtype=float).reshape(-1, 1)
        arr = _layout(base, st["layout"])
        ctx.count("history_step_" + st["op"])
        ctx.count("history_layout_" + st["layout"])
        where = {"step": k, "op": st["op"], "cone": cone["name"], "layout": st["layout"],
                 "cones_before": [cones[t["c"]]["name"] for t in case["steps"][:k]][-6:]}
        if st["op"] == "f1":
            truth, pred, eps = cone["truth"], st["pred"], st["eps"]
            ds = delta_of(c)
            missed = sorted(set(truth) - set(pred))
            pairs = [d2_of(c, i, j) for i in missed for j in set(pred)]
            robust = (all(d is not None and cover_band(d, F(eps), NEAR) is not None for d in pairs)
                      and _gap_robust(ds, pred, F(eps), exact_of[c]))
            if not robust:
                ctx.count("history_f1_borderline_skipped")
                continue
            model = ctx.ask("f1", qmu, core.qmat(cone["W"]), core.qvec(cone["alpha"]), core.nats(truth),
                            core.nats(pred), core.q(eps))
            if model == "unknown":
                ctx.count("history_inconclusive")
                continue
            r = call(calculate_epsilonF1_score, _DS(arr), order, list(truth), list(pred), eps)
            if r[0] == "exc":
                _viol(ctx, "f1-history", "calculate_epsilonF1_score raised in a sequence of calls on one value set",
                      case, detail={**where, "exc": r[1]})
                continue
            val = float(r[1])
            ctx.count("history_f1_compared")
            ok = (val != val) if model == "nan" else (val == val and val == float(Fr(model)))
            if not ok:
                _viol(ctx, "f1-history", "calculate_epsilonF1_score differs from the score of THIS call's cone / "
                      "ε / prediction (geometric gaps + ε-coverage): the result depends on earlier calls or on "
                      "the dtype / memory layout of out_data", case,
                      detail={**where, "eps": eps, "pred": pred, "code": val, "model": model})
            if val == val and not (0.0 <= val <= 1.0):
                _viol(ctx, "f1-history", "ε-F1 outside [0,1] in a sequence of calls", case, detail={**where, "code": val})
            if truth and sorted(pred) == sorted(truth) and eps >= 0 and val != 1.0:
                _viol(ctx, "f1-history", "ε-F1 of the true Pareto set of the cone in use is not 1 (in a sequence of "
                      "calls on one value set under several cones)", case, detail={**where, "eps": eps, "code": val})
            key = ("f1", c, tuple(pred), eps)
            if key in seen and not (seen[key] == val or (seen[key] != seen[key] and val != val)):
                _viol(ctx, "f1-history", "the same call gives different scores at two points of the history", case,
                      detail={**where, "first": seen[key], "now": val})
            seen.setdefault(key, val)
            series.setdefault((c, tuple(pred)), []).append((eps, val))
            if model not in ("nan", "0", "1"):
                nontrivial = True
        elif st["op"] == "delta":
            r = call(get_delta, arr, W, acol)
            ds = delta_of(c)
            if r[0] == "exc" or np.shape(r[1]) != (n, 1) or any(
                    not same_value(np.ravel(r[1])[i], ds[i], exact_of[c]) for i in range(n)):
                _viol(ctx, "gap-history", "get_delta in a sequence of calls differs from the gaps of this call's "
                      "cone (or depends on dtype / layout)", case,
                      detail={**where, "code": str(r[1] if r[0] == "ok" else r[1])[:200], "model": [str(q) for q in ds]})
        elif st["op"] == "smallm":
            i, j = st["i"], st["j"]
            r = call(get_smallmij, arr[i, :], arr[j, :], W, acol)
            model = ctx.ask("smallm", core.qvec(base[i]), core.qvec(base[j]), core.qmat(cone["W"]),
                            core.qvec(cone["alpha"]))
            if r[0] == "exc" or not same_value(r[1], Fr(model), exact_of[c]):
                _viol(ctx, "gap-history", "get_smallmij in a sequence of calls differs from the gap formula for "
                      "this call's arguments", case, detail={**where, "code": str(r[1]), "model": model})
        else:
            i, j, eps = st["i"], st["j"], st["eps"]
            d2 = d2_of(c, i, j)
            band = None if d2 is None else cover_band(d2, F(eps), NEAR)
            if band is None:
                ctx.count("history_cover_borderline")
            else:
                r = call(is_covered, arr[i, :], arr[j, :], eps, W)
                if r[0] == "exc" or bool(r[1]) != band:
                    _viol(ctx, "cover-history", "is_covered in a sequence of calls differs from the exact verdict "
                          "for this call's arguments", case,
                          detail={**where, "eps": eps, "code": str(r[1]), "dist2": str(d2)})
        if not np.array_equal(base, ref):
            _viol(ctx, "history-mutates-input", "a call changed the caller's value array", case, detail=where)
            base[...] = ref
    for (c, pred), vals in series.items():
        vals = sorted(set(v for v in vals if v[1] == v[1]))
        for (e1, v1), (e2, v2) in zip(vals, vals[1:]):
            ctx.count("history_monotone_checked")
            if e1 < e2 and v1 > v2:
                _viol(ctx, "f1-history", "ε-F1 decreases as ε grows within a history", case,
                      detail={"cone": cones[c]["name"], "pred": list(pred), "eps": [e1, e2], "values": [v1, v2]})
    distinct_truth = len({tuple(c["truth"]) for c in cones}) > 1
    ctx.count("history_pareto_sets_differ" if distinct_truth else "history_pareto_sets_equal")
    ctx.case_done(case, nontrivial or distinct_truth, canon=[case["mu"], [c["name"] for c in cones], case["steps"]])


# --------------------------------------------------------------------------------------------- hypervolume
def exact_hv(pts, ref):
    """volume of ⋃_p [ref, p] (Fractions), by the grid of all coordinates"""
    m = len(ref)
    pts = [p for p in pts if all(p[k] >= ref[k] for k in range(m))]
    if not pts:
        return Fr(0)
    axes = [sorted({ref[k]} | {p[k] for p in pts}) for k in range(m)]
    total = Fr(0)

    def rec(k, upper, vol):
        nonlocal total
        if vol == 0:
            return
        if k == m:
            if any(all(p[t] >= upper[t] for t in range(m)) for p in pts):
                total += vol
            return
        ax = axes[k]
        for a, b in zip(ax, ax[1:]):
            rec(k + 1, upper + [b], vol * (b - a))

    rec(0, [], Fr(1))
    return total


def _botorch():
    with warnings.catch_warnings():
        warnings.simplefilter("ignore")
        import torch
        from botorch.utils.multi_objective.hypervolume import Hypervolume
    return torch, Hypervolume


def run_hv(ctx, case):
    torch, Hypervolume = _botorch()
    W = np.array(case["W"], dtype=float)
    f = np.array(case["f"], dtype=float)
    order = make_order(case["W"], [1.0] * len(W))
    f_W = f @ W.T
    ref = np.min(f_W, axis=0)
    true_idx = [int(i) for i in order.get_pareto_set(f)]
    sub = case["subset"]
    pred_idx = [sub[int(i)] for i in order.get_pareto_set(f[sub])] if sub else []
    hv = Hypervolume(torch.tensor(ref))
    r1 = call(lambda: float(hv.compute(torch.tensor(f_W[true_idx, :]))))
    r2 = call(lambda: float(hv.compute(torch.tensor(f_W[pred_idx, :]))))
    if r1[0] == "exc" or r2[0] == "exc":
        _viol(ctx, "hv-crash", "botorch Hypervolume raised", case, detail={"true": str(r1), "pred": str(r2)})
        return
    ht, hp = r1[1], r2[1]
    fw = [[F(x) for x in row] for row in f_W]
    fref = [F(x) for x in ref]
    e_all = exact_hv(fw, fref)
    e_true = exact_hv([fw[i] for i in true_idx], fref)
    e_sub = exact_hv([fw[i] for i in sub], fref)
    e_pred = exact_hv([fw[i] for i in pred_idx], fref)
    scale = max(1.0, float(e_all))
    if ht < hp - 1e-9 * scale:
        _viol(ctx, "hv-order", "hypervolume of the true front smaller than that of a predicted subset's front",
                      case, detail={"true": ht, "pred": hp})
    if e_true != e_all or e_pred != e_sub or e_pred > e_true:
        _viol(ctx, "hv-exact", "exact union-of-boxes volume: HV(front(S)) ≠ HV(S) or not monotone", case,
                      detail={"all": str(e_all), "true": str(e_true), "sub": str(e_sub), "pred": str(e_pred)})
    if abs(ht - float(e_true)) > 1e-9 * scale or abs(hp - float(e_pred)) > 1e-9 * scale:
        _viol(ctx, "hv-botorch", "botorch Hypervolume differs from the exact union-of-boxes volume", case,
                      kind="F", detail={"botorch": [ht, hp], "exact": [str(e_true), str(e_pred)]})
    ctx.count("hv_strict" if e_pred < e_true else "hv_equal")
    ctx.case_done(case, 0 < e_pred < e_true, canon=[case["W"], case["f"], sub])


class _StubProblem:
    def __init__(self, coef, in_dim=2):
        self.in_dim, self.out_dim, self.c = in_dim, 2, coef

    def evaluate(self, x, noisy=False):
        c = self.c
        x0, x1 = x[:, 0], x[:, 1]
        return np.stack([c[0] * x0 + c[1] * x1 - (x0 - 0.5) ** 2 * c[2],
                         c[3] * x0 + c[4] * x1 - (x1 - 0.5) ** 2 * c[5]], axis=1)


class _StubModel:
    def __init__(self, problem, mode, shift):
        self.p, self.mode, self.s = problem, mode, shift

    def predict(self, x):
        f = self.p.evaluate(x)
        if self.mode == "exact":
            y = f.copy()
        elif self.mode == "shift":
            y = f + np.array(self.s[:2])
        elif self.mode == "swap":
            y = f[:, ::-1].copy()
        else:
            y = f + np.sin(37.0 * x[:, :1] * self.s[2] + 11.0 * x[:, 1:2]) * np.array(self.s[:2])
        return y, np.zeros_like(y)


def run_hvmodel(ctx, case):
    torch, Hypervolume = _botorch()
    from vopy.utils import generate_sobol_samples
    from vopy.utils.evaluate import calculate_hypervolume_discrepancy_for_model

    W = np.array(case["W"], dtype=float)
    order = make_order(case["W"], [1.0] * len(W))
    prob = _StubProblem(case["coef"])
    model = _StubModel(prob, case["model"], case["shift"])
    ctx.count("hvmodel_" + case["model"])
    state = np.random.get_state()
    import vopy.utils.evaluate as _ev
    recorded = []

    class _RecordingHV(Hypervolume):
        def compute(self, pts):
            v = super().compute(pts)
            recorded.append(float(v))
            return v

    _orig_hv = _ev.Hypervolume
    try:
        _ev.Hypervolume = _RecordingHV
        np.random.seed(case["seed"])
        r = call(calculate_hypervolume_discrepancy_for_model, order, prob, model)
        np.random.seed(case["seed"])
        x = generate_sobol_samples(prob.in_dim, 2048)
    finally:
        _ev.Hypervolume = _orig_hv
        np.random.set_state(state)
    # (R) on what the function itself computed: first the true front's hypervolume, then the predicted
    # front's — "the hypervolume of the true front is never smaller than that of any predicted subset".
    if len(recorded) >= 2 and recorded[0] < recorded[1] - 1e-9 * max(1.0, abs(recorded[0])):
        _viol(ctx, "hv-order-in-function", "calculate_hypervolume_discrepancy_for_model measured a true-front "
              "hypervolume smaller than the predicted front's (same sample, same reference point)", case,
              detail={"hv_true": recorded[0], "hv_pred": recorded[1]})
    f = prob.evaluate(x)
    ti = order.get_pareto_set(f)
    y, _ = model.predict(x)
    pi = order.get_pareto_set(y)
    f_W = f @ W.T
    hv = Hypervolume(torch.tensor(np.min(f_W, axis=0)))
    ht, hp = float(hv.compute(torch.tensor(f_W[ti]))), float(hv.compute(torch.tensor(f_W[pi])))
    scale = max(1.0, abs(ht))
    if ht < hp - 1e-9 * scale:
        _viol(ctx, "hv-order", "hypervolume of the true front smaller than that of the predicted front "
                      "(2048 Sobol points)", case, detail={"true": ht, "pred": hp})
    if ht - hp <= 1e-4:
        if not (r[0] == "exc" and r[1] == "AssertionError"):
            _viol(ctx, "hvmodel-output", "equal hypervolumes not reported through AssertionError", case,
                          kind="F", detail={"code": str(r[:2]), "diff": ht - hp})
        ctx.count("hvmodel_equal")
    else:
        if r[0] != "ok" or abs(float(r[1]) - math.log(ht - hp)) > 1e-9 * max(1.0, abs(math.log(ht - hp))):
            _viol(ctx, "hvmodel-output", "returned value is not log(HV_true − HV_pred) of the same sample", case,
                          kind="F", detail={"code": str(r[:2]), "expected": math.log(ht - hp)})
        ctx.count("hvmodel_strict")
    ctx.case_done(case, ht - hp > 1e-4, canon=case)
