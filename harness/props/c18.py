"""C18 — adaptive discretisation tiles the domain; VOGP_AD declares only finest leaves.

Three families of cases, all against the Lean model `VOPy.Adaptive` (driver ops `space`, `algo`):

* ``space``  real `AdaptivelyDiscretizedDesignSpace` under a random sequence of direct
  `refine_design(i)` calls, guarded `should_refine_design → refine_design` calls (comparison result
  forced through a stub GP model with zero / huge predictive std) and region updates;
* ``run``    real `VOGP_AD` built by its real constructor (the slow train-and-freeze helper replaced
  in the algorithm module's namespace by a fast factory: a real `CorrelatedExactGPyTorchModel` with
  fixed hyper-parameters, or a scripted `GPModel`), observed phase by phase after every
  `run_one_step()`;
* ``phase``  one real phase (`discarding` / `epsiloncovering` / `evaluate_refine`) on a hand-built,
  possibly unreachable state (arbitrary S, P, latch, `max_discretization_depth`), to reach branches a
  run never takes (a member of P below the maximum depth being refined, depths above the maximum).

(R) verdicts are evaluated on the real arrays with exact rationals: array consistency, 2^d children
with half side / centre point / depth+1 / parent's region, leaves tile [0,1]^d (inside the cube,
pairwise interior-disjoint, volume sum exactly 1 — for finitely many closed boxes inside the cube
that is equivalent to covering it), S ∪ P are leaves and disjoint, every leaf is active or was removed
by discarding() and discarded designs stay inactive, a refined node is replaced by its children in
the same set, depth ≤ max depth under guarded refinement, members of P at maximum depth.
(F): every array, S, P, latch, counters, leaf set, discarded set equal the model replay
(`Algo.run` / `Space.runOps` on the observed operation sequence).

Extension (Model/AdaptiveVh.lean; driver ops `vh`, `refine`, `adbeta`): the `RealLike` terms of
`calculate_design_vh`, `should_refine_design` and `VOGP_AD.compute_beta` evaluated at `Float` are compared
(F, relative 1e-9) with the real functions — at every `should_refine_design` call of the space and run
families, at every `compute_beta` call of the run family, and in two direct families ``vh`` (real
`AdaptivelyDiscretizedDesignSpace` at a chosen depth, scripted per-objective lengthscales / variances /
posterior variances / scales, depth offsets −1, 0, 1) and ``beta`` (real `compute_beta` on a scripted kernel
matrix).  The Boolean answer of `should_refine_design` is compared with the model's decision unless some
`scale_j·‖std‖` is within a relative 1e-9 of `‖Vh‖` (borderline: counted, not compared).  The real GP is only
asked where it reports at least `objective_dim` lengthscales (otherwise `calculate_design_vh` raises — the known
finding D8, C06's verdict).

A crash of the real code inside a run ends the observation of that run and is recorded as
`run_crash_info:<exception>@<frame>` (crash-freedom is C06's verdict, not C18's).
"""
from fractions import Fraction
from itertools import product as _product

import numpy as np

from harness import core
from harness.props import c18_vh as _vh   # RealLike terms: Vh / refinement decision / beta (extension)
from harness.props import c18_deep as _deep   # deep refinement chains, scripted rounds (extension)
from harness.props import c18_iso as _iso     # read-only methods mutate nothing; two live instances (extension)

TITLE = "Adaptive discretisation / VOGP_AD set surgery vs Lean model"
RULE = ("space: (d in 1..3, max depth <= 6, op sequence of direct/guarded refinements of random leaves and "
        "region updates); run: (problem [BraninCurrin | dyadic quadratic, in_dim 1..3], model kind, cone, eps, "
        "contraction, depth_max, seed) observed after every run_one_step up to a round cap; phase: (tree, S, P, "
        "latch, alg max depth, one phase with scripted geometry verdicts), including a structured 'gate' family: "
        "reachable states with depth_max 4/5 where only the oldest / newest / a majority / min+max index / one "
        "member of S is at maximum depth and nothing is covered; vh: (d 1..3, m 2..4, delta, depth 1..7, max depth, "
        "offset, per-objective lengthscale/variance [large Cki | small Cki (term4 active) | mixed], posterior "
        "variances, scale [scalar | vector | placed at the decision boundary | far]); beta: (noise_var, delta, "
        "contraction, kernel matrix [rbf gram | random psd | identity | tiny], size 1..8). Non-trivial = at least two "
        "refinements happened (space/run) or the phase changed S, P, the latch or the tree; distinct by the "
        "whole case dict")
ASSUMPTIONS = [
    "cell ends, centres and the scripted regions are dyadic rationals, so the float path is exact and "
    "all comparisons are equalities",
    "the GP posterior and the geometry predicates are not modelled here: their verdicts (which nodes are "
    "discarded / not covered, which candidate is chosen, the Vh-vs-std comparison) are observed on the real "
    "run and passed to the model as inputs; the depth gate, the latch and all set surgery are computed by "
    "the model",
    "extension (c18_vh.py): the Vh-vs-std comparison itself is additionally compared with the RealLike term of "
    "Model/AdaptiveVh.lean at Float (1e-9 relative; Boolean answer outside that band; exact on the code's own "
    "operands); the kernel hyper-parameters, the posterior variances and det(Kn + I) are inputs taken from the "
    "real model; Float rounding is not modelled",
]
MAX_JOBS = 14

DELTA = 0.05


# ------------------------------------------------------------------------------------------ stubs
def _gp_base():
    from vopy.models.model import GPModel
    return GPModel


_stub_cls = {}


def scripted_gp_class():
    """A scripted `GPModel`: mean = a given function, std = s0 * decay**(number of samples),
    or a forced std (phase / space cases)."""
    if "c" in _stub_cls:
        return _stub_cls["c"]
    GPModel = _gp_base()

    class ScriptedGP(GPModel):
        def __init__(self, in_dim, out_dim, f=None, s0=1.0, decay=0.5, ls=0.5, var=1.0):
            super().__init__()
            self.in_dim, self.out_dim = in_dim, out_dim
            self.f = f
            self.s0, self.decay = s0, decay
            self.ls, self.var = ls, var
            self.n = 0
            self.forced_std = None
            self.forced_mean = None
            self.forced_stds = None

        def add_sample(self, X_t, Y_t):
            self.n += len(X_t)

        def update(self):
            pass

        def train(self):
            pass

        def predict(self, test_X):
            X = np.asarray(test_X, dtype=float)[:, : self.in_dim]
            k = len(X)
            if self.forced_mean is not None:
                mean = np.tile(np.asarray(self.forced_mean, dtype=float), (k, 1))
            elif self.f is not None:
                mean = self.f(X)
            else:
                mean = np.zeros((k, self.out_dim))
            if self.forced_stds is not None:
                sd = np.asarray(self.forced_stds, dtype=float)
            else:
                s = self.forced_std if self.forced_std is not None else self.s0 * self.decay ** self.n
                sd = np.full(self.out_dim, float(s))
            cov = np.tile(np.diag(sd ** 2), (k, 1, 1))
            return mean, cov

        def evaluate_kernel(self, X=None):
            return np.eye(max(1, self.n))

        def get_lengthscale_and_var(self):
            return np.full(self.out_dim, self.ls), np.full(self.out_dim, self.var)

        def get_kernel_type(self):
            return "RBF"

    _stub_cls["c"] = ScriptedGP
    return ScriptedGP


def quad_problem(spec):
    """ContinuousProblem subclass instance: f_j(x) = C_j - sum_k A_jk (x_k - T_jk)^2 (dyadic data)."""
    from vopy.maximization_problem import ContinuousProblem

    A = np.array(spec["A"], dtype=float)
    T = np.array(spec["T"], dtype=float)
    C = np.array(spec["C"], dtype=float)

    class Quad(ContinuousProblem):
        def __init__(self, noise_var):
            self.in_dim = A.shape[1]
            self.out_dim = A.shape[0]
            self.depth_max = spec["depth_max"]
            super().__init__(noise_var)

        def evaluate_true(self, x):
            x = np.asarray(x, dtype=float)
            return np.stack([C[j] - ((x - T[j]) ** 2 * A[j]).sum(axis=1) for j in range(len(C))], axis=1)

    return Quad(spec["noise_var"])


def make_problem(spec):
    if spec["name"] == "BraninCurrin":
        from vopy.maximization_problem import BraninCurrin

        p = BraninCurrin(spec["noise_var"])
        p.depth_max = spec["depth_max"]  # instance override of the class default (5)
        return p
    return quad_problem(spec)


def make_order(name):
    from vopy.order import ComponentwiseOrder, ConeOrder3D, ConeTheta2DOrder

    kind, arg = name.split(":")
    if kind == "comp":
        return ComponentwiseOrder(int(arg))
    if kind == "theta":
        return ConeTheta2DOrder(float(arg))
    if kind == "cone3":
        return ConeOrder3D(arg)
    raise ValueError(name)


def model_factory(mspec, true_f):
    """Replacement for `get_gpytorch_model_w_known_hyperparams` in vopy.algorithms.vogp_ad."""

    def factory(model_class, problem, noise_var, initial_sample_cnt, X=None, Y=None):
        if mspec["kind"] == "stub":
            return scripted_gp_class()(problem.in_dim, problem.out_dim, f=true_f(problem), s0=mspec["s0"],
                                       decay=mspec["decay"], ls=mspec["ls"], var=mspec["var"])
        import torch

        in_dim, out_dim = problem.in_dim, problem.out_dim
        model = model_class(in_dim, out_dim, noise_var=noise_var)
        x0 = np.random.rand(max(1, initial_sample_cnt), in_dim)
        model.add_sample(x0, problem.evaluate(x0))
        model.update()
        gp = model.model
        with torch.no_grad():
            gp.covar_module.data_covar_module.lengthscale = torch.full((1, in_dim), float(mspec["ls"]))
            tk = gp.covar_module.task_covar_module
            tk.covar_factor.data = torch.eye(out_dim) * float(mspec["cf"])
            tk.var = torch.full((out_dim,), float(mspec["var"]))
        model.update()
        return model

    return factory


# ------------------------------------------------------------------------------------------ snapshots
def snapshot(ds):
    """Exact copy of the design-space arrays (lists of Fractions); raises if they are ragged."""
    F = core.frac
    pts = [[F(x) for x in row] for row in np.asarray(ds.points)]
    cells = [[(F(b[0]), F(b[1])) for b in cell] for cell in ds.cells]
    depths = [int(k) for k in ds.point_depths]
    los = [[F(x) for x in np.atleast_1d(r.lower)] for r in ds.confidence_regions]
    ups = [[F(x) for x in np.atleast_1d(r.upper)] for r in ds.confidence_regions]
    return {"points": pts, "cells": cells, "depths": depths, "lowers": los, "uppers": ups,
            "cardinality": int(ds.cardinality)}


def _fq(x):
    return str(x.numerator) if x.denominator == 1 else f"{x.numerator}/{x.denominator}"


def _fvec(v):
    return ",".join(_fq(x) for x in v) if v else "_"


def parse_space(fields):
    pts = core.parse_qmat(fields[0])
    cells = [[(r[2 * k], r[2 * k + 1]) for k in range(len(r) // 2)] for r in core.parse_qmat(fields[1])]
    depths = core.parse_nats(fields[2])
    return {"points": pts, "cells": cells, "depths": depths, "lowers": core.parse_qmat(fields[3]),
            "uppers": core.parse_qmat(fields[4])}


def diff_space(real, model):
    """first array that differs between the real snapshot and the model's, or None"""
    for k in ("depths", "cells", "points", "lowers", "uppers"):
        if real[k] != model[k]:
            n = min(len(real[k]), len(model[k]))
            at = next((i for i in range(n) if real[k][i] != model[k][i]), n)
            return f"{k}[{at}] (real has {len(real[k])} entries, model {len(model[k])})"
    return None


def vol(cell):
    v = Fraction(1)
    for lo, hi in cell:
        v *= hi - lo
    return v


def int_disjoint(c1, c2):
    """open boxes disjoint (a degenerate box has empty interior)"""
    if any(lo >= hi for lo, hi in c1) or any(lo >= hi for lo, hi in c2):
        return True
    return any(h1 <= l2 or h2 <= l1 for (l1, h1), (l2, h2) in zip(c1, c2))


def check_arrays(snap, d):
    n = len(snap["points"])
    if not (len(snap["cells"]) == len(snap["depths"]) == len(snap["lowers"]) == len(snap["uppers"]) == n
            == snap["cardinality"]):
        return "arrays-out-of-step", "points / cells / point_depths / confidence_regions / cardinality have different lengths"
    for i in range(n):
        if len(snap["points"][i]) != d or len(snap["cells"][i]) != d:
            return "arrays-out-of-step", f"node {i} does not have {d} coordinates"
    return None


def check_children(snap, parent, kids, d):
    """(R) clauses about one refinement; returns (key, what) or None"""
    if len(kids) != 2 ** d:
        return "child-count", f"refining node {parent} created {len(kids)} children instead of 2^{d}"
    pc = snap["cells"][parent]
    for k in kids:
        c = snap["cells"][k]
        if any((hi - lo) * 2 != (phi - plo) for (lo, hi), (plo, phi) in zip(c, pc)):
            return "child-side", f"child {k} of node {parent} does not have half the side length in every dimension"
        if any(not (plo <= lo and hi <= phi) for (lo, hi), (plo, phi) in zip(c, pc)):
            return "child-outside-parent", f"child {k} is not contained in the cell of its parent {parent}"
        if snap["points"][k] != [(lo + hi) / 2 for lo, hi in c]:
            return "child-centre", f"point of child {k} is not the centre of its cell"
        if snap["depths"][k] != snap["depths"][parent] + 1:
            return "child-depth", f"child {k} does not have depth(parent)+1"
        if snap["lowers"][k] != snap["lowers"][parent] or snap["uppers"][k] != snap["uppers"][parent]:
            return "child-region", f"child {k} does not start from the confidence region of its parent {parent}"
    for a in range(len(kids)):
        for b in range(a + 1, len(kids)):
            if not int_disjoint(snap["cells"][kids[a]], snap["cells"][kids[b]]):
                return "children-overlap", f"children {kids[a]} and {kids[b]} of node {parent} share interior points"
    if sum(vol(snap["cells"][k]) for k in kids) != vol(pc):
        return "children-not-tiling", f"the children of node {parent} do not cover its cell (volume sum differs)"
    return None


def check_tiling(snap, leaves, d):
    cs = [snap["cells"][i] for i in leaves]
    for i, c in zip(leaves, cs):
        if any(lo < 0 or hi > 1 or lo > hi for lo, hi in c):
            return "leaf-outside-cube", f"cell of leaf {i} is not inside [0,1]^{d}"
    for a in range(len(cs)):
        ca = cs[a]
        for b in range(a + 1, len(cs)):
            if not int_disjoint(ca, cs[b]):
                return "leaves-overlap", f"leaves {leaves[a]} and {leaves[b]} share interior points"
    if sum(vol(c) for c in cs) != 1:
        return "leaves-not-tiling", f"the leaf cells do not cover [0,1]^{d} (volume sum {sum(vol(c) for c in cs)})"
    return None


# ------------------------------------------------------------------------------------------ generators
def _gen_space(ctx, rng, big):
    d = rng.choice([1, 1, 2, 2, 2, 3])
    m = rng.choice([2, 2, 3, 4])
    md = rng.randint(1, 6)
    shape = rng.choice(["direct", "guarded", "mixed", "deep", "updates"])
    nops = rng.randint(1, (30 if d < 3 else 12) if big else (14 if d < 3 else 6))
    depths, leaves, ops = [1], [0], []
    # objectives in tiny units / a vague prior: region bounds far outside ±1e12 (the default region's bounds) — still
    # exact dyadics; "children start from the parent's region" has no magnitude clause
    huge = 2.0 ** rng.choice([38, 40, 44]) if (shape in ("updates", "mixed") and rng.random() < 0.25) else 1.0
    for _ in range(nops):
        r = rng.random()
        if shape in ("updates", "mixed") and r < 0.3:
            i = rng.randrange(len(depths))
            mean = [core.dyadic(rng, -8, 8, 2) * huge for _ in range(m)]
            sd = [core.dyadic(rng, 0, 6, 1) * huge for _ in range(m)]
            ops.append(["U", i, mean, sd])
            continue
        if shape == "deep":
            i = max(leaves, key=lambda j: (depths[j], -j)) if rng.random() < 0.8 else rng.choice(leaves)
        else:
            i = rng.choice(leaves)
        guarded = shape == "guarded" or (shape in ("mixed", "deep", "updates") and rng.random() < 0.6)
        if guarded:
            b = rng.random() < 0.8
            ops.append(["Q", i, int(b)])
            if not (b and depths[i] < md):
                continue
        else:
            if depths[i] >= 7:
                continue
            ops.append(["R", i])
        leaves.remove(i)
        for _k in range(2 ** d):
            leaves.append(len(depths))
            depths.append(depths[i] + 1)
    return {"kind": "space", "d": d, "m": m, "max_depth": md, "ops": ops, "shape": shape}


CONES2 = ["comp:2", "theta:45", "theta:60", "theta:90", "theta:120", "theta:135"]
CONES3 = ["comp:3", "cone3:acute", "cone3:right", "cone3:obtuse"]


def _gen_run(ctx, rng, big):
    pk = rng.choice(["branin", "quad", "quad", "quad"])
    mk = rng.choice(["gp", "gp", "stub"])
    noise_var = rng.choice([0.01, 0.0001, 0.04])
    zero = rng.random() < 0.06        # depth_max = 0: the root already exceeds the maximum depth
    if pk == "branin":
        depth_max = 0 if zero else rng.choice([1, 2, 3, 4, 4, 5, 5] if big else [2, 3, 3, 4, 4, 5])
        prob = {"name": "BraninCurrin", "noise_var": noise_var, "depth_max": depth_max}
        in_dim, out_dim = 2, 2
    else:
        in_dim = rng.choice([1, 2, 2, 3])
        out_dim = rng.choice([2, 2, 3])
        depth_max = 0 if zero else rng.choice([1, 2, 3, 3, 4, 4] if (in_dim < 3 and (big or out_dim == 2 or in_dim == 1))
                                              else [1, 2, 3, 3] if in_dim < 3 else [1, 2, 2, 3])
        prob = {"name": "quad", "noise_var": noise_var, "depth_max": depth_max,
                "A": [[core.dyadic(rng, 0, 8, 1) for _ in range(in_dim)] for _ in range(out_dim)],
                "T": [[core.dyadic(rng, 0, 8, 3) for _ in range(in_dim)] for _ in range(out_dim)],
                "C": [core.dyadic(rng, -4, 4, 1) for _ in range(out_dim)]}
    if in_dim < out_dim and rng.random() < 0.9:
        mk = "stub"    # real GP: calculate_design_vh indexes the (in_dim-sized) lengthscales by objective
    if mk == "gp":
        model = {"kind": "gp", "ls": rng.choice([0.125, 0.25, 0.5, 1.0]), "cf": rng.choice([0.0, 0.5, 1.0]),
                 "var": rng.choice([0.25, 0.5, 1.0, 2.0])}
        rounds = rng.choice([20, 30, 45]) if big else rng.choice([12, 20, 30])
    else:
        model = {"kind": "stub", "s0": rng.choice([0.5, 1.0, 2.0]), "decay": rng.choice([0.5, 0.75, 0.875]),
                 "ls": rng.choice([0.25, 0.5, 1.0]), "var": rng.choice([0.5, 1.0, 2.0])}
        rounds = rng.choice([30, 50, 80] if big else [20, 30, 40])
    if not big and in_dim >= 2 and depth_max >= 4:
        rounds = min(rounds, 25)   # once latched, ε-covering costs O(|S|·|W|) cvxpy solves per round
    if depth_max == 0:
        rounds = 6
    cone = rng.choice(CONES2 if out_dim == 2 else CONES3)
    return {"kind": "run", "problem": prob, "model": model, "cone": cone,
            "eps": rng.choice([0.01, 0.05, 0.1, 0.25, 0.5, 1.0]),
            "contraction": rng.choice([1, 4, 32, 32, 128]),
            "rounds": rounds, "seed": rng.randrange(10 ** 6)}


def _gen_phase(ctx, rng, big):
    d = rng.choice([1, 2, 2, 3])
    m = rng.choice([2, 2, 3])
    dsmax = rng.randint(1, 5)
    depths, leaves, refs = [1], [0], []
    for _ in range(rng.randint(0, 5 if d < 3 else 2)):
        i = rng.choice(leaves)
        if depths[i] >= 6:
            continue
        refs.append(i)
        leaves.remove(i)
        for _k in range(2 ** d):
            leaves.append(len(depths))
            depths.append(depths[i] + 1)
    pool = list(leaves)
    if rng.random() < 0.15:      # unreachable: internal nodes among the active ones
        pool = list(range(len(depths)))
    rng.shuffle(pool)
    k = rng.randint(1, min(len(pool), 9))
    act = pool[:k]
    cut = rng.randint(0, k)
    S, P = sorted(act[:cut]), sorted(act[cut:])
    amax = rng.choice([dsmax, dsmax, dsmax, dsmax - 1, dsmax + 1, max(depths)])
    latch = rng.random() < 0.4
    phase = rng.choice(["cover", "cover", "evalrefine", "evalrefine", "discard"])
    case = {"kind": "phase", "d": d, "m": m, "ds_max_depth": dsmax, "refs": refs, "S": S, "P": P,
            "latch": int(latch), "alg_max_depth": max(0, amax), "phase": phase}
    if phase == "cover":
        case["N"] = sorted(i for i in S if rng.random() < 0.5)
    elif phase == "discard":
        case["D"] = sorted(i for i in S if rng.random() < 0.5)
    else:
        case["cand"] = rng.choice(S + P)
        case["vh"] = int(rng.random() < 0.75)
    return case


GATE_VARIANTS = ["oldest-at-max", "newest-at-max", "majority-at-max", "minmax-at-max", "one-at-max"]


def _gen_gate(ctx, rng, variant=None):
    """Reachable VOGP_AD states (depth_max 4 or 5) in which SOME but not all members of S are at the
    maximum depth — the oldest / the newest / a majority / the smallest and largest index / a single one —
    and the geometry says "nobody is covered": any ε-covering gate weaker than "ALL of S at maximum depth"
    opens the latch and declares a shallow design (checked as (R) `P-not-max-depth` on the real state)."""
    variant = variant or rng.choice(GATE_VARIANTS)
    d = rng.choice([1, 2, 2])
    dmax = rng.choice([4, 5])
    depths, leaves, refs = [1], [0], []

    def refine(i):
        refs.append(i)
        leaves.remove(i)
        kids = list(range(len(depths), len(depths) + 2 ** d))
        for k in kids:
            leaves.append(k)
            depths.append(depths[i] + 1)
        return kids

    def chain(start):
        """refine `start` and then one child of each new generation down to the maximum depth"""
        i = start
        while depths[i] < dmax:
            i = rng.choice(refine(i))

    def shallow(n):
        """refine up to n leaves whose children stay strictly above the finest level"""
        for _ in range(n):
            cand = [j for j in leaves if depths[j] <= dmax - 2]
            if not cand:
                return
            refine(rng.choice(cand))

    if variant in ("oldest-at-max", "majority-at-max", "one-at-max"):
        chain(0)
        shallow(rng.randint(1, 3))
    elif variant == "newest-at-max":
        refine(0)
        shallow(rng.randint(1, 2))
        chain(rng.choice([j for j in leaves if depths[j] <= dmax - 1]))
    else:  # minmax-at-max
        chain(0)
        shallow(rng.randint(1, 2))
        cand = [j for j in leaves if depths[j] <= dmax - 1]
        chain(max(cand))
    fine = sorted(j for j in leaves if depths[j] == dmax)
    coarse = sorted(j for j in leaves if depths[j] < dmax)
    if variant == "oldest-at-max":
        lo = fine[0]
        S = [lo] + [j for j in fine[1:] if rng.random() < 0.5] + \
            ([j for j in coarse if j > lo and rng.random() < 0.7] or [max(coarse)])
        S = [j for j in S if j >= lo]
        if not any(depths[j] < dmax for j in S):
            S.append(max(j for j in coarse))
        S = [j for j in S if j >= lo] if max(coarse) > lo else S
    elif variant == "newest-at-max":
        hi = fine[-1]
        S = [hi] + [j for j in fine[:-1] if rng.random() < 0.5] + \
            ([j for j in coarse if j < hi and rng.random() < 0.7] or [min(coarse)])
    elif variant == "majority-at-max":
        S = list(fine) + [rng.choice(coarse)]
    elif variant == "one-at-max":
        S = [rng.choice(fine)] + [j for j in coarse if rng.random() < 0.8] + [rng.choice(coarse)]
    else:
        S = [fine[0], fine[-1]] + [j for j in coarse if fine[0] < j < fine[-1] and rng.random() < 0.8]
        mid = [j for j in coarse if fine[0] < j < fine[-1]]
        S.append(rng.choice(mid) if mid else rng.choice(coarse))
    S = sorted(set(S))
    return {"kind": "phase", "d": d, "m": 2, "ds_max_depth": dmax, "refs": refs, "S": S, "P": [],
            "latch": 0, "alg_max_depth": dmax, "phase": "cover", "N": list(S), "variant": "gate:" + variant}


def gen(ctx):
    rng = ctx.rng
    big = ctx.tier == "thorough"
    if ctx.worker == 0:
        yield from _huge_fixed()
    # structured first: exhaustive short refinement orders in 1-D / 2-D (thorough), then random
    if big:
        k = 0
        for d in (1, 2):
            for md in (1, 2, 3):
                for seq in _product(range(0, 2 * 2 ** d), repeat=3):
                    for guarded in (0, 1):
                        k += 1
                        if k % ctx.nworkers != ctx.worker:
                            continue
                        depths, leaves, ops = [1], [0], []
                        for r in seq:           # r-th current leaf (mod the number of leaves)
                            i = leaves[r % len(leaves)]
                            ops.append(["Q", i, 1] if guarded else ["R", i])
                            if guarded and depths[i] >= md:
                                continue
                            leaves.remove(i)
                            for _k in range(2 ** d):
                                leaves.append(len(depths))
                                depths.append(depths[i] + 1)
                        yield {"kind": "space", "d": d, "m": 2, "max_depth": md, "ops": ops, "shape": "exhaustive"}
    # structured: partially-finest active sets against the ε-covering gate
    n_gate = ctx.n(40, 1500)
    for j in range(n_gate):
        yield _gen_gate(ctx, rng, GATE_VARIANTS[j % len(GATE_VARIANTS)])
    # structured: refinement chains down to depth 18..26 along corner / face directions; scripted rounds in
    # which the widest active node is discarded in the round in which it would be refined (c18_deep.py)
    n_deep, n_round = ctx.n(21, 700), ctx.n(9, 400)
    for j in range(max(n_deep, n_round)):
        if j < n_deep:
            yield _deep.gen_deep(ctx, rng, j)
        if j < n_round:
            yield _deep.gen_round(ctx, rng, j)
    # structured: every public read-only method interleaved with refinements; two VOGP_AD instances alive at
    # the same time (c18_iso.py).  The first cases of both families are fixed and run in every quick run
    # (worker 0 only when sharded).
    n_ro, n_two = ctx.n(16, 600), ctx.n(8, 200)
    for j in range(max(n_ro, n_two)):
        fixed_ro, fixed_two = j < len(_iso.FIXED_READONLY), j < len(_iso.FIXED_TWOINST)
        if j < n_ro or (fixed_ro and ctx.worker == 0):
            if not fixed_ro or ctx.worker == 0:
                yield _iso.gen_readonly(ctx, rng, j)
        if j < n_two or (fixed_two and ctx.worker == 0):
            if not fixed_two or ctx.worker == 0:
                yield _iso.gen_twoinst(ctx, rng, j)
    n_space, n_run, n_phase = ctx.n(220, 10000), ctx.n(14, 420), ctx.n(160, 6000)
    for j in range(max(n_space, n_run, n_phase)):
        if j < n_space:
            yield _gen_space(ctx, rng, big)
        if j < n_phase:
            yield _gen_phase(ctx, rng, big)
        if j < n_run:
            yield _gen_run(ctx, rng, big)
    # extension families, generated after everything above (the older streams are unchanged)
    n_vh, n_beta = ctx.n(150, 6000), ctx.n(80, 3000)
    for j in range(max(n_vh, n_beta)):
        if j < n_vh:
            yield _vh.gen_vh(ctx, rng, j)
        if j < n_beta:
            yield _vh.gen_beta(ctx, rng, j)


def _huge_fixed():
    """fixed, every run: a parent whose region reaches beyond ±1e12 is refined (twice); the children must start
    from exactly that region"""
    H = 2.0 ** 40
    out = []
    for d, m in ((1, 2), (2, 2), (2, 3)):
        ops = [["U", 0, [1.5 * H, -2.0 * H, 0.25][:m], [0.5 * H, 4.0 * H, 1.0][:m]], ["R", 0],
               ["U", 1, [-3.0 * H, 0.5, 2.0 * H][:m], [8.0 * H, 0.25, 0.5 * H][:m]], ["R", 1]]
        out.append({"kind": "space", "d": d, "m": m, "max_depth": 5, "shape": "huge-fixed", "ops": ops})
    return out


# ------------------------------------------------------------------------------------------ run_case
def run_case(ctx, case):
    kind = case["kind"]
    ctx.count("kind_" + kind)
    if kind == "space":
        return _run_space(ctx, case)
    if kind == "run":
        import torch

        import warnings

        st, nt = np.random.get_state(), torch.get_num_threads()
        torch.set_num_threads(1)     # deterministic and much faster on a loaded machine
        try:
            with warnings.catch_warnings():
                warnings.simplefilter("ignore")   # numpy RuntimeWarnings from vopy.utils (0/0 in a helper)
                return _run_algo(ctx, case)
        finally:
            np.random.set_state(st)
            torch.set_num_threads(nt)
    if kind == "phase":
        return _run_phase(ctx, case)
    if kind == "deepchain":
        return _deep.run_deep(ctx, case)
    if kind == "round":
        import warnings

        st = np.random.get_state()
        try:
            with warnings.catch_warnings():
                warnings.simplefilter("ignore")
                return _deep.run_round(ctx, case)
        finally:
            np.random.set_state(st)
    if kind == "readonly":
        return _iso.run_readonly(ctx, case)
    if kind == "twoinst":
        import torch

        import warnings

        st, nt = np.random.get_state(), torch.get_num_threads()
        torch.set_num_threads(1)
        try:
            with warnings.catch_warnings():
                warnings.simplefilter("ignore")
                return _iso.run_twoinst(ctx, case)
        finally:
            np.random.set_state(st)
            torch.set_num_threads(nt)
    if kind == "vh":
        return _vh.run_vh(ctx, case)
    if kind == "beta":
        return _vh.run_beta(ctx, case)
    raise ValueError(kind)


# ---- space ---------------------------------------------------------------------------------------
def _run_space(ctx, case):
    from vopy.design_space import AdaptivelyDiscretizedDesignSpace

    d, m, md = case["d"], case["m"], case["max_depth"]
    ctx.count("space_shape_" + case["shape"])
    ctx.count(f"space_d{d}")
    ds = AdaptivelyDiscretizedDesignSpace(d, m, DELTA, md)
    stub = scripted_gp_class()(d, m)
    scale = np.ones(m)
    tokens, answers, refined = [], [], []
    guarded_only = True
    nontrivial = False
    check_each = len(case["ops"]) <= 12
    viol = None
    for op in case["ops"]:
        try:
            if op[0] == "U":
                _, i, mean, sd = op
                stub.forced_mean, stub.forced_stds = mean, sd
                ds.update(stub, scale, [i])
                stub.forced_mean = stub.forced_stds = None
                r = ds.confidence_regions[i]
                tokens.append(f"U:{i}:{core.qvec(np.atleast_1d(r.lower))}:{core.qvec(np.atleast_1d(r.upper))}")
                continue
            i = op[1]
            if i in refined or i >= len(ds.points):
                # the real tree no longer matches the one the generator simulated (only after a
                # should_refine_design answer the model will disagree with): stop here
                ctx.count("space_diverged")
                break
            if op[0] == "Q":
                stub.forced_std = 0.0 if op[2] else 1e9
                ans = bool(ds.should_refine_design(stub, i, scale))
                _vh.compare(ctx, case, _vh.capture(ds, stub, i, scale), ans, "space")
                stub.forced_std = None
                answers.append(ans)
                tokens.append(f"Q:{i}:{op[2]}")
                ctx.count("space_guard_" + ("refine" if ans else "refuse"))
                if not ans:
                    continue
            else:
                guarded_only = False
                tokens.append(f"R:{i}")
            before = len(ds.points)
            kids = ds.refine_design(i)
            refined.append(i)
        except Exception as e:
            viol = ("space-crash:" + core.exc_key(e), f"design-space operation {op[:2]} raised {type(e).__name__}: {e}")
            break
        kids = [int(k) for k in kids]
        if kids != list(range(before, len(ds.points))):
            viol = ("child-indices", f"refine_design({i}) returned {kids}, arrays grew from {before} to {len(ds.points)}")
            break
        try:
            snap = snapshot(ds)
        except Exception as e:
            viol = ("arrays-out-of-step", f"design-space arrays cannot be read: {type(e).__name__}: {e}")
            break
        viol = check_arrays(snap, d) or check_children(snap, i, kids, d)
        if viol is None and check_each:
            leaves = [j for j in range(len(snap["points"])) if j not in refined]
            viol = check_tiling(snap, leaves, d)
        if viol:
            break
    if viol:
        ctx.violation(viol[0], viol[1], case, kind="R")
        ctx.case_done(case, True)
        return
    snap = snapshot(ds)
    n = len(snap["points"])
    leaves = [j for j in range(n) if j not in refined]
    viol = check_arrays(snap, d) or check_tiling(snap, leaves, d)
    if viol is None and guarded_only and md >= 1 and max(snap["depths"]) > md:
        viol = ("depth-exceeds-max", f"a node has depth {max(snap['depths'])} > max_depth {md} although every "
                "refinement went through should_refine_design")
    if viol is None and any(k < 1 for k in snap["depths"]):
        viol = ("depth-below-one", "a node has depth < 1")
    if viol:
        ctx.violation(viol[0], viol[1], case, kind="R")
        ctx.case_done(case, True)
        return
    # ---- (F) model replay
    ans = ctx.ask("space", str(d), str(m), str(md), ";".join(tokens) if tokens else "_")
    if not ans.startswith("ok "):
        ctx.violation("space-model-undefined", f"model answers {ans!r} on an operation sequence the code executed",
                      case, kind="F")
    else:
        f = ans.split(" ")[1:]
        mod = parse_space(f)
        where = diff_space(snap, mod)
        if where:
            ctx.violation("space-arrays", f"design-space arrays differ from the model replay at {where}", case,
                          kind="F")
        elif core.parse_bools(f[5]) != answers:
            ctx.violation("space-should-refine", "should_refine_design answers differ from the model "
                          f"(real {answers}, model {core.parse_bools(f[5])})", case, kind="F")
        elif core.parse_nats(f[6]) != leaves:
            ctx.violation("space-leaves", "leaf set differs from the model", case, kind="F")
        elif f[7] != "1":
            # hypothesis of theorem space_ops_invariant: the generator only refines leaves
            ctx.violation("space-leafonly", "the executed sequence refined a node that was not a leaf", case, kind="F")
        else:
            ctx.count("space_leafonly_hypothesis_ok")
    ctx.count("space_nodes", n)
    ctx.count("space_maxdepth_%d" % max(snap["depths"]))
    nontrivial = len(refined) >= 2
    ctx.case_done(case, nontrivial)


# ---- whole runs ------------------------------------------------------------------------------------
class _Recorder:
    """Wraps the phases of one VOGP_AD instance (instance attributes only; /repo untouched)."""

    def __init__(self, alg):
        self.alg = alg
        self.tokens = []
        self.refined = []          # observed refine_design calls: (parent, children, set name or None)
        self.step_refines = []
        self.sr_calls = []
        self.notes = []
        self.dropped = set()       # observed: designs removed by discarding()
        ds = alg.design_space
        self._o = {"modeling": alg.modeling, "discarding": alg.discarding, "cover": alg.epsiloncovering,
                   "evalref": alg.evaluate_refine, "sr": ds.should_refine_design, "rd": ds.refine_design}
        self.vh_obs, self.beta_obs, self.notes_beta = [], [], 0
        self._o["beta"] = alg.compute_beta
        alg.compute_beta = self.beta
        alg.modeling = self.modeling
        alg.discarding = self.discarding
        alg.epsiloncovering = self.cover
        alg.evaluate_refine = self.evalref
        ds.should_refine_design = self.sr
        ds.refine_design = self.rd

    def modeling(self):
        a = self.alg
        W = sorted(a.S | a.P)
        self._o["modeling"]()
        for i in W:
            r = a.design_space.confidence_regions[i]
            self.tokens.append(f"U:{i}:{core.qvec(np.atleast_1d(r.lower))}:{core.qvec(np.atleast_1d(r.upper))}")

    def discarding(self):
        a = self.alg
        S0, P0 = set(a.S), set(a.P)
        self._o["discarding"]()
        self.tokens.append("D:" + core.nats(sorted(S0 - a.S)))
        self.dropped |= (S0 - a.S)
        if a.P != P0 or not a.S <= S0:
            self.notes.append("discarding() changed P or added to S")

    def cover(self):
        a = self.alg
        P0 = set(a.P)
        self._o["cover"]()
        self.tokens.append("C:" + core.nats(sorted(a.P - P0)))

    def sr(self, model, idx, scale):
        cap = _vh.capture(self.alg.design_space, model, idx, scale)
        r = self._o["sr"](model, idx, scale)
        self.sr_calls.append((int(idx), bool(r)))
        self.vh_obs.append((cap, bool(r)))
        return r

    def beta(self):
        a = self.alg
        b = self._o["beta"]()
        try:
            Kn = np.asarray(a.model.evaluate_kernel(), dtype=float)
            det = float(np.linalg.det(Kn + np.eye(len(Kn))))
            self.beta_obs.append((float(a.problem.noise_var), float(a.delta), det, float(a.conf_contraction),
                                  np.array(b, dtype=float).copy()))
        except Exception:
            self.notes_beta += 1
        return b

    def rd(self, idx):
        n0 = len(self.alg.design_space.points)
        kids = self._o["rd"](idx)
        self.step_refines.append((int(idx), [int(k) for k in kids], n0))
        return kids

    def evalref(self):
        a = self.alg
        self.sr_calls, self.step_refines = [], []
        S0, P0 = set(a.S), set(a.P)
        self._o["evalref"]()
        self.S0, self.P0 = S0, P0
        if len(self.sr_calls) == 1:
            c, b = self.sr_calls[0]
        elif self.step_refines:
            c, b = self.step_refines[0][0], True
            self.notes.append("evaluate_refine refined without exactly one should_refine_design call")
        else:
            c, b = min(S0 | P0), False
            if len(self.sr_calls) != 0:
                self.notes.append("evaluate_refine called should_refine_design more than once")
        self.tokens.append(f"E:{c}:{int(b)}")


def _run_algo(ctx, case):
    import torch
    import vopy.algorithms.vogp_ad as vad

    np.random.seed(case["seed"])
    torch.manual_seed(case["seed"])
    pspec, mspec = case["problem"], case["model"]
    ctx.count("run_problem_" + pspec["name"])
    ctx.count("run_model_" + mspec["kind"])
    ctx.count("run_cone_" + case["cone"])
    dmax = pspec["depth_max"]
    ctx.count(f"run_depthmax_{dmax}")
    saved = vad.get_gpytorch_model_w_known_hyperparams
    vad.get_gpytorch_model_w_known_hyperparams = model_factory(
        mspec, lambda problem: (lambda X: problem.evaluate(np.array(X, dtype=float), noisy=False)))
    try:
        try:
            problem = make_problem(pspec)
            order = make_order(case["cone"])
            alg = vad.VOGP_AD(case["eps"], DELTA, problem, order, pspec["noise_var"],
                              conf_contraction=case["contraction"])
        except Exception as e:
            ctx.count("run_ctor_crash_info:" + core.exc_key(e))
            ctx.info(f"VOGP_AD constructor raised {type(e).__name__}: {e} (C06 territory) case={case}")
            ctx.case_done(case, False)
            return
    finally:
        vad.get_gpytorch_model_w_known_hyperparams = saved
    return _observe_run(ctx, case, alg, problem, dmax, pspec["name"], mspec["kind"])


def _observe_run(ctx, case, alg, problem, dmax, pname, mkind, after=None):
    """Observe a constructed VOGP_AD phase by phase for case["rounds"] rounds: (R) on the real state and (F)
    against the model replay after every run_one_step()."""
    for _ in _observe_steps(ctx, case, alg, problem, dmax, pname, mkind, after=after):
        pass


def _observe_steps(ctx, case, alg, problem, dmax, pname, mkind, after=None, finish=True, rounds=None, tag=""):
    """Generator form of the observation: yields "ok" / "done" after every checked run_one_step(); simply ends
    after a violation, a crash or the round cap.  `finish=False`: the caller calls ctx.case_done itself (several
    instances observed inside one case, c18_iso.py); `tag` names the instance in violation details."""
    if rounds is None:
        rounds = case["rounds"]
    d, m = problem.in_dim, problem.out_dim
    ctx.count(f"run_d{d}")
    rec = _Recorder(alg)
    ds = alg.design_space
    refined = []
    nrounds = 0
    done = False
    status = "cap"
    while nrounds < rounds:
        S_before, P_before = set(alg.S), set(alg.P)
        rec.step_refines = []
        round_before = alg.round
        try:
            done = alg.run_one_step()
        except Exception as e:
            # a crash is C06's verdict; for C18 it only ends the observation
            key = core.exc_key(e)
            ctx.count("run_crash_info:" + key)
            ctx.info(f"run_one_step raised {type(e).__name__}: {e} at round {nrounds} [{key}] "
                     f"problem={pname} in_dim={d} out_dim={m} model={mkind}")
            status = "crash"
            break
        nrounds += 1
        # ---------------- (F) RealLike terms: Vh / refinement decision / beta of this round
        for (cap_, ans_) in rec.vh_obs:
            _vh.compare(ctx, case, cap_, ans_, "run")
        for ob in rec.beta_obs:
            _vh.beta_compare(ctx, case, ob, "run")
        rec.vh_obs, rec.beta_obs = [], []
        if alg.round != round_before:
            rec.tokens.append("N")
        # ---------------- (R) on the real state
        try:
            snap = snapshot(ds)
        except Exception as e:
            ctx.violation("arrays-out-of-step", f"design-space arrays cannot be read: {type(e).__name__}: {e}",
                          case, kind="R")
            if finish:
                ctx.case_done(case, True)
            return
        S, P = set(int(i) for i in alg.S), set(int(i) for i in alg.P)
        viol = check_arrays(snap, d)
        n = len(snap["points"])
        for (par, kids, n0) in rec.step_refines:
            if viol:
                break
            if kids != list(range(n0, n0 + len(kids))):
                viol = ("child-indices", f"refine_design({par}) returned {kids}, arrays had {n0} entries")
                break
            viol = check_children(snap, par, kids, d)
            if viol:
                break
            refined.append(par)
            # set surgery: the refined node leaves its set, its children join the same set
            inS, inP = par in rec.S0, par in rec.P0
            if not inS and not inP:
                why = "it had been removed by discarding()" if par in rec.dropped else "it was in neither S nor P"
                dest = ["S" if k in S else "P" if k in P else "-" for k in kids]
                viol = ("refined-inactive", f"node {par} was refined although it was not active when evaluate_refine "
                        f"started ({why}); its children {kids} were put into {dest}")
            elif par in S or par in P:
                viol = ("parent-not-removed", f"refined node {par} is still active")
            elif inS and not (set(kids) <= S and not (set(kids) & P)):
                viol = ("children-wrong-set", f"node {par} was in S but its children are not all in S (only)")
            elif inP and not inS and not (set(kids) <= P and not (set(kids) & S)):
                viol = ("children-wrong-set", f"node {par} was in P but its children are not all in P (only)")
            elif (S - set(kids)) != (rec.S0 - {par}) or (P - set(kids)) != (rec.P0 - {par}):
                viol = ("refine-disturbs-sets", "evaluate_refine changed S or P beyond swapping the refined node "
                        "for its children")
        rset = set(refined)
        leaves = [j for j in range(n) if j not in rset]
        if viol is None and (S & P):
            viol = ("S-P-overlap", f"designs {sorted(S & P)} are in both S and P")
        if viol is None and not (S | P) <= set(leaves):
            bad = sorted((S | P) - set(leaves))
            viol = ("active-not-leaf", f"active designs {bad} are not leaves of the cell tree (refined or out of range)")
        if viol is None:
            viol = check_tiling(snap, leaves, d)
        if viol is None:
            lost = sorted(set(leaves) - S - P - rec.dropped)
            back = sorted(rec.dropped & (S | P))
            if lost:
                viol = ("leaf-lost", f"leaves {lost} are neither active (S ∪ P) nor were they removed by discarding()")
            elif back:
                viol = ("discarded-reactivated", f"designs {back} were discarded earlier but are active again")
        if viol is None and dmax >= 1 and max(snap["depths"]) > dmax:
            viol = ("depth-exceeds-max", f"a node has depth {max(snap['depths'])} > depth_max {dmax}")
        if viol is None:
            low = sorted(i for i in P if snap["depths"][i] != dmax)
            if low:
                viol = ("P-not-max-depth", f"designs {low} are declared Pareto at depths "
                        f"{[snap['depths'][i] for i in low]} != maximum depth {dmax}")
        if viol is None and not (P_before - {p for p, _, _ in rec.step_refines}) <= P:
            viol = ("P-shrinks", "a declared design left P without being refined")
        if viol:
            ctx.violation(viol[0], viol[1], case, kind="R", detail={"instance": tag, "round": nrounds})
            if finish:
                ctx.case_done(case, True)
            return
        # ---------------- (F) model replay of everything observed so far
        ans = ctx.ask("algo", str(d), str(m), str(dmax), ";".join(rec.tokens))
        if not ans.startswith("ok "):
            ctx.violation("run-model-undefined", f"model answers {ans!r}: an observed phase is undefined in the "
                          f"model (token {rec.tokens[int(ans[5:])] if ans.startswith('none@') else '?'}); notes={rec.notes}",
                          case, kind="F", detail={"instance": tag, "round": nrounds})
            if finish:
                ctx.case_done(case, True)
            return
        f = ans.split(" ")[1:]
        mod = parse_space(f)
        where = diff_space(snap, mod)
        real_state = (sorted(S), sorted(P), bool(alg.enable_epsilon_covering), int(alg.max_discretization_depth),
                      int(alg.sample_count), int(alg.round), leaves, sorted(set(leaves) - S - P))
        mod_state = (core.parse_nats(f[5]), core.parse_nats(f[6]), f[7] == "1", int(f[8]), int(f[9]), int(f[10]),
                     core.parse_nats(f[11]), core.parse_nats(f[12]))
        names = ("S", "P", "enable_epsilon_covering", "max_discretization_depth", "sample_count", "round", "leaves",
                 "discarded-leaves")
        if where:
            ctx.violation("run-arrays", f"design-space arrays differ from the model replay at {where} after round "
                          f"{nrounds}", case, kind="F", detail={"instance": tag, "round": nrounds, "notes": rec.notes})
            if finish:
                ctx.case_done(case, True)
            return
        for nm, a, b in zip(names, real_state, mod_state):
            if a != b:
                ctx.violation("run-" + nm, f"{nm} differs from the model replay after round {nrounds}: real {a}, "
                              f"model {b}", case, kind="F", detail={"instance": tag, "round": nrounds, "notes": rec.notes})
                if finish:
                    ctx.case_done(case, True)
                return
        yield "done" if done else "ok"
        if done:
            status = "done"
            break
    if after is not None:
        after(rec)
    ctx.count("run_status_" + status)
    ctx.count("run_rounds", nrounds)
    ctx.count("run_refinements", len(refined))
    ctx.count("run_declared", len(alg.P))
    if alg.enable_epsilon_covering:
        ctx.count("run_latched")
    if rec.notes:
        ctx.count("run_notes_info", len(rec.notes))
    if finish:
        ctx.case_done(case, len(refined) >= 2)


# ---- single phases on hand-built states -----------------------------------------------------------------
def _run_phase(ctx, case):
    import vopy.algorithms.vogp_ad as vad

    d, m = case["d"], case["m"]
    phase = case["phase"]
    ctx.count("phase_" + phase)
    if "variant" in case:
        ctx.count("phase_" + case["variant"])
    spec = {"name": "quad", "noise_var": 0.01, "depth_max": case["ds_max_depth"],
            "A": [[1.0] * d for _ in range(m)], "T": [[0.5] * d for _ in range(m)], "C": [0.0] * m}
    mspec = {"kind": "stub", "s0": 1.0, "decay": 0.5, "ls": 0.5, "var": 1.0}
    saved = vad.get_gpytorch_model_w_known_hyperparams
    vad.get_gpytorch_model_w_known_hyperparams = model_factory(mspec, lambda problem: None)
    st = np.random.get_state()
    np.random.seed(12345)
    try:
        problem = make_problem(spec)
        alg = vad.VOGP_AD(0.1, DELTA, problem, make_order(f"comp:{m}"), 0.01)
    finally:
        vad.get_gpytorch_model_w_known_hyperparams = saved
    ds = alg.design_space
    tokens = []
    try:
        for i in case["refs"]:
            n_before = len(ds.points)
            kids = [int(k) for k in ds.refine_design(i)]
            tokens.append(f"R:{i}")
            v = None
            if kids != list(range(n_before, len(ds.points))):
                v = ("child-indices", f"refine_design({i}) returned {kids}, arrays grew from {n_before} to {len(ds.points)}")
            else:
                sn = snapshot(ds)
                v = check_arrays(sn, d) or check_children(sn, i, kids, d)
            if v:
                ctx.violation(v[0], v[1], case, kind="R")
                ctx.case_done(case, True)
                return
        alg.S, alg.P = set(case["S"]), set(case["P"])
        alg.enable_epsilon_covering = bool(case["latch"])
        alg.max_discretization_depth = case["alg_max_depth"]
        alg.beta = np.ones(m)
        tokens.append(f"T:{core.nats(case['S'])}:{core.nats(case['P'])}:{case['latch']}:{case['alg_max_depth']}")
        ident = {id(r): i for i, r in enumerate(ds.confidence_regions)}
        S0, P0 = set(alg.S), set(alg.P)
        n0 = len(ds.points)
        depths0 = list(ds.point_depths)
        if phase == "cover":
            N = set(case["N"])
            saved_cov = vad.confidence_region_is_covered
            vad.confidence_region_is_covered = lambda order, r1, r2, slack: ident[id(r1)] not in N
            try:
                alg.epsiloncovering()
            finally:
                vad.confidence_region_is_covered = saved_cov
            tokens.append("C:" + core.nats(sorted(alg.P - P0)))
        elif phase == "discard":
            D = set(case["D"])
            alg.compute_pessimistic_set = lambda: set(alg.P) | (set(alg.S) - D)
            saved_dom = vad.confidence_region_is_dominated
            vad.confidence_region_is_dominated = lambda order, r1, r2, slack: ident[id(r1)] in D
            try:
                alg.discarding()
            finally:
                vad.confidence_region_is_dominated = saved_dom
            tokens.append("D:" + core.nats(sorted(S0 - alg.S)))
        else:
            cand, vh = case["cand"], case["vh"]
            for i, r in enumerate(ds.confidence_regions):
                w = 8.0 if i == cand else 1.0
                r.lower, r.upper = np.full(m, -w), np.full(m, w)
                tokens.append(f"U:{i}:{core.qvec(r.lower)}:{core.qvec(r.upper)}")
            alg.model.forced_std = 0.0 if vh else 1e9
            calls, res = [], []
            orig_sr = ds.should_refine_design

            def sr(model, idx, scale):
                r = orig_sr(model, idx, scale)
                calls.append(int(idx))
                res.append(bool(r))
                return r

            ds.should_refine_design = sr
            alg.evaluate_refine()
            c = calls[0] if calls else cand
            b = res[0] if res else vh
            if c != cand:
                ctx.count("phase_candidate_differs_info")
            tokens.append(f"E:{c}:{int(b)}")
    except Exception as e:
        # hand-built states may be outside what the code supports (e.g. an empty S): the model must agree
        ans = ctx.ask("algo", str(d), str(m), str(case["ds_max_depth"]), ";".join(tokens + _pending_token(case)))
        if ans.startswith("ok "):
            ctx.violation("phase-crash:" + core.exc_key(e), f"{phase} raised {type(e).__name__}: {e} on a state "
                          "where the model is defined", case, kind="F")
        else:
            ctx.count("phase_both_undefined")
        ctx.case_done(case, False)
        return
    snap = snapshot(ds)
    S, P = set(int(i) for i in alg.S), set(int(i) for i in alg.P)
    n = len(snap["points"])
    viol = check_arrays(snap, d)
    changed = (S != S0) or (P != P0) or n != n0 or bool(alg.enable_epsilon_covering) != bool(case["latch"])
    # (R): clauses of the property that speak about any state
    if viol is None and phase == "evalrefine" and n != n0:
        par = c
        kids = list(range(n0, n))
        viol = check_children(snap, par, kids, d)
        inS = par in S0
        if viol is None and (par in S or par in P):
            viol = ("parent-not-removed", f"refined node {par} is still active")
        elif viol is None and inS and not (set(kids) <= S and not (set(kids) & P)):
            viol = ("children-wrong-set", f"node {par} was in S but its children are not all in S (only)")
        elif viol is None and not inS and not (set(kids) <= P and not (set(kids) & S)):
            viol = ("children-wrong-set", f"node {par} was in P but its children are not all in P (only)")
        elif viol is None and case["ds_max_depth"] >= 1 and depths0[par] >= case["ds_max_depth"]:
            viol = ("depth-exceeds-max", f"node {par} at depth {depths0[par]} >= max_depth {case['ds_max_depth']} was refined "
                    "through should_refine_design")
    if viol is None and phase == "cover" and not case["latch"]:
        low = sorted(i for i in (P - P0) if snap["depths"][i] != case["alg_max_depth"])
        notmax = [i for i in S0 if snap["depths"][i] != case["alg_max_depth"]]
        if low and notmax:
            viol = ("P-not-max-depth", f"designs {low} declared Pareto although designs {notmax} of S are not at the "
                    f"maximum depth {case['alg_max_depth']} and the latch was not set")
    if viol:
        ctx.violation(viol[0], viol[1], case, kind="R")
        ctx.case_done(case, True)
        return
    ans = ctx.ask("algo", str(d), str(m), str(case["ds_max_depth"]), ";".join(tokens))
    if not ans.startswith("ok "):
        ctx.violation("phase-model-undefined", f"model answers {ans!r} but the code executed {phase}", case, kind="F")
        ctx.case_done(case, changed)
        return
    f = ans.split(" ")[1:]
    where = diff_space(snap, parse_space(f))
    real_state = (sorted(S), sorted(P), bool(alg.enable_epsilon_covering), int(alg.sample_count))
    mod_state = (core.parse_nats(f[5]), core.parse_nats(f[6]), f[7] == "1", int(f[9]))
    if where:
        ctx.violation("phase-arrays", f"{phase}: design-space arrays differ from the model at {where}", case, kind="F")
    else:
        for nm, a, b in zip(("S", "P", "enable_epsilon_covering", "sample_count"), real_state, mod_state):
            if a != b:
                ctx.violation(f"phase-{phase}-{nm}", f"{phase}: {nm} differs from the model: real {a}, model {b}",
                              case, kind="F")
                break
    ctx.count("phase_changed" if changed else "phase_unchanged")
    ctx.case_done(case, changed)


def _pending_token(case):
    if case["phase"] == "cover":
        return ["C:" + core.nats(case["N"])]
    if case["phase"] == "discard":
        return ["D:" + core.nats(case["D"])]
    return [f"E:{case['cand']}:{case['vh']}"]
