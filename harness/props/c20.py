"""C20 — problems return the nearest design's value plus configured noise; data scaled.

Real `ProblemFromDataset` / `ContinuousProblem` (BraninCurrin and synthetic subclasses) /
`DecoupledEvaluationProblem`, `get_noisy_evaluations_chol`, `Dataset.__init__` scaling and
`normalize` / `unnormalize` from /repo against the Lean model `VOPyVerif/Model/Problem.lean`
(exact rational arithmetic on the exported floats).

Case kinds
  lookup      synthetic dyadic dataset (scaling bypassed), query points on/off grid, deliberate ties,
              single 1-D point or batch, every evaluation_index form          (exact)
  noise-util  get_noisy_evaluations_chol with `np.random.normal` patched: basis rows read the applied
              matrix M off exactly; Lean decides MᵀM = L Lᵀ; dyadic draws check y = f + z·M   (exact)
  noise-prob  the same through the problem classes (diagonal factors built from noise_var, and a
              correlated factor stored in `noise_cholesky`)
  continuous  BraninCurrin / synthetic linear ContinuousProblem: noiseless evaluate = evaluate_true,
              shape, determinism, input immutability
  bundled     Test / SNW / DiskBrake / VehicleSafety: declared sizes, input columns min 0 / max 1,
              objectives mean 0 / population variance 1 (exact arithmetic on the exported floats),
              scaled data = model scaling of the raw file data, lookup with a rounding band
  synth-ds    small synthetic Dataset subclasses through the real `Dataset.__init__`
  roundtrip   normalize / unnormalize vs the model and as mutual inverses (exact on dyadic data,
              1e-12 on random floats), ValueError guard
  history     ONE problem instance evaluated repeatedly with ONE caller-owned buffer overwritten in place between
              calls (same shape; batch or 1-D point; noiseless and noisy-with-zero-draw; ProblemFromDataset,
              DecoupledEvaluationProblem, ContinuousProblem); every answer must be the model's answer for the
              buffer's CURRENT contents; returned arrays are scribbled over and later answers re-checked
  fresh-ds    get_dataset_instance(name) -> scribble over the returned object -> get_dataset_instance(name) again /
              ProblemFromDataset / NaiveElimination(dataset_name=name): the later instance must be the pristine
              scaled data (caches of the code under test are cleared in a finally block)
  flag-hist   ONE problem object (ProblemFromDataset / ContinuousProblem / BraninCurrin, bare or wrapped in
              DecoupledEvaluationProblem) called repeatedly with noisy=False, noisy=True and the DEFAULT (argument
              omitted), positional and keyword, every evaluation_index form; each call is checked against ITS OWN
              contract (False -> exactly the noiseless value and no draw; True/default -> f + z·M for the recorded
              draw, residual != 0) and the object's configuration must stay bit-identical
  moments     (thorough) sample mean / covariance of repeated noisy evaluations inside a 6-sigma band
              fixed by the seed — a statistical TEST, not a proof

Every evaluate call hashes the caller's array before and after (immutability).
"""
import hashlib
import math
import random
from fractions import Fraction
from types import SimpleNamespace

import numpy as np

from harness import core

TITLE = "Problem evaluation (nearest design, decoupled, noise map), dataset scaling, (un)normalize vs Lean model"
RULE = ("cases: lookup (dyadic designs X, values Y, query batch or single 1-D point, evaluation_index form; shapes "
        "on-grid / off-grid / midpoint ties / equidistant square centre / duplicate designs / far / neardup = two distinct "
        "designs 2^-10..2^-24 apart with queries on either and 2^-12..2^-30 off their bisector, exact float path), noise-util and "
        "noise-prob (factor shape diagonal / correlated lower / symmetric, draws = basis rows then dyadic rows), "
        "continuous (BraninCurrin incl. zero coordinates, linear synthetic), bundled (4 datasets x scaling / lookup), "
        "synth-ds, roundtrip (dyadic exact / random floats), history (one reused query buffer overwritten in place, 2-5 "
        "steps, returned arrays scribbled), fresh-ds (dataset instance scribbled, then requested again by name / by "
        "an algorithm constructor), flag-hist (3-7 calls on one object mixing noisy=False / True / default), moments "
        "(thorough; statistical test). non-trivial = lookup "
        "with >= 2 designs and (a tie or an off-grid point or a decoupled index); noise with a non-scalar factor or a "
        "dyadic draw; every other kind counts when its comparison was actually made; distinct by the case data")
ASSUMPTIONS = [
    "lookup / noise / synthetic-scaling streams use dyadic-lattice data so that the float path (sklearn "
    "euclidean_distances = |x|^2 - 2x.y + |y|^2, X @ L, f + noise) is exact and compared by equality",
    "bundled datasets and random-float round trips are compared with the tolerances of the property (1e-12 scaling, "
    "1e-9 moments) and lookup with a 1e-9 band on the exact squared distance",
    "np.random.normal is patched only inside a try/finally; the noise law itself (i.i.d. standard normals from numpy) "
    "is assumed; the moment stream is a statistical test with a 6-sigma band, labelled as such",
    "normalize / unnormalize are only exercised with upper != lower (the code has no guard there and returns inf/nan)",
    "lower Cholesky convention (np.linalg.cholesky, which the problem classes use): configured covariance = L L^T",
]

DECLARED = {  # name -> (cardinality, in_dim, out_dim) as documented in vopy/datasets/dataset.py
    "Test": (32, 4, 2), "SNW": (206, 3, 2), "DiskBrake": (128, 4, 2), "VehicleSafety": (500, 5, 3),
}


# ------------------------------------------------------------------------------------------ helpers
def _viol(ctx, key, what, case, kind="R", detail=None):
    """ctx.violation, but at most 2 records per key and process (the ctx keeps only 20 records in all, and a
    defect that fires on every case of one shape must not crowd out other keys); every hit is counted."""
    seen = ctx.__dict__.setdefault("_c20_keys", {})
    seen[key] = seen.get(key, 0) + 1
    ctx.count("hit_" + key)
    if seen[key] <= 2:
        ctx.violation(key, what, case, kind=kind, detail=detail)


def _hash(a: np.ndarray):
    return (a.shape, a.dtype.str, hashlib.sha1(np.ascontiguousarray(a).tobytes()).hexdigest())


def _ix_str(ix):
    if ix is None:
        return "all"
    if isinstance(ix, int):
        return f"i:{ix}"
    return "l:" + core.nats(ix)


def _rows_equal(a, b):
    """exact equality of two float matrices given as nested lists / arrays (no tolerance)"""
    a = np.asarray(a, dtype=float)
    b = np.asarray(b, dtype=float)
    return a.shape == b.shape and bool(np.array_equal(a, b))


def _fr_mat(s):
    return [[float(v) for v in r] for r in core.parse_qmat(s)]


class _PatchedNormal:
    """Replace numpy's global `np.random.normal` (the name `vopy.utils.utils` resolves at call time) by a
    function that returns a prescribed matrix; records the requested sizes; always restored."""

    def __init__(self, Z):
        self.Z = np.array(Z, dtype=float)
        self.calls = []

    def __enter__(self):
        import vopy.utils.utils as U
        self._np = U.np
        self._orig = self._np.random.normal

        def fake(loc=0.0, scale=1.0, size=None):
            self.calls.append(size if size is None else tuple(np.atleast_1d(size).tolist()))
            return self.Z.copy()

        self._np.random.normal = fake
        return self

    def __exit__(self, *exc):
        self._np.random.normal = self._orig
        return False


def _synthetic_dataset(X, Y):
    X = np.array(X, dtype=float)
    Y = np.array(Y, dtype=float)
    return SimpleNamespace(in_data=X, out_data=Y, in_dim=X.shape[1], out_dim=Y.shape[1],
                           _cardinality=X.shape[0])


def _is_pow2(fr: Fraction) -> bool:
    fr = abs(fr)
    if fr == 0:
        return False
    n, d = fr.numerator, fr.denominator
    return (n & (n - 1)) == 0 and (d & (d - 1)) == 0


def _evaluate_checked(ctx, case, prob, x, label, **kw):
    """call prob.evaluate(x, **kw) with the immutability check; returns the output (or raises)."""
    h = _hash(x)
    out = prob.evaluate(x, **kw)
    if _hash(x) != h:
        _viol(ctx, f"evaluate-mutates-input:{label}",
                      f"{label}.evaluate modified the caller's input array", case,
                      detail={"after": np.asarray(x).tolist()})
    return out


# ------------------------------------------------------------------------------------------ generators
def _gen_lookup(rng, tier):
    d = rng.choice([1, 2, 2, 3, 4])
    m = rng.choice([1, 2, 2, 3])
    p = rng.choice([0, 1, 2, 3])
    n = rng.choice([1, 2, 3, 4, 6, 9, 12] + ([20, 40] if tier == "thorough" else []))
    shape = rng.choice(["ongrid", "offgrid", "midtie", "square", "dups", "far", "mixed"])
    if shape == "square" and d < 2:
        shape = "midtie"
    X = [[core.dyadic(rng, -8, 8, p) for _ in range(d)] for _ in range(n)]
    if shape == "square":
        c = [core.dyadic(rng, -4, 4, p) for _ in range(d)]
        r = rng.choice([1, 2, 3]) / float(2 ** p)
        corners = []
        for sx in (-1, 1):
            for sy in (-1, 1):
                v = list(c)
                v[0] += sx * r
                v[1] += sy * r
                corners.append(v)
        rng.shuffle(corners)
        extra = [[c[j] + rng.choice([-1, 1]) * (4 + rng.randint(0, 4)) for j in range(d)] for _ in range(rng.randint(0, 3))]
        X = corners + extra
        rng.shuffle(X)
        n = len(X)
    if shape == "dups" and n >= 2:
        for _ in range(rng.randint(1, n)):
            X[rng.randrange(n)] = list(X[rng.randrange(n)])
    Y = [[core.dyadic(rng, -16, 16, 2) for _ in range(m)] for _ in range(n)]
    single = rng.random() < 0.3
    k = 1 if single else rng.choice([1, 2, 3, 5, 8])
    xs = []
    for _ in range(k):
        kind = shape if shape != "mixed" else rng.choice(["ongrid", "offgrid", "midtie", "far"])
        if kind in ("ongrid", "dups"):
            xs.append(list(X[rng.randrange(n)]))
        elif kind == "offgrid":
            xs.append([core.dyadic(rng, -20, 20, p + 1) for _ in range(d)])
        elif kind == "midtie":
            a, b = X[rng.randrange(n)], X[rng.randrange(n)]
            xs.append([(u + v) / 2 for u, v in zip(a, b)])
        elif kind == "square":
            xs.append(list(c) if rng.random() < 0.7 else [core.dyadic(rng, -8, 8, p) for _ in range(d)])
        else:  # far
            xs.append([rng.choice([-1, 1]) * (32 + rng.randint(0, 8)) for _ in range(d)])
    r = rng.random()
    if r < 0.3:
        ix = None
    elif r < 0.55:
        ix = rng.randrange(m) if rng.random() < 0.85 else m + rng.randint(0, 1)
    else:
        rawlen = d if single else k
        L = rawlen if rng.random() < 0.8 else max(0, rawlen + rng.choice([-1, 1, 2]))
        ix = [rng.randrange(m) if rng.random() < 0.93 else m for _ in range(L)]
    return {"kind": "lookup", "shape": shape, "X": X, "Y": Y, "xs": xs, "single": single, "ix": ix}


def _rand_factor(rng, d, shape):
    p = 2
    if shape == "scalar":
        s = rng.choice([0.25, 0.5, 1.0, 1.5, 2.0])
        return [[s if i == j else 0.0 for j in range(d)] for i in range(d)]
    if shape == "diag":
        return [[(rng.randint(1, 12) / 2 ** p) if i == j else 0.0 for j in range(d)] for i in range(d)]
    if shape == "lower":
        L = [[0.0] * d for _ in range(d)]
        for i in range(d):
            for j in range(i):
                L[i][j] = rng.randint(-8, 8) / 2 ** p
            L[i][i] = rng.randint(1, 12) / 2 ** p
        if d >= 2 and all(L[i][j] == 0 for i in range(d) for j in range(i)):
            L[d - 1][0] = 0.5
        return L
    # symmetric positive factor (L = Lᵀ): LᵀL = L Lᵀ although it is not diagonal
    A = [[0.0] * d for _ in range(d)]
    for i in range(d):
        for j in range(i):
            A[i][j] = A[j][i] = rng.randint(-2, 2) / 2 ** p
        A[i][i] = 2.0 + rng.randint(0, 8) / 2 ** p
    return A


def _gen_neardup(rng):
    """NEAR-DUPLICATE designs: two distinct designs 2^-a apart (a = 10..24); queries ON either of them and at
    dyadic offsets 2^-b from their bisector on either side.  Two families keep every float operation of the
    ||x||^2 - 2xy + ||y||^2 expansion exact, so that the unchanged code decides them exactly:
      origin    the pair sits at the origin (all near terms are tiny few-bit numbers; b up to 30);
      lattice24 every coordinate is a multiple of 2^-24 with |coordinate| <= 1 (all terms multiples of 2^-48, < 16)."""
    fam = rng.choice(["origin", "lattice24"])
    d, m = rng.choice([1, 2, 2, 3]), rng.choice([1, 2, 3])
    if fam == "origin":
        a = rng.randint(10, 24)
        b = rng.randint(max(a + 2, 12), 30)
        base = [0.0] * d
    else:
        a = rng.randint(10, 22)
        b = rng.randint(a + 2, 24)
        base = [rng.randint(-6, 6) / 8.0 for _ in range(d)]
    axis = rng.randrange(d)
    sgn = rng.choice([-1.0, 1.0])
    h = sgn * 2.0 ** -a
    A = list(base)
    B = list(base)
    B[axis] += h
    far = []
    for _ in range(rng.randint(0, 4)):
        f = [rng.randint(-8, 8) / 8.0 for _ in range(d)]
        if max(abs(u - v) for u, v in zip(f, base)) >= 0.125 and f not in far:
            far.append(f)
    X = [A, B] + far
    rng.shuffle(X)
    n = len(X)
    Y, seen = [], set()
    while len(Y) < n:  # pairwise distinct objective rows: a wrong design is always visible
        r = tuple(core.dyadic(rng, -16, 16, 2) for _ in range(m))
        if r not in seen:
            seen.add(r)
            Y.append(list(r))
    single = rng.random() < 0.3
    k = 1 if single else rng.choice([1, 2, 3, 5])
    xs = []
    for _ in range(k):
        t = rng.choice(["onA", "onB", "bisect+", "bisect-", "bisect+", "bisect-", "bisect0", "far"])
        q = list(base)
        if t == "onB":
            q = list(B)
        elif t.startswith("bisect"):
            q[axis] += h / 2
            if t != "bisect0":
                q[axis] += (1.0 if t == "bisect+" else -1.0) * 2.0 ** -b
        elif t == "far" and far:
            q = list(rng.choice(far))
        xs.append(q)
    r = rng.random()
    if r < 0.4:
        ix = None
    elif r < 0.6:
        ix = rng.randrange(m)
    else:
        ix = [rng.randrange(m) for _ in range(d if single else k)]
    return {"kind": "lookup", "shape": "neardup", "family": fam, "a": a, "b": b, "X": X, "Y": Y, "xs": xs,
            "single": single, "ix": ix}


def _gen_noise_util(rng):
    d = rng.choice([1, 2, 2, 3, 3, 4])
    shape = rng.choice(["scalar", "diag", "lower", "lower", "symm"]) if d > 1 else rng.choice(["scalar", "diag"])
    L = _rand_factor(rng, d, shape)
    n = rng.choice([1, 2, 3, 5])
    F = [[core.dyadic(rng, -16, 16, 2) for _ in range(d)] for _ in range(n)]
    Z = [[core.dyadic(rng, -8, 8, 2) for _ in range(d)] for _ in range(n)]
    return {"kind": "noise-util", "shape": shape, "L": L, "F": F, "Z": Z}


def _gen_noise_prob(rng):
    which = rng.choice(["dataset", "dataset", "linear", "branin", "dataset-correlated", "decoupled"])
    exact_vars = [0.25, 1.0, 4.0, 0.0625, 2.25, 0.015625]
    other_vars = [0.1, 0.01, 1e-5, 0.3, 2.0, 0.5, 3.0]
    nv = rng.choice(exact_vars) if rng.random() < 0.6 else rng.choice(other_vars)
    m = 2 if which == "branin" else rng.choice([1, 2, 3])
    case = {"kind": "noise-prob", "which": which, "noise_var": nv, "m": m}
    d = rng.choice([1, 2, 3])
    case["d"] = 2 if which == "branin" else d
    n = rng.choice([2, 3, 5])
    X = []
    while len(X) < n:  # distinct designs, so that the value at a design is determined
        r = [core.dyadic(rng, -8, 8, 1) for _ in range(case["d"])]
        if r not in X:
            X.append(r)
    case["X"] = X
    case["Y"] = [[core.dyadic(rng, -16, 16, 2) for _ in range(m)] for _ in range(n)]
    k = rng.choice([1, 2, 4])
    case["q"] = [rng.randrange(n) for _ in range(k)]
    case["Z"] = [[core.dyadic(rng, -8, 8, 2) for _ in range(m)] for _ in range(k)]
    if which == "dataset-correlated":
        case["L"] = _rand_factor(rng, m, "lower" if m > 1 else "diag")
    if which == "linear":
        case["A"] = [[core.dyadic(rng, -4, 4, 1) for _ in range(m)] for _ in range(case["d"])]
    if which == "branin":
        case["xs"] = [[rng.randint(0, 32) / 32.0, rng.randint(1, 32) / 32.0] for _ in range(k)]
    return case


def _gen_continuous(rng):
    which = rng.choice(["branin", "branin", "linear"])
    single = rng.random() < 0.35
    k = 1 if single else rng.choice([1, 2, 4, 7])
    if which == "branin":
        shape = rng.choice(["grid", "zero-x1", "zero-x0", "interior", "corner"])
        xs = []
        for _ in range(k):
            a, b = rng.randint(0, 32) / 32.0, rng.randint(0, 32) / 32.0
            if shape == "zero-x1":
                b = 0.0
            elif shape == "zero-x0":
                a, b = 0.0, max(b, 1 / 32.0)
            elif shape == "interior":
                a, b = rng.uniform(0.01, 0.99), rng.uniform(0.01, 0.99)
            elif shape == "corner":
                a, b = float(rng.choice([0, 1])), float(rng.choice([0, 1]))
            xs.append([a, b])
        return {"kind": "continuous", "which": which, "shape": shape, "xs": xs, "single": single}
    d, m = rng.choice([1, 2, 3]), rng.choice([1, 2, 3])
    return {"kind": "continuous", "which": which, "shape": "linear", "single": single,
            "A": [[core.dyadic(rng, -4, 4, 1) for _ in range(m)] for _ in range(d)],
            "b": [core.dyadic(rng, -4, 4, 1) for _ in range(m)],
            "xs": [[core.dyadic(rng, -8, 8, 2) for _ in range(d)] for _ in range(k)]}


def _gen_synth_ds(rng):
    n = rng.choice([2, 3, 4, 5, 8])
    d, m = rng.choice([1, 2, 3]), rng.choice([1, 2])
    shape = rng.choice(["dyadic", "dyadic", "pow2range", "constcol", "floats", "unitstd", "badcard"])
    if shape == "floats":
        ins = [[rng.uniform(-5, 5) for _ in range(d)] for _ in range(n)]
        outs = [[rng.gauss(0, 3) for _ in range(m)] for _ in range(n)]
    else:
        ins = [[core.dyadic(rng, -16, 16, 2) for _ in range(d)] for _ in range(n)]
        outs = [[core.dyadic(rng, -16, 16, 2) for _ in range(m)] for _ in range(n)]
    if shape == "pow2range":
        for j in range(d):
            lo = core.dyadic(rng, -8, 8, 2)
            r = rng.choice([0.5, 1.0, 2.0, 4.0])
            col = [lo, lo + r] + [lo + r * rng.randint(0, 8) / 8.0 for _ in range(n - 2)]
            rng.shuffle(col)
            for i in range(n):
                ins[i][j] = col[i]
    if shape == "constcol":
        j = rng.randrange(d)
        for i in range(n):
            ins[i][j] = ins[0][j]
        if rng.random() < 0.5:
            j = rng.randrange(m)
            for i in range(n):
                outs[i][j] = outs[0][j]
    if shape == "unitstd":
        # columns a ± s: population std exactly s (perfect square variance)
        n = rng.choice([2, 4, 6])
        ins = [[core.dyadic(rng, -16, 16, 2) for _ in range(d)] for _ in range(n)]
        outs = [[0.0] * m for _ in range(n)]
        for j in range(m):
            a, s = core.dyadic(rng, -8, 8, 1), rng.choice([0.5, 1.0, 2.0, 4.0])
            col = [a - s] * (n // 2) + [a + s] * (n // 2)
            rng.shuffle(col)
            for i in range(n):
                outs[i][j] = col[i]
    return {"kind": "synth-ds", "shape": shape, "in": ins, "out": outs,
            "card": (len(ins) + 1) if shape == "badcard" else len(ins)}


def _gen_roundtrip(rng):
    n, d = rng.choice([1, 2, 3, 6]), rng.choice([1, 2, 3])
    shape = rng.choice(["dyadic-pow2", "dyadic-pow2", "dyadic", "floats", "badlen", "negrange"])
    if shape == "floats":
        bounds = []
        for _ in range(d):
            lo = rng.uniform(-10, 10)
            bounds.append([lo, lo + rng.uniform(0.1, 20)])
        data = [[rng.uniform(-20, 20) for _ in range(d)] for _ in range(n)]
    else:
        bounds = []
        for _ in range(d):
            lo = core.dyadic(rng, -16, 16, 2)
            if shape == "dyadic-pow2":
                w = rng.choice([0.25, 0.5, 1.0, 2.0, 4.0, 8.0])
            elif shape == "negrange":
                w = -rng.choice([0.5, 1.0, 2.0, 3.0])
            else:
                w = rng.randint(1, 24) / 4.0
            bounds.append([lo, lo + w])
        data = [[core.dyadic(rng, -32, 32, 3) for _ in range(d)] for _ in range(n)]
    if shape == "badlen":
        if rng.random() < 0.5 or d == 1:
            bounds = bounds + [[0.0, 1.0]]
        else:
            bounds = bounds[:-1]
    return {"kind": "roundtrip", "shape": shape, "data": data, "bounds": bounds}



def _gen_history(rng):
    via = rng.choice(["dataset", "dataset", "dataset", "decoupled", "decoupled", "linear", "branin"])
    single = rng.random() < 0.3
    k = 1 if single else rng.choice([1, 2, 3, 4])
    T = rng.choice([2, 3, 3, 4, 5])
    case = {"kind": "history", "via": via, "single": single, "scribble": rng.random() < 0.6}
    if via == "branin":
        d, m = 2, 2
        pts = lambda: [rng.randint(0, 32) / 32.0, rng.randint(0, 32) / 32.0]
        on = None
    else:
        d, m = rng.choice([1, 2, 2, 3]), rng.choice([1, 2, 3])
        p = rng.choice([0, 1, 2])
        n = rng.choice([2, 3, 5, 8])
        X = []
        while len(X) < n:
            r = [core.dyadic(rng, -8, 8, p) for _ in range(d)]
            if r not in X or rng.random() < 0.1:
                X.append(r)
        case["X"] = X
        case["Y"] = [[core.dyadic(rng, -16, 16, 2) for _ in range(m)] for _ in range(n)]
        if via == "linear":
            case["A"] = [[core.dyadic(rng, -4, 4, 1) for _ in range(m)] for _ in range(d)]
            case["b"] = [core.dyadic(rng, -4, 4, 1) for _ in range(m)]
        on = X
        pts = lambda: [core.dyadic(rng, -20, 20, p + 1) for _ in range(d)]
    steps, noisy, ixs = [], [], []
    for t in range(T):
        r = rng.random()
        if t > 0 and r < 0.15:
            cur = [list(row) for row in steps[-1]]          # identical contents: a legitimate cache hit
        elif t > 0 and r < 0.35 and k > 1:
            cur = [list(row) for row in steps[-1]]          # one row changed only
            cur[rng.randrange(k)] = list(on[rng.randrange(len(on))]) if on and rng.random() < 0.5 else pts()
        else:
            cur = [(list(on[rng.randrange(len(on))]) if on and rng.random() < 0.5 else pts()) for _ in range(k)]
        steps.append(cur)
        noisy.append(rng.random() < 0.25)
        if via == "decoupled":
            q = rng.random()
            if q < 0.3:
                ixs.append(None)
            elif q < 0.6 or single:
                ixs.append(rng.randrange(m))
            else:
                ixs.append([rng.randrange(m) for _ in range(k)])
        else:
            ixs.append(None)
    case.update({"steps": steps, "noisy": noisy, "ixs": ixs, "m": m})
    return case


SCRIBBLES = ["units", "flip", "const", "rebind"]
CONSUMERS = ["get", "problem", "naive"]


FLAG_VIAS = ["dataset", "linear", "branin", "dec-dataset", "dec-linear", "dec-branin"]
FLAG_MODES = ["false_kw", "true_kw", "default", "false_pos", "true_pos"]


def _flag_history_case(rng, via, modes, single=None, noise_var=None, bundled=None, forms=None):
    dec = via.startswith("dec-")
    base = via[4:] if dec else via
    single = (rng.random() < 0.3) if single is None else single
    k = 1 if single else rng.choice([1, 2, 3])
    nv = noise_var if noise_var is not None else rng.choice([0.25, 1.0, 4.0, 0.0625, 0.1, 0.04])
    case = {"kind": "flag-hist", "via": via, "single": single, "noise_var": nv}
    if base == "branin":
        d, m = 2, 2
        pt = lambda: [rng.randint(0, 32) / 32.0, rng.randint(1, 32) / 32.0]
    elif bundled:
        card, d, m = DECLARED[bundled]
        case["bundled"] = bundled
        pt = lambda: [rng.randint(0, 16) / 16.0 for _ in range(d)]
    else:
        d, m = rng.choice([1, 2, 3]), rng.choice([1, 2, 3])
        n = rng.choice([2, 3, 5])
        X = []
        while len(X) < n:
            r = [core.dyadic(rng, -8, 8, 1) for _ in range(d)]
            if r not in X:
                X.append(r)
        case["X"] = X
        case["Y"] = [[core.dyadic(rng, -16, 16, 2) for _ in range(m)] for _ in range(n)]
        if base == "linear":
            case["A"] = [[core.dyadic(rng, -4, 4, 1) for _ in range(m)] for _ in range(d)]
            case["b"] = [core.dyadic(rng, -4, 4, 1) for _ in range(m)]
        pt = lambda: (list(X[rng.randrange(n)]) if rng.random() < 0.5 else
                      [core.dyadic(rng, -20, 20, 2) for _ in range(d)])
    calls = []
    for mode in modes:
        if dec and mode.endswith("_pos"):
            mode = mode[:-4] + "_kw"          # the wrapper takes `noisy` by keyword only
        q = rng.random()
        if not dec or q < 0.3:
            ix = None
        elif q < 0.6 or single:
            ix = rng.randrange(m)
        else:
            ix = [rng.randrange(m) for _ in range(k)]
        Z = [[rng.choice([-1, 1]) * rng.randint(1, 8) / 4.0 for _ in range(m)] for _ in range(k)]  # no zero entry
        calls.append({"mode": mode, "xs": [pt() for _ in range(k)], "ix": ix, "ix_pos": rng.random() < 0.5,
                      "Z": Z, "real_rng": rng.random() < 0.15, "seed": rng.randrange(2 ** 31),
                      # how the caller holds the flag: the literal, or a numpy bool (`noise_var > 0`, a mask entry)
                      "form": (forms[len(calls) % len(forms)] if forms else rng.choice(["literal", "literal", "npbool"]))})
    case.update({"calls": calls, "m": m, "d": d})
    return case


def _gen_flag_history(rng):
    via = rng.choice(FLAG_VIAS)
    T = rng.choice([3, 4, 5, 6, 7])
    modes = [rng.choice(FLAG_MODES) for _ in range(T)]
    if rng.random() < 0.6:                       # make sure the False -> default pattern occurs often
        i = rng.randrange(T - 1)
        modes[i], modes[i + 1] = rng.choice(["false_kw", "false_pos"]), "default"
    return _flag_history_case(rng, via, modes)

def _gen_moments(rng):
    which = rng.choice(["dataset", "linear", "branin", "util-diag", "util-lower"])
    m = 2 if which == "branin" else rng.choice([1, 2, 3])
    case = {"kind": "moments", "which": which, "m": m, "seed": rng.randrange(2 ** 31), "N": 20000,
            "noise_var": rng.choice([0.01, 0.1, 0.25, 1.0, 2.0])}
    if which == "util-lower":
        case["m"] = m = max(2, m)
    if which.startswith("util"):
        case["L"] = _rand_factor(rng, m, "lower" if which == "util-lower" else "diag")
    return case


def gen(ctx):
    rng = ctx.rng
    # deterministic part: bundled datasets (worker-sharded)
    k = 0
    for name in DECLARED:
        for part in ["scaling", "lookup"]:
            reps = 1 if part == "scaling" else (2 if ctx.tier == "quick" else 6)
            for r in range(reps):
                k += 1
                if k % ctx.nworkers != ctx.worker:
                    continue
                yield {"kind": "bundled", "name": name, "part": part, "seed": rng.randrange(2 ** 31)}
    # dataset freshness (deterministic list, worker-sharded)
    combos = [(nm, sc, co) for nm in DECLARED for sc in SCRIBBLES for co in CONSUMERS]
    if ctx.tier == "quick":
        combos = [(nm, SCRIBBLES[(i + ctx.seed) % 4], CONSUMERS[(i + ctx.seed) % 3]) for i, nm in enumerate(DECLARED)] + \
                 [("Test", "units", "naive"), ("Test", "flip", "get")]
    for i, (nm, sc, co) in enumerate(combos):
        if i % ctx.nworkers == ctx.worker:
            yield {"kind": "fresh-ds", "name": nm, "scribble": sc, "consumer": co}
    # noisy-flag histories: one fixed pattern per problem class in EVERY run (worker-sharded)
    fixed = random.Random(f"c20-flag:{ctx.seed}")
    for i, via in enumerate(FLAG_VIAS):
        for j, modes in enumerate([["false_kw", "default", "true_kw", "default", "false_kw"],
                                   ["default", "false_pos", "default", "default"]]):
            c = _flag_history_case(fixed, via, modes, single=(j == 1 and i % 2 == 0), forms=["literal"])
            if (2 * i + j) % ctx.nworkers == ctx.worker:
                yield c
        # the same flag values held as numpy bools (what `noise_var > 0` or a boolean-mask entry gives the caller)
        c = _flag_history_case(fixed, via, ["false_kw", "true_kw", "false_kw", "default", "false_kw"],
                               single=(i % 2 == 1), forms=["npbool", "literal", "npbool", "literal", "npbool"])
        if i % ctx.nworkers == ctx.worker:
            yield c
    # (hand-picked regression cases live in corpus/C20/ and run first)
    kinds = [("lookup", 45), ("noise-util", 12), ("noise-prob", 12), ("continuous", 9), ("synth-ds", 9),
             ("roundtrip", 13), ("history", 14), ("neardup", 14), ("flag-hist", 12)]
    if ctx.tier == "thorough":
        for _ in range(ctx.n(0, 140)):
            yield _gen_moments(rng)
    names = [k for k, _ in kinds]
    weights = [w for _, w in kinds]
    for _ in range(ctx.n(600, 30000)):
        kind = rng.choices(names, weights)[0]
        if kind == "lookup":
            yield _gen_lookup(rng, ctx.tier)
        elif kind == "noise-util":
            yield _gen_noise_util(rng)
        elif kind == "noise-prob":
            yield _gen_noise_prob(rng)
        elif kind == "continuous":
            yield _gen_continuous(rng)
        elif kind == "synth-ds":
            yield _gen_synth_ds(rng)
        elif kind == "history":
            yield _gen_history(rng)
        elif kind == "neardup":
            yield _gen_neardup(rng)
        elif kind == "flag-hist":
            yield _gen_flag_history(rng)
        else:
            yield _gen_roundtrip(rng)


# ------------------------------------------------------------------------------------------ runners
def _run_lookup(ctx, case):
    from vopy.maximization_problem import DecoupledEvaluationProblem, ProblemFromDataset

    X, Y, xs = case["X"], case["Y"], case["xs"]
    n, m, d = len(X), len(Y[0]), len(X[0])
    ds = _synthetic_dataset(X, Y)
    prob = ProblemFromDataset(ds, 0.25)
    x = np.array(xs[0], dtype=float) if case["single"] else np.array(xs, dtype=float)
    ctx.count("lookup_shape_" + case["shape"])
    ctx.count("lookup_single" if case["single"] else "lookup_batch")
    Xh, Yh = _hash(ds.in_data), _hash(ds.out_data)
    try:
        out = _evaluate_checked(ctx, case, prob, x, "ProblemFromDataset", noisy=False)
    except Exception as e:
        _viol(ctx, "lookup-crash:" + core.exc_key(e),
                      f"ProblemFromDataset.evaluate raised {type(e).__name__}: {e}", case)
        return
    if (_hash(ds.in_data), _hash(ds.out_data)) != (Xh, Yh):
        _viol(ctx, "evaluate-mutates-dataset", "evaluate modified the dataset arrays", case)
    out = np.asarray(out)
    if out.shape != (len(xs), m):
        _viol(ctx, "lookup-shape", f"evaluate returned shape {out.shape}, expected {(len(xs), m)}", case)
        return
    Xs, Ys = core.qmat(X), core.qmat(Y)
    # (R): every returned row is the objective vector of a design at minimum distance
    tie = False
    for r, q in enumerate(xs):
        band = core.parse_nats(ctx.ask("band", core.qvec(q), Xs, "0"))
        if len({tuple(Y[j]) for j in band}) > 1:
            tie = True
        if not any(_rows_equal(out[r], Y[j]) for j in band):
            _viol(ctx, "lookup-not-nearest",
                          "evaluate(noisy=False) returned a row that is not the value of a nearest design",
                          case, detail={"row": r, "impl": out[r].tolist(), "nearest": band})
            return
    ctx.count("lookup_tie" if tie else "lookup_unique")
    # (F): equals the model (first index among ties = np.argmin)
    model = ctx.ask("eval", Xs, Ys, core.qmat(xs))
    if model in ("none", core_bad()):
        _viol(ctx, "lookup-model-none", "model gave no answer: " + model, case, kind="F")
        return
    if not _rows_equal(out, _fr_mat(model)):
        ctx.count("tie_choice_differs_info")  # only reachable on a tie (unique case is caught by (R))
    # ---- decoupled evaluation
    ix = case["ix"]
    dec = DecoupledEvaluationProblem(prob)
    ctx.count("ix_" + ("all" if ix is None else "int" if isinstance(ix, int) else "list"))
    rawlen = len(x)
    try:
        got = _evaluate_checked(ctx, case, dec, x, "DecoupledEvaluationProblem", evaluation_index=ix, noisy=False)
        got_s = None
    except (ValueError, IndexError) as e:
        got, got_s = None, type(e).__name__
    except Exception as e:
        _viol(ctx, "decoupled-crash:" + core.exc_key(e),
                      f"DecoupledEvaluationProblem.evaluate raised {type(e).__name__}: {e}", case)
        return
    # what the property demands, from the implementation's own full evaluation `out`
    if ix is None:
        want = ("full", out)
    elif isinstance(ix, int):
        want = ("v", out[:, ix]) if ix < m else ("IndexError", None)
    else:
        if len(ix) != rawlen:
            want = ("ValueError", None)
        elif len(ix) != len(xs) or any(k >= m for k in ix):
            want = ("IndexError", None)
        else:
            want = ("v", np.array([out[r, k] for r, k in enumerate(ix)]))
    if case["single"] and isinstance(ix, list) and len(ix) == 1 and rawlen != 1 and ix[0] < m:
        # a single 1-D point with a one-element index list is rejected because len(x) == in_dim
        ctx.count("single_point_list_index_rejected_info")
    if want[0] in ("ValueError", "IndexError"):
        if got_s != want[0]:
            _viol(ctx, "decoupled-guard", f"malformed evaluation_index: expected {want[0]}, got "
                          f"{got_s or 'a value'}", case, kind="F")
        ctx.count("decoupled_" + want[0])
    else:
        if got_s is not None:
            _viol(ctx, "decoupled-raised:" + got_s,
                          f"valid evaluation_index {ix!r} raised {got_s}", case)
        elif not _rows_equal(np.asarray(got), want[1]):
            _viol(ctx, "decoupled-components",
                          "decoupled evaluation is not the requested component(s) of the full evaluation",
                          case, detail={"impl": np.asarray(got).tolist(), "want": np.asarray(want[1]).tolist()})
        ctx.count("decoupled_value")
    # (F) against the model's `decoupled` on the implementation's full evaluation
    ans = ctx.ask("dec", str(rawlen), core.qmat(out.tolist()), _ix_str(ix))
    if got_s is not None:
        same = ans == got_s
    elif ans.startswith("full:"):
        same = _rows_equal(got, _fr_mat(ans[5:]))
    elif ans.startswith("v:"):
        same = _rows_equal(np.asarray(got).reshape(-1), [float(v) for v in core.parse_qvec(ans[2:])])
    else:
        same = False
    if not same:
        _viol(ctx, "decoupled-model", "DecoupledEvaluationProblem.evaluate differs from the model's selection",
                      case, kind="F", detail={"model": ans, "impl": got_s or np.asarray(got).tolist()})
    nontrivial = n >= 2 and (tie or case["shape"] in ("offgrid", "far", "mixed", "square", "neardup") or ix is not None)
    ctx.case_done(case, nontrivial, canon=[X, Y, xs, case["single"], ix])


def core_bad():
    return "bad-op"


def _read_off(ctx, case, call, d, label):
    """Run `call()` (which must draw one (d, d)-shaped normal matrix) with the draw patched to the
    identity; returns the output matrix or None (violation recorded)."""
    with _PatchedNormal(np.eye(d)) as pn:
        try:
            out = call()
        except Exception as e:
            _viol(ctx, f"noise-crash:{label}:" + core.exc_key(e), f"noisy evaluation raised {type(e).__name__}: {e}", case)
            return None
    if pn.calls != [(d, d)]:
        # not fatal: every draw is the identity, so the read-off below is the SUM of the matrices applied
        _viol(ctx, "noise-draws", f"{label}: expected one standard-normal draw of size {(d, d)}, saw {pn.calls}",
              case, kind="F")
    out = np.asarray(out, dtype=float)
    if out.shape != (d, d) or not np.all(np.isfinite(out)):
        _viol(ctx, "noise-shape", f"{label}: noisy evaluation has shape {out.shape} / non-finite entries", case)
        return None
    return out


def _cov_verdict(ctx, case, M, L, label, tol=None, sigma=None):
    """(R): the covariance MᵀM of the applied matrix equals the configured one (L Lᵀ or sigma)."""
    Ms = core.qmat(M.tolist())
    if sigma is None:
        ok = ctx.ask("covok", Ms, core.qmat(L)) == "ok"
    else:
        ok = ctx.ask("covclose", core.q(tol), Ms, core.qmat(sigma)) == "ok"
    if ok:
        ctx.count("cov_ok")
        return True
    d5 = L is not None and _rows_equal(M, L) and ctx.ask("covok", core.qmat(np.array(L).T.tolist()), core.qmat(L)) == "ok"
    if d5:
        _viol(ctx, "noise-cov-LtL-not-LLt",
                      f"{label}: rows are multiplied by the lower factor L itself (X @ L), so the noise covariance is "
                      "LᵀL, not the configured L Lᵀ", case,
                      detail={"applied_M": M.tolist(), "gram_M": ctx.ask("gram", Ms),
                              "configured": ctx.ask("llt", core.qmat(L))})
    else:
        _viol(ctx, "noise-cov-wrong", f"{label}: covariance MᵀM of the applied matrix differs from the configured "
                      "covariance", case, detail={"applied_M": M.tolist(), "gram_M": ctx.ask("gram", Ms)})
    return False


def _run_noise_util(ctx, case):
    from vopy.utils import get_noisy_evaluations_chol

    L, F, Z = case["L"], case["F"], case["Z"]
    d = len(L)
    ctx.count("noiseutil_shape_" + case["shape"])
    La = np.array(L, dtype=float)
    M = _read_off(ctx, case, lambda: get_noisy_evaluations_chol(np.zeros((d, d)), La.copy()), d, "get_noisy_evaluations_chol")
    if M is None:
        return
    # information only: the property fixes the covariance MᵀM, not M itself (any M with MᵀM = L Lᵀ is right);
    # the model's `appliedM L = L` records what the code does today
    if _rows_equal(M, _fr_mat(ctx.ask("applied", core.qmat(L)))):
        ctx.count("applied_M_is_model_appliedM_info")
    elif _rows_equal(M, La.T):
        ctx.count("applied_M_is_L_transposed_info")
    else:
        ctx.count("applied_M_other_info")
    _cov_verdict(ctx, case, M, L, "get_noisy_evaluations_chol")
    # affine map on an arbitrary dyadic draw: y = f + z·M exactly
    Fa, Za = np.array(F, dtype=float), np.array(Z, dtype=float)
    hF, hL = _hash(Fa), _hash(La)
    with _PatchedNormal(Za) as pn:
        try:
            y = np.asarray(get_noisy_evaluations_chol(Fa, La))
        except Exception as e:
            _viol(ctx, "noise-crash:util:" + core.exc_key(e), f"raised {type(e).__name__}: {e}", case)
            return
    if (_hash(Fa), _hash(La)) != (hF, hL):
        _viol(ctx, "noise-mutates-input", "get_noisy_evaluations_chol modified its arguments", case)
    want = _fr_mat(ctx.ask("noisy", core.qmat(F), core.qmat(Z), core.qmat(M.tolist())))
    if not _rows_equal(y, want):
        _viol(ctx, "noise-map", "noisy samples differ from f + z·M for the applied matrix M", case,
                      detail={"impl": y.tolist(), "want": want})
    ctx.case_done(case, case["shape"] != "scalar" or any(any(v != 0 for v in r) for r in Z),
                  canon=[L, F, Z])


def _linear_problem(A, b, noise_var):
    from vopy.maximization_problem import ContinuousProblem

    A_, b_ = np.array(A, dtype=float), np.array(b, dtype=float)

    class Lin(ContinuousProblem):
        out_dim = A_.shape[1]
        in_dim = A_.shape[0]

        def evaluate_true(self, x):
            return x @ A_ + b_

    return Lin(noise_var)


def _run_noise_prob(ctx, case):
    from vopy.maximization_problem import BraninCurrin, DecoupledEvaluationProblem, ProblemFromDataset

    which, nv, m = case["which"], case["noise_var"], case["m"]
    ctx.count("noiseprob_" + which)
    X, Y, q, Z = case["X"], case["Y"], case["q"], case["Z"]
    zero_row = [0.0] * m
    if which in ("dataset", "dataset-correlated", "decoupled"):
        Y0 = [list(r) for r in Y] + [zero_row]
        X0 = [list(r) for r in X] + [[64.0] * case["d"]]  # far design with objective vector 0
        ds = _synthetic_dataset(X0, Y0)
        prob = ProblemFromDataset(ds, nv)
        label = "ProblemFromDataset"
        if which == "dataset-correlated":
            prob.noise_cholesky = np.array(case["L"], dtype=float)
        if which == "decoupled":
            inner = prob
            prob = SimpleNamespace(evaluate=lambda x, noisy=True: DecoupledEvaluationProblem(inner).evaluate(x, None, noisy=noisy),
                                   noise_cholesky=inner.noise_cholesky)
            label = "DecoupledEvaluationProblem"
        x_zero = np.array([[64.0] * case["d"]] * m)
        xq = np.array([X[i] for i in q], dtype=float)
        f_q = [Y[i] for i in q]
    elif which == "linear":
        prob = _linear_problem(case["A"], zero_row, nv)
        label = "ContinuousProblem"
        x_zero = np.zeros((m, case["d"]))
        xq = np.array([X[i] for i in q], dtype=float)
        f_q = None
    else:
        prob = BraninCurrin(nv)
        label = "BraninCurrin"
        x_zero = None
        xq = np.array(case["xs"], dtype=float)
        f_q = None
    Lcfg = np.asarray(prob.noise_cholesky, dtype=float)
    fr_nv = core.frac(nv)
    exact = which != "branin"
    # ---- read the applied matrix off
    if exact:
        M = _read_off(ctx, case, lambda: _evaluate_checked(ctx, case, prob, x_zero, label, noisy=True), m, label)
        if M is None:
            return
    else:
        xb = np.array([[0.5, 0.5]] * m)
        f0 = np.asarray(prob.evaluate(xb.copy(), noisy=False))
        Mn = _read_off(ctx, case, lambda: _evaluate_checked(ctx, case, prob, xb, label, noisy=True), m, label)
        if Mn is None:
            return
        M = Mn - f0
    if which == "dataset-correlated":
        _cov_verdict(ctx, case, M, case["L"], label + " with a correlated noise_cholesky")
    else:
        # configured covariance: noise_var · I.  sqrt(noise_var) is exact for the dyadic perfect squares
        sq_exact = exact and Fraction(math.isqrt(fr_nv.numerator)) ** 2 == fr_nv.numerator and \
            Fraction(math.isqrt(fr_nv.denominator)) ** 2 == fr_nv.denominator
        tol = Fraction(0) if sq_exact else Fraction(1, 10 ** 12) * max(1, fr_nv) if exact else Fraction(1, 10 ** 9) * max(1, fr_nv)
        sigma = [[fr_nv if i == j else Fraction(0) for j in range(m)] for i in range(m)]
        ctx.count("cov_exact" if sq_exact else "cov_tol")
        _cov_verdict(ctx, case, M, None, label, tol=tol, sigma=sigma)
        if exact:
            ctx.count("applied_M_is_noise_cholesky_info" if _rows_equal(M, Lcfg) else "applied_M_other_info")
    # ---- affine map on a dyadic draw (exact where f and the factor are dyadic)
    Za = np.array(Z, dtype=float)
    f_true = np.asarray(prob.evaluate(xq.copy(), noisy=False), dtype=float)
    if f_q is not None and not _rows_equal(f_true, f_q):
        _viol(ctx, "lookup-not-nearest", "noiseless evaluation at a design is not that design's value", case)
    with _PatchedNormal(Za) as pn:
        try:
            y = np.asarray(_evaluate_checked(ctx, case, prob, xq, label, noisy=True), dtype=float)
        except Exception as e:
            _viol(ctx, f"noise-crash:{label}:" + core.exc_key(e), f"raised {type(e).__name__}: {e}", case)
            return
    if pn.calls != [(len(xq), m)]:
        _viol(ctx, "noise-draws", f"{label}: expected one standard-normal draw of size {(len(xq), m)}, saw {pn.calls}",
                      case, kind="F")
    dy_exact = exact and all(core.frac(v).denominator <= 2 ** 20 for v in M.reshape(-1))
    if dy_exact:
        want = _fr_mat(ctx.ask("noisy", core.qmat(f_true.tolist()), core.qmat(Z), core.qmat(M.tolist())))
        if not _rows_equal(y, want):
            _viol(ctx, "noise-map", f"{label}: noisy evaluation differs from f + z·M", case,
                          detail={"impl": y.tolist(), "want": want})
        ctx.count("noise_map_exact")
    else:
        want = f_true + Za @ M
        if not np.allclose(y, want, rtol=1e-9, atol=1e-9):
            _viol(ctx, "noise-map", f"{label}: noisy evaluation differs from f + z·M (1e-9)", case,
                          detail={"impl": y.tolist(), "want": want.tolist()})
        ctx.count("noise_map_tol")
    ctx.case_done(case, True, canon=case)


def _run_continuous(ctx, case):
    from vopy.maximization_problem import BraninCurrin

    xs = case["xs"]
    ctx.count("continuous_" + case["which"] + "_" + case["shape"])
    if case["which"] == "branin":
        prob, label, m = BraninCurrin(0.25), "BraninCurrin", 2
    else:
        prob, label, m = _linear_problem(case["A"], case["b"], 0.25), "ContinuousProblem", len(case["b"])
    x = np.array(xs[0], dtype=float) if case["single"] else np.array(xs, dtype=float)
    pristine = np.array(xs, dtype=float)
    try:
        ref = np.asarray(prob.evaluate_true(pristine.copy()), dtype=float)  # on a private copy
        out = np.asarray(_evaluate_checked(ctx, case, prob, x, label, noisy=False), dtype=float)
        out2 = np.asarray(prob.evaluate(pristine.copy(), noisy=False), dtype=float)
    except Exception as e:
        _viol(ctx, f"continuous-crash:{label}:" + core.exc_key(e), f"evaluate raised {type(e).__name__}: {e}", case)
        return
    if out.shape != (len(xs), m):
        _viol(ctx, "continuous-shape", f"{label}.evaluate returned shape {out.shape}, expected {(len(xs), m)}", case)
        return
    if not (_rows_equal(out, ref) and _rows_equal(out2, ref)):
        _viol(ctx, "continuous-not-true-value", f"{label}.evaluate(noisy=False) differs from evaluate_true on a copy",
                      case, detail={"impl": out.tolist(), "ref": ref.tolist()})
    if not np.all(np.isfinite(out)):
        _viol(ctx, "continuous-nonfinite", f"{label}.evaluate returned a non-finite value", case)
    if case["which"] == "linear":
        # exact affine map through the model: f = b + x·A
        F = [case["b"]] * len(xs)
        want = _fr_mat(ctx.ask("noisy", core.qmat(F), core.qmat(xs), core.qmat(case["A"])))
        if not _rows_equal(out, want):
            _viol(ctx, "continuous-linear", "synthetic linear problem: evaluate differs from b + x·A", case, kind="F")
    ctx.case_done(case, True, canon=[case["which"], xs, case["single"], case.get("A"), case.get("b")])


def _columns(a):
    a = np.asarray(a, dtype=float)
    return [a[:, j].tolist() for j in range(a.shape[1])]


def _check_scaling(ctx, case, raw_in, raw_out, in_data, out_data, label):
    """scaled arrays vs the model's scaling of the raw arrays + the property's own criteria"""
    ok = True
    t12, t9 = core.q(Fraction(1, 10 ** 12)), core.q(Fraction(1, 10 ** 9))
    for j, (raw, col) in enumerate(zip(_columns(raw_in), _columns(in_data))):
        const = len(set(raw)) == 1
        if not const and ctx.ask("scaled", t12, core.qvec(col)) != "ok":
            _viol(ctx, "scaling-input-range", f"{label}: input column {j} does not have min 0 / max 1 (1e-12)", case,
                          detail={"stats": ctx.ask("colstats", core.qvec(col))})
            ok = False
        if ctx.ask("minmaxclose", t12, core.qvec(raw), core.qvec(col)) != "ok":
            _viol(ctx, "scaling-input-model", f"{label}: input column {j} differs from the model's minMax of the raw "
                          "column (1e-12)", case, kind="F")
            ok = False
        elif core.parse_qvec(ctx.ask("minmax", core.qvec(raw))) == [core.frac(v) for v in col]:
            ctx.count("minmax_exact_equal_info")
    for j, (raw, col) in enumerate(zip(_columns(raw_out), _columns(out_data))):
        const = len(set(raw)) == 1
        if const:
            if any(v != 0 for v in col):
                _viol(ctx, "scaling-output-model", f"{label}: constant objective column {j} is not mapped to 0", case,
                              kind="F")
            ctx.count("std_constant_column")
            continue
        if ctx.ask("moments", t9, core.qvec(col)) != "ok":
            _viol(ctx, "scaling-output-moments", f"{label}: objective column {j} does not have mean 0 / population "
                          "variance 1 (1e-9, exact arithmetic on the exported floats)", case,
                          detail={"stats": ctx.ask("colstats", core.qvec(col))})
            ok = False
        if ctx.ask("stdfclose", t9, core.qvec(raw), core.qvec(col)) != "ok":
            _viol(ctx, "scaling-output-model", f"{label}: objective column {j} differs from the model's "
                          "standardisation of the raw column (1e-9)", case, kind="F")
            ok = False
        ex = ctx.ask("std", core.qvec(raw))
        if ex != "irrational":
            ctx.count("std_rational")
            if core.parse_qvec(ex) == [core.frac(v) for v in col]:
                ctx.count("std_exact_equal_info")
            elif not np.allclose([float(v) for v in core.parse_qvec(ex)], col, rtol=1e-12, atol=1e-12):
                _viol(ctx, "scaling-output-model", f"{label}: objective column {j} differs from the exact "
                              "standardisation", case, kind="F")
    return ok


def _raw_bundled(name):
    """the arrays a bundled dataset class loads *before* `Dataset.__init__` scales them"""
    import vopy.datasets.dataset as D

    orig = D.Dataset.__init__
    D.Dataset.__init__ = lambda self: None
    try:
        raw = getattr(D, name)()
    finally:
        D.Dataset.__init__ = orig
    return np.array(raw.in_data, dtype=float), np.array(raw.out_data, dtype=float)


_BUNDLED = {}


def _bundled(name):
    if name not in _BUNDLED:
        from vopy.datasets import get_dataset_instance

        _BUNDLED[name] = (get_dataset_instance(name), _raw_bundled(name))
    return _BUNDLED[name]


def _run_bundled(ctx, case):
    from vopy.maximization_problem import ProblemFromDataset

    name = case["name"]
    ctx.count(f"bundled_{name}_{case['part']}")
    try:
        ds, (raw_in, raw_out) = _bundled(name)
    except Exception as e:
        _viol(ctx, "bundled-crash:" + core.exc_key(e), f"dataset {name} cannot be constructed: {e}", case)
        return
    card, din, dout = DECLARED[name]
    if case["part"] == "scaling":
        got = (ds.in_data.shape, ds.out_data.shape, ds.in_dim, ds.out_dim, ds._cardinality, ds._in_dim, ds._out_dim)
        if got != ((card, din), (card, dout), din, dout, card, din, dout):
            _viol(ctx, "bundled-sizes", f"{name}: sizes {got} differ from the declared {(card, din, dout)}", case)
            return
        _check_scaling(ctx, case, raw_in, raw_out, ds.in_data, ds.out_data, name)
        ctx.case_done(case, True, canon=[name, "scaling"])
        return
    # lookup on the real (non-dyadic) designs: band on the exact squared distance
    rng = random.Random(case["seed"])
    prob = ProblemFromDataset(ds, 0.01)
    xs, on = [], []
    for _ in range(6):
        if rng.random() < 0.5:
            i = rng.randrange(card)
            xs.append(ds.in_data[i].tolist())
            on.append(i)
        else:
            xs.append([rng.random() for _ in range(din)])
            on.append(None)
    x = np.array(xs, dtype=float)
    hd = (_hash(ds.in_data), _hash(ds.out_data))
    out = np.asarray(_evaluate_checked(ctx, case, prob, x, "ProblemFromDataset", noisy=False))
    if (_hash(ds.in_data), _hash(ds.out_data)) != hd:
        _viol(ctx, "evaluate-mutates-dataset", "evaluate modified the dataset arrays", case)
    if out.shape != (len(xs), dout):
        _viol(ctx, "lookup-shape", f"evaluate returned shape {out.shape}", case)
        return
    Xs = core.qmat(ds.in_data.tolist())
    for r, q in enumerate(xs):
        band = core.parse_nats(ctx.ask("band", core.qvec(q), Xs, core.q(Fraction(1, 10 ** 9))))
        if not any(np.array_equal(out[r], ds.out_data[j]) for j in band):
            _viol(ctx, "lookup-not-nearest", f"{name}: returned row is not the value of a design within 1e-9 of "
                          "the minimum squared distance", case, detail={"row": r, "band": band})
            return
        if on[r] is not None and on[r] not in band:
            _viol(ctx, "lookup-model-band", "model band does not contain the on-grid design itself", case, kind="F")
        ctx.count("bundled_lookup_rows")
    ctx.case_done(case, True, canon=[name, xs])


def _run_synth_ds(ctx, case):
    from vopy.datasets.dataset import Dataset

    ins, outs = np.array(case["in"], dtype=float), np.array(case["out"], dtype=float)
    ctx.count("synthds_" + case["shape"])

    class Synth(Dataset):
        _in_dim = ins.shape[1]
        _out_dim = outs.shape[1]
        _cardinality = case["card"]

        def __init__(self):
            self.in_data = ins.copy()
            self.out_data = outs.copy()
            super().__init__()

    try:
        ds = Synth()
        err = None
    except ValueError as e:
        ds, err = None, "ValueError"
    except Exception as e:
        _viol(ctx, "dataset-crash:" + core.exc_key(e), f"Dataset.__init__ raised {type(e).__name__}: {e}", case)
        return
    if case["card"] != len(ins):
        if err != "ValueError":
            _viol(ctx, "dataset-cardinality-guard", "cardinality mismatch was not rejected with ValueError", case,
                          kind="F")
        ctx.case_done(case, True, canon=case)
        return
    if err is not None:
        _viol(ctx, "dataset-crash:ValueError", "a well-formed synthetic dataset was rejected", case)
        return
    if (ds.in_data.shape, ds.out_data.shape, ds.in_dim, ds.out_dim) != (ins.shape, outs.shape, ins.shape[1], outs.shape[1]):
        _viol(ctx, "dataset-sizes", "scaled arrays / in_dim / out_dim have the wrong sizes", case)
        return
    _check_scaling(ctx, case, ins, outs, ds.in_data, ds.out_data, "synthetic dataset")
    ctx.case_done(case, True, canon=[case["in"], case["out"]])


def _run_roundtrip(ctx, case):
    from vopy.utils import normalize, unnormalize

    data = np.array(case["data"], dtype=float)
    bounds = [tuple(b) for b in case["bounds"]]
    ctx.count("roundtrip_" + case["shape"])
    Ds, Bs = core.qmat(case["data"]), core.qmat(case["bounds"])
    res = {}
    for nm, fn in (("norm", normalize), ("unnorm", unnormalize)):
        h = _hash(data)
        try:
            res[nm] = np.asarray(fn(data, bounds), dtype=float)
        except ValueError:
            res[nm] = "ValueError"
        except Exception as e:
            _viol(ctx, f"{nm}-crash:" + core.exc_key(e), f"{nm} raised {type(e).__name__}: {e}", case)
            return
        if _hash(data) != h:
            _viol(ctx, "normalize-mutates-input", f"{nm} modified its input array", case)
        if not isinstance(res[nm], str) and (res[nm].shape != data.shape or not np.all(np.isfinite(res[nm]))):
            _viol(ctx, f"{nm}-nonfinite", f"{nm} returned a wrong shape or a non-finite value although upper != lower",
                  case, detail={"impl": str(res[nm].tolist())})
            return
        model = ctx.ask(nm, Ds, Bs)
        if model == "ValueError" or isinstance(res[nm], str):
            if not (model == "ValueError" and isinstance(res[nm], str)):
                _viol(ctx, f"{nm}-guard", f"{nm}: ValueError guard differs from the model ({model!r} vs "
                              f"{'ValueError' if isinstance(res[nm], str) else 'value'})", case, kind="F")
            continue
        mm = core.parse_qmat(model)
        exact_eq = [[core.frac(v) for v in r] for r in res[nm].tolist()] == mm
        if exact_eq:
            ctx.count(f"{nm}_exact")
        else:
            mf = np.array([[float(v) for v in r] for r in mm])
            pow2 = all(_is_pow2(core.frac(b[1]) - core.frac(b[0])) for b in bounds)
            if (case["shape"] != "floats" and (pow2 or nm == "unnorm")) or \
                    not np.allclose(res[nm], mf, rtol=1e-12, atol=1e-12 * max(1.0, float(np.max(np.abs(mf))))):
                _viol(ctx, f"{nm}-model", f"{nm} differs from the model", case, kind="F",
                              detail={"impl": res[nm].tolist(), "model": mf.tolist()})
            ctx.count(f"{nm}_tol")
    if isinstance(res["norm"], str) or isinstance(res["unnorm"], str):
        ctx.case_done(case, True, canon=case)
        return
    # mutual inverses on the real code
    scale = max(1.0, float(np.max(np.abs(data))), max(abs(v) for b in bounds for v in b))
    back1 = np.asarray(unnormalize(res["norm"], bounds), dtype=float)
    back2 = np.asarray(normalize(res["unnorm"], bounds), dtype=float)
    pow2 = all(_is_pow2(core.frac(b[1]) - core.frac(b[0])) for b in bounds)
    for nm, back in (("unnormalize∘normalize", back1), ("normalize∘unnormalize", back2)):
        if case["shape"] != "floats" and pow2:
            good = _rows_equal(back, data)
        else:
            good = bool(np.allclose(back, data, rtol=1e-12, atol=1e-12 * scale * scale))
        if not good:
            _viol(ctx, "roundtrip-not-identity", f"{nm} is not the identity", case,
                          detail={"back": back.tolist()})
    ctx.case_done(case, True, canon=[case["data"], case["bounds"]])



def _run_history(ctx, case):
    """HISTORY / ALIASING: one problem instance, one caller-owned buffer overwritten in place between calls."""
    from vopy.maximization_problem import BraninCurrin, DecoupledEvaluationProblem, ProblemFromDataset

    via, single, m = case["via"], case["single"], case["m"]
    steps = case["steps"]
    k, d = len(steps[0]), len(steps[0][0])
    ctx.count("history_via_" + via)
    ctx.count("history_single" if single else "history_batch")
    ds = None
    if via in ("dataset", "decoupled"):
        ds = _synthetic_dataset(case["X"], case["Y"])
        prob = ProblemFromDataset(ds, 0.25)
        label = "ProblemFromDataset"
        if via == "decoupled":
            prob, label = DecoupledEvaluationProblem(prob), "DecoupledEvaluationProblem"
        Xs = core.qmat(case["X"])
    elif via == "linear":
        prob, label = _linear_problem(case["A"], case["b"], 0.25), "ContinuousProblem"
    else:
        prob, label = BraninCurrin(0.25), "BraninCurrin"
    buf = np.empty((d,)) if single else np.empty((k, d))
    returned = []
    prev_valid = None
    for t, cur in enumerate(steps):
        cur_a = np.array(cur, dtype=float)
        buf[...] = cur_a[0] if single else cur_a          # overwrite the SAME array object in place
        ix = case["ixs"][t]
        kw = {"noisy": bool(case["noisy"][t])}
        if via == "decoupled":
            kw["evaluation_index"] = ix
        hd = (_hash(ds.in_data), _hash(ds.out_data)) if ds is not None else None
        try:
            if kw["noisy"]:
                with _PatchedNormal(np.zeros((k, m))):     # zero draw: the noisy path must return f exactly
                    got = _evaluate_checked(ctx, case, prob, buf, label, **kw)
            else:
                got = _evaluate_checked(ctx, case, prob, buf, label, **kw)
        except Exception as e:
            _viol(ctx, f"history-crash:{label}:" + core.exc_key(e), f"step {t}: evaluate raised {type(e).__name__}: {e}", case)
            return
        got = np.asarray(got)
        ctx.count("history_calls")
        # ---- what the property demands for the buffer's CURRENT contents
        if ds is not None:
            valid = []  # per row: set of admissible values (tuples for full rows, floats for components)
            for r, q in enumerate(cur):
                band = core.parse_nats(ctx.ask("band", core.qvec(q), Xs, "0"))
                if ix is None:
                    valid.append({tuple(case["Y"][j]) for j in band})
                else:
                    kk = ix if isinstance(ix, int) else ix[r]
                    valid.append({case["Y"][j][kk] for j in band})
            want_shape = (k, m) if ix is None else (k,)
            good = got.shape == want_shape and all(
                (tuple(got[r].tolist()) if ix is None else float(got[r])) in valid[r] for r in range(k))
            if not good:
                stale = prev_valid is not None and got.shape == prev_valid[0] and all(
                    (tuple(got[r].tolist()) if got.ndim == 2 else float(got[r])) in prev_valid[1][r] for r in range(k))
                _viol(ctx, "history-stale-lookup" if stale else "history-wrong-lookup",
                      f"{label}: step {t} on a reused, in-place overwritten buffer did not return the value of the "
                      "design nearest to the buffer's CURRENT contents"
                      + (" (it returned the answer for the PREVIOUS contents)" if stale else ""), case,
                      detail={"step": t, "contents": cur, "impl": got.tolist(),
                              "admissible": [sorted(map(list, v)) if ix is None else sorted(v) for v in valid]})
                return
            prev_valid = (want_shape, valid)
        elif via == "linear":
            want = _fr_mat(ctx.ask("noisy", core.qmat([case["b"]] * k), core.qmat(cur), core.qmat(case["A"])))
            if not _rows_equal(got, want):
                _viol(ctx, "history-wrong-value", f"{label}: step {t} on a reused buffer differs from b + x·A for the "
                      "current contents", case, detail={"step": t, "impl": got.tolist(), "want": want})
                return
        else:
            want = np.asarray(BraninCurrin(0.25).evaluate_true(cur_a.copy()))  # fresh instance, fresh array
            if not _rows_equal(got, want):
                _viol(ctx, "history-wrong-value", f"{label}: step {t} on a reused buffer differs from evaluate_true of "
                      "the current contents", case, detail={"step": t, "impl": got.tolist(), "want": want.tolist()})
                return
        # ---- scribble over everything returned so far; nothing the problem holds may change
        returned.append(got)
        if case["scribble"]:
            for a in returned:
                if isinstance(a, np.ndarray) and a.flags.writeable:
                    a[...] = 1234.5
            ctx.count("history_scribbled_outputs")
        if ds is not None and (_hash(ds.in_data), _hash(ds.out_data)) != hd:
            _viol(ctx, "evaluate-output-aliases-dataset", f"{label}: writing into a returned array (or evaluating) "
                  "changed the dataset arrays", case, detail={"step": t})
            return
    ctx.case_done(case, len(steps) >= 2, canon=case)


def _pristine_bundled(name):
    """scaled arrays of a bundled dataset built by calling its class directly (never through a by-name factory)"""
    import vopy.datasets.dataset as D

    inst = getattr(D, name)()
    return np.array(inst.in_data, dtype=float, copy=True), np.array(inst.out_data, dtype=float, copy=True)


def _clear_dataset_caches():
    import sys

    for modname in ("vopy.datasets.dataset", "vopy.datasets", "vopy.algorithms.naive_elimination"):
        mod = sys.modules.get(modname)
        fn = getattr(mod, "get_dataset_instance", None) if mod is not None else None
        for attr in ("cache_clear",):
            if fn is not None and hasattr(fn, attr):
                try:
                    getattr(fn, attr)()
                except Exception:
                    pass


def _run_fresh_ds(ctx, case):
    """ALIASING of bundled datasets: a holder scribbles over its instance; later requests by name must be pristine."""
    from vopy.datasets import get_dataset_instance

    name, mode, consumer = case["name"], case["scribble"], case["consumer"]
    ctx.count(f"freshds_{mode}_{consumer}")
    card, din, dout = DECLARED[name]
    try:
        ref_in, ref_out = _pristine_bundled(name)
        raw_in, raw_out = _raw_bundled(name)
        first = get_dataset_instance(name)
        if not (_rows_equal(first.in_data, ref_in) and _rows_equal(first.out_data, ref_out)):
            _viol(ctx, "dataset-not-fresh", f"{name}: the first instance obtained by name already differs from a "
                  "directly constructed one", case)
            return
        # ---- the holder modifies ITS object
        if mode == "units":        # convert back to physical-looking units, in place
            first.in_data *= 37.5
            first.in_data += 2.0
            first.out_data *= 3.0
            first.out_data += 10.0
        elif mode == "flip":       # flip an objective, in place
            first.out_data[:, 0] *= -1.0
        elif mode == "const":
            first.in_data[...] = 0.5
            first.out_data[...] = 0.0
        else:                      # rebind the attributes of the shared object
            first.in_data = first.in_data * 2.0 + 1.0
            first.out_data = first.out_data[::-1].copy()
        # ---- a later consumer asks for the dataset by name
        if consumer == "naive":
            from vopy.algorithms.naive_elimination import NaiveElimination
            from vopy.order import ComponentwiseOrder

            alg = NaiveElimination(0.1, 0.1, name, ComponentwiseOrder(dout), 0.01, L=1)
            second, prob, who = alg.dataset, alg.problem, f"NaiveElimination(dataset_name={name!r})"
        else:
            from vopy.maximization_problem import ProblemFromDataset

            second = get_dataset_instance(name)
            prob, who = ProblemFromDataset(second, 0.01), f"get_dataset_instance({name!r})"
        if second is first:
            ctx.count("dataset_instance_shared_info")
        sizes_ok = (np.shape(second.in_data), np.shape(second.out_data), second.in_dim, second.out_dim) == \
            ((card, din), (card, dout), din, dout)
        same = sizes_ok and _rows_equal(second.in_data, ref_in) and _rows_equal(second.out_data, ref_out)
        scaled_ok = sizes_ok and _check_scaling(ctx, case, raw_in, raw_out, second.in_data, second.out_data, who)
        if not (same and scaled_ok):
            _viol(ctx, "dataset-not-fresh", f"{who} after an earlier holder modified its own instance ({mode}): the "
                  "dataset handed out is not the pristine scaled data (inputs in [0,1], objectives standardised, equal "
                  "to the scaling of the file data)", case,
                  detail={"shared_object": second is first, "sizes_ok": sizes_ok})
        elif consumer != "get":
            # the problem built from the name looks values up in pristine data
            i = card // 2
            out = np.asarray(prob.evaluate(ref_in[i].copy(), noisy=False))
            band = core.parse_nats(ctx.ask("band", core.qvec(ref_in[i].tolist()), core.qmat(ref_in.tolist()),
                                           core.q(Fraction(1, 10 ** 9))))
            if not any(np.array_equal(out[0], ref_out[j]) for j in band):
                _viol(ctx, "dataset-not-fresh", f"{who}: lookup at a design does not return the pristine objective row",
                      case)
    except Exception as e:
        _viol(ctx, "freshds-crash:" + core.exc_key(e), f"raised {type(e).__name__}: {e}", case)
    finally:
        _clear_dataset_caches()          # no-op on the unchanged code
        _BUNDLED.pop(name, None)         # our own cache may hold the object that was scribbled over
    ctx.case_done(case, True, canon=[name, mode, consumer])


def _config(obj, depth=0):
    """the CONFIGURATION of a problem object: noise_var, noise_cholesky, every dict-valued attribute (stored
    kwargs), and the same for a wrapped problem / its dataset arrays.  Other attributes (caches) are ignored."""
    out = {}
    try:
        items = sorted(vars(obj).items())
    except TypeError:
        return out
    for key, v in items:
        if isinstance(v, dict):
            out[key] = ("dict", repr(sorted((str(a), repr(b)) for a, b in v.items())))
        elif key in ("noise_var", "noise_cholesky", "in_data", "out_data", "in_dim", "out_dim"):
            out[key] = ("arr",) + _hash(np.asarray(v)) if isinstance(v, np.ndarray) else ("val", repr(v))
        elif key in ("problem", "dataset") and depth < 2:
            out[key] = ("obj", repr(sorted(_config(v, depth + 1).items())))
    return out


def _flag_problem(case):
    from vopy.maximization_problem import BraninCurrin, DecoupledEvaluationProblem, ProblemFromDataset

    base = case["via"][4:] if case["via"].startswith("dec-") else case["via"]
    nv = case["noise_var"]
    if base == "dataset":
        if case.get("bundled"):
            ds = _bundled(case["bundled"])[0]
        else:
            ds = _synthetic_dataset(case["X"], case["Y"])
        prob = ProblemFromDataset(ds, nv)
    elif base == "linear":
        prob = _linear_problem(case["A"], case["b"], nv)
    else:
        prob = BraninCurrin(nv)
    inner = prob
    if case["via"].startswith("dec-"):
        prob = DecoupledEvaluationProblem(prob)
    return prob, inner


def _run_flag_history(ctx, case):
    """HISTORY of the noisy flag on ONE object: every call is held to its own contract."""
    via, single, m = case["via"], case["single"], case["m"]
    dec = via.startswith("dec-")
    base = via[4:] if dec else via
    ctx.count("flaghist_via_" + via)
    try:
        prob, inner = _flag_problem(case)
    except Exception as e:
        _viol(ctx, "flaghist-crash:" + core.exc_key(e), f"constructor raised {type(e).__name__}: {e}", case)
        return
    label = type(prob).__name__ + (f"({type(inner).__name__})" if dec else "")
    fr_nv = core.frac(case["noise_var"])
    dyadic_sqrt = Fraction(math.isqrt(fr_nv.numerator)) ** 2 == fr_nv.numerator and \
        Fraction(math.isqrt(fr_nv.denominator)) ** 2 == fr_nv.denominator
    exact = base != "branin" and not case.get("bundled") and dyadic_sqrt
    cfg0 = _config(prob)
    seen_false = seen_true = cfg_reported = False
    for t, call in enumerate(case["calls"]):
        mode, ix = call["mode"], call["ix"]
        want_noisy = not mode.startswith("false")
        xs = np.array(call["xs"], dtype=float)
        k = len(xs)
        x = xs[0].copy() if single else xs.copy()
        # reference values from a FRESH object with the flag given explicitly (one call: no history)
        fresh, fresh_inner = _flag_problem(case)
        f = np.asarray(fresh_inner.evaluate(xs.copy(), noisy=False), dtype=float)
        M = np.asarray(fresh_inner.noise_cholesky, dtype=float).T   # rows are multiplied by Lᵀ (diagonal here)
        Z = np.array(call["Z"], dtype=float)
        args, kw = [x], {}
        flag = np.bool_(want_noisy) if call.get("form", "literal") == "npbool" else want_noisy
        if mode != "default":
            ctx.count("flaghist_form_" + call.get("form", "literal"))
        if dec:
            if call["ix_pos"]:
                args.append(ix)
            else:
                kw["evaluation_index"] = ix
            if mode != "default":
                kw["noisy"] = flag
        elif mode.endswith("_pos"):
            args.append(flag)
        elif mode != "default":
            kw["noisy"] = flag
        ctx.count("flaghist_mode_" + mode)
        hx = _hash(x)
        state = np.random.get_state()
        try:
            if call["real_rng"] and want_noisy:
                np.random.seed(call["seed"])
                got, calls_seen = prob.evaluate(*args, **kw), None
            else:
                with _PatchedNormal(Z) as pn:
                    got = prob.evaluate(*args, **kw)
                calls_seen = pn.calls
        except Exception as e:
            _viol(ctx, f"flaghist-crash:{label}:" + core.exc_key(e), f"call {t} ({mode}) raised {type(e).__name__}: {e}", case)
            return
        finally:
            np.random.set_state(state)
        if _hash(x) != hx:
            _viol(ctx, f"evaluate-mutates-input:{type(prob).__name__}", f"{label}.evaluate modified the caller's array", case)
        got = np.asarray(got, dtype=float)

        def sel(full):
            if not dec or ix is None:
                return full
            if isinstance(ix, int):
                return full[:, ix]
            return np.array([full[r, kk] for r, kk in enumerate(ix)])

        if exact:
            noisy_full = np.array(_fr_mat(ctx.ask("noisy", core.qmat(f.tolist()), core.qmat(call["Z"]), core.qmat(M.tolist()))))
        else:
            noisy_full = f + Z @ M
        want_clean, want_noisy_val = sel(f), sel(noisy_full)
        same = (lambda a, b: _rows_equal(a, b)) if exact else \
            (lambda a, b: np.shape(a) == np.shape(b) and bool(np.allclose(a, b, rtol=1e-9, atol=1e-9)))
        detail = {"call": t, "mode": mode, "ix": ix, "impl": got.tolist(), "noiseless": want_clean.tolist()}
        if not want_noisy:
            if not _rows_equal(got, want_clean) or calls_seen not in ([],):
                sticky = seen_true and same(got, want_noisy_val)
                _viol(ctx, "noise-flag-sticky" if sticky else "noiseless-not-exact",
                      f"{label}: call {t} with noisy=False did not return exactly the noiseless value"
                      + (" (noise of an earlier noisy call's flag was applied)" if sticky else "")
                      + (f"; normal draws requested: {calls_seen}" if calls_seen else ""), case, detail=detail)
                return
            seen_false = True
        else:
            if got.shape != want_clean.shape:
                _viol(ctx, "noisy-shape", f"{label}: call {t} returned shape {got.shape}", case, detail=detail)
                return
            resid = got - want_clean
            if call["real_rng"]:
                ok = bool(np.all(resid != 0)) and bool(np.all(np.isfinite(resid)))
            else:
                ok = same(got, want_noisy_val) and calls_seen == [(k, m)]
            if not ok:
                silent = _rows_equal(got, want_clean)
                key = "noise-flag-sticky" if (silent and seen_false) else ("noise-not-applied" if silent else "noise-map")
                _viol(ctx, key, f"{label}: call {t} ({'default' if mode == 'default' else 'noisy=True'}) must return "
                      "f + z·M for the recorded draw (residual != 0)"
                      + (" but returned the NOISELESS value after an earlier noisy=False call on the same object"
                         if key == "noise-flag-sticky" else ""), case,
                      detail=dict(detail, want=want_noisy_val.tolist(), draws=calls_seen))
                if key == "noise-flag-sticky" and not cfg_reported and _config(prob) != cfg0:
                    _viol(ctx, "evaluate-mutates-problem", f"{label}: evaluate changed the object's configuration "
                          "(noise_var / noise_cholesky / stored kwargs)", case,
                          detail={"before": repr(cfg0), "after": repr(_config(prob))})
                return
            seen_true = True
        if not cfg_reported and _config(prob) != cfg0:
            cfg_reported = True      # keep going: the later calls show what the changed configuration does
            _viol(ctx, "evaluate-mutates-problem", f"{label}: call {t} ({mode}) changed the object's configuration "
                  "(noise_var / noise_cholesky / stored kwargs / dataset)", case,
                  detail={"before": repr(cfg0), "after": repr(_config(prob))})
        ctx.count("flaghist_calls")
    ctx.case_done(case, len(case["calls"]) >= 2, canon=case)

def _run_moments(ctx, case):
    """STATISTICAL TEST (not proof): N repeated noisy evaluations, 6-sigma band, seed fixed by the case."""
    from vopy.maximization_problem import BraninCurrin, ProblemFromDataset
    from vopy.utils import get_noisy_evaluations_chol

    which, m, N, nv = case["which"], case["m"], case["N"], case["noise_var"]
    ctx.count("moments_" + which)
    state = np.random.get_state()
    np.random.seed(case["seed"])
    try:
        if which == "dataset":
            ds = _synthetic_dataset([[0.0], [1.0]], [[0.5] * m, [-1.0] * m])
            prob = ProblemFromDataset(ds, nv)
            x = np.zeros((N, 1))
            f = np.full((N, m), 0.5)
            S = np.eye(m) * nv
            y = prob.evaluate(x)
        elif which == "linear":
            prob = _linear_problem([[1.0] * m], [0.25] * m, nv)
            x = np.ones((N, 1))
            f = np.full((N, m), 1.25)
            S = np.eye(m) * nv
            y = prob.evaluate(x)
        elif which == "branin":
            prob = BraninCurrin(nv)
            x = np.full((N, 2), 0.5)
            f = prob.evaluate(x.copy(), noisy=False)
            S = np.eye(2) * nv
            y = prob.evaluate(x)
        else:
            L = np.array(case["L"], dtype=float)
            f = np.zeros((N, m))
            S = L @ L.T
            y = get_noisy_evaluations_chol(f, L)
    finally:
        np.random.set_state(state)
    e = np.asarray(y) - f
    mean = e.mean(axis=0)
    C = (e.T @ e) / N
    bad_mean = [j for j in range(m) if abs(mean[j]) > 6 * math.sqrt(S[j, j] / N)]
    bad_cov = [(i, j) for i in range(m) for j in range(m)
               if abs(C[i, j] - S[i, j]) > 6 * math.sqrt((S[i, i] * S[j, j] + S[i, j] ** 2) / N)]
    if bad_mean:
        _viol(ctx, "noise-moment-mean", f"statistical test: sample mean of {N} noise draws outside the 6-sigma band "
                      f"in components {bad_mean}", case, detail={"mean": mean.tolist()})
    if bad_cov:
        key = "noise-cov-LtL-not-LLt" if which == "util-lower" and np.all(
            np.abs(C - L.T @ L) <= 6 * np.sqrt((np.outer(np.diag(L.T @ L), np.diag(L.T @ L)) + (L.T @ L) ** 2) / N)) \
            else "noise-moment-cov"
        _viol(ctx, key, f"statistical test: sample covariance of {N} noise draws outside the 6-sigma band at {bad_cov}",
                      case, detail={"sample_cov": C.tolist(), "configured": S.tolist()})
    ctx.count("moments_statistical_tests")
    if not ctx.__dict__.get("_c20_moment_note"):
        ctx.__dict__["_c20_moment_note"] = True
        ctx.info("kind 'moments': STATISTICAL TEST (sample mean / covariance of N=20000 noisy evaluations inside a "
                 "6-sigma band, numpy seed fixed by the case) — evidence of the sampling law, not a proof; the law "
                 "itself is Props/C20 noise_law / noise_gaussian_law plus the exact read-off of the applied matrix")
    ctx.case_done(case, True, canon=case)


_RUN = {"lookup": _run_lookup, "noise-util": _run_noise_util, "noise-prob": _run_noise_prob,
        "continuous": _run_continuous, "bundled": _run_bundled, "synth-ds": _run_synth_ds,
        "roundtrip": _run_roundtrip, "moments": _run_moments, "history": _run_history, "fresh-ds": _run_fresh_ds,
        "flag-hist": _run_flag_history}


def run_case(ctx, case):
    ctx.count("kind_" + case["kind"])
    _RUN[case["kind"]](ctx, case)
