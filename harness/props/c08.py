"""C08 — NaiveElimination with its default sample count is (eps, delta)-PAC; P is the exact Pareto
set of the per-design means of all observations so far.

Three case kinds (all run the REAL `NaiveElimination` from /repo):

* kind "L"   : `algorithm.L` from the real constructor on a tiny unscaled synthetic dataset, over a grid
               of (noise_var, eps, delta, theta, K), against
               (F1) the Float instance of the Lean term that mirrors the constructor
                    (`naiveLcode`; also accepted: `naiveLprop`, the formula the property states) and
               (R)  the sample count the property demands (`naiveLprop`, sigma = sqrt(noise_var)):
                    where the code's L is smaller, the failure probability of the worst-case instance
                    (one design dominated with gap eps(1+2^-6) in every facet direction, all others far
                    away) is evaluated in closed form with the code's L; `> delta` is a violation,
                    optionally confirmed by a seeded Monte-Carlo run of the real algorithm.
* kind "run" : whole runs fed scripted observations through `algorithm.problem.evaluate`; after every
               call of `run_one_step` the return value, `round`, `sample_count` and `P` are compared with
               the Lean state machine (F), and `P` must satisfy C13's Pareto relation w.r.t. the model's
               exact means of the observations actually requested so far (R).
* kind "mc"  : closed form vs a seeded Monte-Carlo estimate with a 5-sigma binomial band (a STATISTICAL
               test; it validates the closed form used by (R) against the real algorithm).
"""
import math
import struct
import warnings

import numpy as np

from harness import core
from harness.cones import EXACT_CONES, real_order

TITLE = "NaiveElimination: sample count L, PAC failure probability, P = Pareto set of sample means"
RULE = ("L cases: grid/random (noise_var below and above 1, eps, delta, theta, K); non-trivial = code's L "
        "differs from 1 or from the property's L; distinct by parameters. run cases: (cone, K, L, scripted "
        "lattice/float observations, number of steps); non-trivial = some design eliminated at some round and "
        "P changes between rounds or a tie is present; distinct by the whole script. mc cases: distinct by "
        "parameters and seed.")
ASSUMPTIONS = [
    "float rounding inside the L formula is not modelled: cases whose pre-ceil value is within 1e-9 (relative) "
    "of an integer are not compared",
    "run cases use observations on the lattice 840*k/2^p (all prefix means exact in binary floating point) with "
    "integer cone rows, or float observations compared only when every dominance decision has margin > 1e-9; "
    "'bigoffset' runs add a common offset 2^20..2^30 to gaps 840*k*2^-10..2^-18 (exact in float64, not in float32)",
    "closed-form failure probability: exact product of normal cdfs for theta = 90, scipy's bivariate normal cdf "
    "(numerical, abs. error ~1e-8) for other angles; compared with delta with a relative margin of 1e-3",
    "Monte-Carlo confirmations are statistical tests (5-sigma binomial band, seeded through numpy's global RNG "
    "which the real sampling code uses; the global state is saved and restored)",
]
MAX_JOBS = 14

GAP = 1.0 + 2.0 ** -6
DS_NAME = "VerifC08Synthetic"

NOISE_VARS = [1e-4, 1e-3, 0.01, 0.05, 0.1, 0.25, 0.5, 0.9, 1.0, 1.5, 4.0, 10.0]
EPSS = [0.01, 0.05, 0.1, 0.25, 0.5, 1.0]
DELTAS = [0.01, 0.05, 0.1, 0.2, 0.5]
THETAS = [1, 2, 4, 8, 20, 45, 60, 89, 90, 91, 120, 135, 160]  # narrow cones (large beta) are where a lost factor beta shows
KS = [2, 3, 5, 10, 32]


# ----------------------------------------------------------------------------- float <-> bits
def bits(x) -> str:
    return str(struct.unpack("<Q", struct.pack("<d", float(x)))[0])


def unbits(s: str) -> float:
    return struct.unpack("<d", struct.pack("<Q", int(s)))[0]


# ----------------------------------------------------------------------------- stubs
class _Registered:
    """Register a tiny synthetic Dataset subclass in vopy.datasets.dataset's module globals (the
    algorithms look datasets up through `globals()`); it sets the data directly and skips
    `Dataset.__init__` scaling, so gaps are controlled exactly.  Always unregistered on exit.
    Uses the shared `harness.stubs.dataset` helper when it is importable, a local equivalent otherwise."""

    def __init__(self, out_data):
        self.out = np.array(out_data, dtype=float)
        self.cm = None

    def __enter__(self):
        K = len(self.out)
        in_data = np.arange(K, dtype=float).reshape(-1, 1)
        try:
            from harness import stubs

            cm = stubs.dataset(DS_NAME, in_data, self.out)
            cm.__enter__()
            self.cm = cm
            return DS_NAME
        except Exception:
            self.cm = None
        import vopy.datasets.dataset as dsm

        out = self.out

        class _DS(dsm.Dataset):
            _in_dim = 1
            _out_dim = out.shape[1]
            _cardinality = K

            def __init__(self):  # no scaling on purpose
                self.in_data = in_data.copy()
                self.out_data = out.copy()
                self.in_dim = 1
                self.out_dim = out.shape[1]

        self.dsm = dsm
        setattr(dsm, DS_NAME, _DS)
        return DS_NAME

    def __exit__(self, *a):
        if self.cm is not None:
            return self.cm.__exit__(*a)
        if hasattr(self.dsm, DS_NAME):
            delattr(self.dsm, DS_NAME)
        return False


_int_orders = {}


def int_order(rows, beta=1.0):
    """User cone written with INTEGER rows (as in the OrderingCone docstring): W has an integer dtype.  A `beta`
    attribute is attached so that the default sample count can be computed as well."""
    from vopy.order import PolyhedralConeOrder
    from vopy.ordering_cone import OrderingCone

    key = (tuple(tuple(int(x) for x in r) for r in rows), beta)
    if key not in _int_orders:
        cone = OrderingCone(np.array([[int(x) for x in r] for r in rows]))
        cone.beta = beta
        _int_orders[key] = PolyhedralConeOrder(cone)
    return _int_orders[key]


_theta_orders = {}


def theta_order(theta):
    from vopy.order import ConeTheta2DOrder

    if theta not in _theta_orders:
        _theta_orders[theta] = ConeTheta2DOrder(theta)
    return _theta_orders[theta]


# ----------------------------------------------------------------------------- closed form
def worst_instance(W, alpha, eps, K, noise_var):
    """Design 0 is dominated by design 1 with W(mu_1 - mu_0) = eps*GAP*alpha (so the gap m(0,1) =
    min_n w_n.(mu_1-mu_0)/alpha_n is exactly eps*GAP up to rounding); designs 2.. are far inside the
    region dominated by both, so they neither enter P nor dominate anything."""
    W = np.asarray(W, dtype=float)
    alpha = np.asarray(alpha, dtype=float).reshape(-1)
    d = np.linalg.solve(W, eps * GAP * alpha)
    far = 1000.0 * max(1.0, math.sqrt(noise_var), eps)
    axis = np.linalg.solve(W, alpha)
    axis = axis / np.linalg.norm(axis)
    mu = [np.zeros(2), d]
    for k in range(2, K):
        mu.append(-far * (k - 1) * axis)
    return np.array(mu)


def p_fail_closed_form(theta, eps, noise_var, L, alpha):
    """P(design 0 is returned) = 1 - P(W(mean_1 - mean_0) >= 0) with mean_1 - mean_0 ~ N(d, (2 var/L) I),
    W d = eps*GAP*alpha, W W^T = [[1, -cos th], [-cos th, 1]]."""
    from scipy.special import ndtr

    a = eps * GAP * float(np.asarray(alpha).reshape(-1)[0]) * math.sqrt(L / 2.0) / math.sqrt(noise_var)
    if theta == 90:
        return float(1.0 - ndtr(a) ** 2), "exact"
    from scipy.stats import multivariate_normal

    r = -math.cos(math.radians(theta))
    if a > 38:
        return 0.0, "exact"
    p = multivariate_normal(mean=[0, 0], cov=[[1, r], [r, 1]], allow_singular=True).cdf([a, a])
    return float(max(0.0, 1.0 - p)), "numeric"


def monte_carlo(order, mu, eps, delta, noise_var, L, runs, seed):
    """Frequency with which the REAL algorithm (given L) returns design 0.  Uses numpy's global RNG
    (that is what `get_noisy_evaluations_chol` draws from); state saved and restored."""
    from vopy.algorithms import NaiveElimination

    state = np.random.get_state()
    hits = 0
    try:
        np.random.seed(seed)
        with _Registered(mu) as name:
            for _ in range(runs):
                algo = NaiveElimination(eps, delta, name, order, noise_var, L=int(L))
                guard = 0
                while not algo.run_one_step():
                    guard += 1
                    if guard > L + 2:
                        break
                if 0 in [int(i) for i in algo.P]:
                    hits += 1
    finally:
        np.random.set_state(state)
    return hits


# ----------------------------------------------------------------------------- generators
def gen(ctx):
    rng = ctx.rng
    # --- standing failing-input search: the documented suspect first, with Monte-Carlo confirmation
    if ctx.worker == 0:
        yield {"kind": "L", "noise_var": 0.01, "eps": 0.1, "delta": 0.05, "theta": 90, "K": 3,
               "mc": True, "runs": 2000, "seed": 12345}
        for th, nv in [(90, 0.25), (60, 0.01), (120, 0.05)]:
            yield {"kind": "mc", "noise_var": nv, "eps": 0.1, "delta": 0.05, "theta": th, "K": 3,
                   "L": 4, "runs": 2000 if ctx.tier == "quick" else 4000, "seed": 777 + th}
    # --- L grid
    if ctx.tier == "thorough":
        k = 0
        for nv in NOISE_VARS:
            for e in EPSS:
                for d in DELTAS:
                    for th in THETAS:
                        for K in KS:
                            k += 1
                            if k % ctx.nworkers != ctx.worker:
                                continue
                            yield {"kind": "L", "noise_var": nv, "eps": e, "delta": d, "theta": th, "K": K,
                                   "mc": False}
    else:
        # structured: one-factor-at-a-time sweeps around two centres, then random grid points
        for centre in [(0.01, 0.1, 0.05, 90, 3), (4.0, 0.5, 0.1, 60, 5)]:
            for idx, vals in enumerate([NOISE_VARS, EPSS, DELTAS, THETAS, KS]):
                for v in vals:
                    c = list(centre)
                    c[idx] = v
                    yield {"kind": "L", "noise_var": c[0], "eps": c[1], "delta": c[2], "theta": c[3],
                           "K": c[4], "mc": False}
    for i in range(ctx.n(220, 6000)):
        if rng.random() < 0.5:
            case = {"kind": "L", "noise_var": rng.choice(NOISE_VARS), "eps": rng.choice(EPSS),
                    "delta": rng.choice(DELTAS), "theta": rng.choice(THETAS), "K": rng.choice(KS)}
        else:
            case = {"kind": "L", "noise_var": math.exp(rng.uniform(math.log(1e-4), math.log(20))),
                    "eps": math.exp(rng.uniform(math.log(0.01), math.log(2))),
                    "delta": rng.uniform(0.005, 0.6), "theta": rng.choice([rng.uniform(5, 175), rng.randint(10, 170)]),
                    "K": rng.randint(2, 40)}
        case["mc"] = False
        yield case
    # a few flagged Monte-Carlo confirmations on random small-variance points (cheap: L is small there)
    for i in range(ctx.n(2, 28)):
        yield {"kind": "L", "noise_var": rng.choice([0.005, 0.01, 0.02, 0.04]), "eps": rng.choice([0.05, 0.1, 0.2]),
               "delta": rng.choice([0.05, 0.1]), "theta": rng.choice([60, 90, 120]), "K": rng.choice([2, 3, 4]),
               "mc": True, "runs": 1000, "seed": rng.randrange(10 ** 6)}
    # --- tiny noise variances with correspondingly small eps (so that the default L is > 1): the guarantee must
    # hold there as well, and the noise the problem really uses must be the configured one
    tiny = [(nv, r, d, th, K) for nv in [1e-12, 1e-10, 1e-8, 1e-7, 1e-6, 1e-5, 1e-4]
            for r in [0.5, 1.0, 2.0, 5.0] for d in [0.05, 0.1] for th in [60, 90, 120] for K in [2, 3, 8]]
    if ctx.tier == "quick":
        tiny = [t for t in tiny if t[2] == 0.1 and t[4] == 3 and (t[3] == 90 or t[1] == 1.0)]
    for k, (nv, r, d, th, K) in enumerate(tiny):
        if k % ctx.nworkers != ctx.worker:
            continue
        yield {"kind": "L", "noise_var": nv, "eps": r * math.sqrt(nv), "delta": d, "theta": th, "K": K,
               "mc": nv == 1e-8 and r == 1.0 and th == 90, "runs": 600, "seed": 4242}
    # --- the bundled "Test" data set through the real pipeline, orthant written with INTEGER rows
    if ctx.worker == 0:
        yield {"kind": "dataset", "dataset": "Test", "rows": [[1, 0], [0, 1]], "int_dtype": True, "beta": 1.0,
               "eps": 0.1, "delta": 0.1, "noise_var": 0.0025, "seed": 7, "expect_P": [14, 22, 25, 30]}
        yield {"kind": "dataset", "dataset": "Test", "rows": [[2, 1], [1, 2]], "int_dtype": True, "beta": 1.0,
               "eps": 0.2, "delta": 0.1, "noise_var": 0.01, "seed": 11}
    # --- runs
    exact = ["orthant2", "acute2", "obtuse2", "skew2", "redundant2", "threefacet2"]
    for i in range(ctx.n(60, 1500)):
        shape = rng.choice(["lattice", "lattice", "ties", "float_theta", "default_L", "lattice3",
                            "bigoffset", "bigoffset", "fine", "fine"])
        K = rng.randint(1, 7)
        if shape == "lattice3":
            cone, m = rng.choice(["orthant3", "acute3", "fourfacet3"]), 3
        else:
            cone, m = rng.choice(exact), 2
        L = rng.randint(0, 8)
        extra = rng.randint(0, 3)
        p = rng.choice([0, 0, 3])
        if shape in ("lattice", "lattice3"):
            rounds = [[[840 * rng.randint(-4, 4) / 2 ** p for _ in range(m)] for _ in range(K)]
                      for _ in range(L + extra)]
            case = {"kind": "run", "cone": cone, "K": K, "L": L, "rounds": rounds, "shape": shape}
        elif shape == "ties":
            # few distinct values: many equal means / facet ties; designs share observation rows
            vals = [[840 * rng.randint(-1, 1) / 2 ** p for _ in range(m)] for _ in range(2)]
            rounds = [[list(rng.choice(vals)) for _ in range(K)] for _ in range(L + extra)]
            case = {"kind": "run", "cone": cone, "K": K, "L": L, "rounds": rounds, "shape": shape}
        elif shape == "bigoffset":
            # large common offset 2^a with fine gaps 840*k*2^-b: exactly representable (and exactly summable /
            # averageable over <= 8 rounds) in float64 since a + b <= 48, but NOT in float32 (24-bit significand);
            # the order of the designs lives entirely in the low bits.  Integer cones and bundled theta-cones.
            a, b = rng.randint(20, 30), rng.randint(10, 18)
            K, L = max(K, 2), max(L, 1)
            off, stp = float(2 ** a), 840.0 / 2 ** b
            rounds = [[[off + stp * rng.randint(-4, 4) for _ in range(2)] for _ in range(K)]
                      for _ in range(L + extra)]
            case = {"kind": "run", "K": K, "L": L, "rounds": rounds, "shape": shape, "offset": off}
            if rng.random() < 0.5:
                case["cone"] = rng.choice(exact)
                case["int_dtype"] = rng.random() < 0.5
            else:
                case["theta"] = rng.choice(THETAS)
        elif shape == "fine":
            # non-integer dyadic observations whose differences are mostly below one unit, on user cones written
            # with integer rows: the cone matrix is given as an INTEGER-dtype array half of the time
            b = rng.randint(10, 14)
            K, L = max(K, 2), max(L, 1)
            rounds = [[[840.0 * rng.randint(-6, 6) / 2 ** b for _ in range(2)] for _ in range(K)]
                      for _ in range(L + extra)]
            case = {"kind": "run", "cone": rng.choice(exact), "K": K, "L": L, "rounds": rounds, "shape": shape,
                    "int_dtype": rng.random() < 0.7}
        elif shape == "float_theta":
            theta = rng.choice(THETAS)
            rounds = [[[rng.gauss(0, 1) for _ in range(2)] for _ in range(K)] for _ in range(L + extra)]
            case = {"kind": "run", "theta": theta, "K": K, "L": L, "rounds": rounds, "shape": shape}
        else:  # default L from the real constructor (kept small through a small variance)
            theta = rng.choice(THETAS)
            K = max(K, 2)
            nv = rng.choice([1e-4, 1e-3, 0.01, 0.02])
            e = rng.choice([0.1, 0.25, 0.5])
            d = rng.choice([0.05, 0.1, 0.2])
            nsteps = 12
            rounds = [[[rng.gauss(0, 1) for _ in range(2)] for _ in range(K)] for _ in range(nsteps)]
            case = {"kind": "run", "theta": theta, "K": K, "L": None, "noise_var": nv, "eps": e, "delta": d,
                    "rounds": rounds, "shape": shape}
        yield case


# ----------------------------------------------------------------------------- run_case
def run_case(ctx, case):
    kind = case["kind"]
    ctx.count("kind_" + kind)
    with warnings.catch_warnings():
        warnings.simplefilter("ignore")
        if kind == "L":
            _case_L(ctx, case)
        elif kind == "run":
            _case_run(ctx, case)
        elif kind == "mc":
            _case_mc(ctx, case)
        elif kind == "dataset":
            _case_dataset(ctx, case)
        else:
            raise ValueError("unknown case kind")


def _near_integer(x: float) -> bool:
    return abs(x - round(x)) <= 1e-9 + 1e-12 * abs(x)


def _case_L(ctx, case):
    from vopy.algorithms import NaiveElimination

    nv, eps, delta, theta, K = case["noise_var"], case["eps"], case["delta"], case["theta"], case["K"]
    order = theta_order(theta)
    cone = order.ordering_cone
    W = np.array(cone.W, dtype=float)
    mu = worst_instance(W, cone.alpha, eps, K, nv)
    try:
        with _Registered(mu) as name:
            algo = NaiveElimination(eps, delta, name, order, nv)
        L = int(algo.L)
        beta_code = float(cone.beta)
    except Exception as e:  # the property quantifies over all these configurations
        ctx.violation("ctor-crash:" + core.exc_key(e), f"NaiveElimination constructor raised {type(e).__name__}: {e}",
                      case)
        ctx.case_done(case, False)
        return
    # cross-link with the noise law (C20 owns it in general): the guarantee is about "Gaussian noise of the
    # CONFIGURED variance", and L is computed from the configured value, so the covariance the real problem
    # object samples with (M M^T for its Cholesky factor M) must be noise_var * I.  The closed form below is
    # evaluated with the variance the problem ACTUALLY uses.
    var_act, var_differs = nv, False
    M = getattr(getattr(algo, "problem", None), "noise_cholesky", None)
    if M is None:
        ctx.count("noise_cholesky_unavailable_info")
    else:
        M = np.asarray(M, dtype=float)
        cov = M @ M.T
        if cov.shape != (2, 2) or not np.all(np.abs(cov - nv * np.eye(2)) <= 1e-12 * nv):
            var_differs = True
            var_act = float(np.max(np.diag(cov))) if cov.ndim == 2 and cov.size else nv
            ctx.violation("noise-law-differs-from-configured",
                          f"the problem NaiveElimination samples from draws noise with covariance {cov.tolist()} "
                          f"although noise_var = {nv!r} is configured (and the default L is computed from it)",
                          case, kind="R", detail={"cov": cov.tolist(), "noise_var": nv})
        else:
            ctx.count("noise_law_matches_configured")
    ans = ctx.ask("L", bits(nv), bits(eps), bits(delta), bits(theta), "2", str(K)).split()
    if len(ans) != 5:
        raise RuntimeError(f"driver answered {ans!r}")
    Lcode, Lprop = int(ans[0]), int(ans[1])
    rawc, rawp, beta_m = unbits(ans[2]), unbits(ans[3]), unbits(ans[4])
    # hypotheses of the deterministic theorem on the real cone: unit normals, w1.w2 = -cos(theta)
    g = float(W[0] @ W[1])
    if (abs(np.linalg.norm(W[0]) - 1) > 1e-12 or abs(np.linalg.norm(W[1]) - 1) > 1e-12
            or abs(g + math.cos(math.radians(theta))) > 1e-12):
        ctx.violation("cone-hypothesis", "ConeTheta2D rows are not unit normals with w1.w2 = -cos(theta)", case,
                      kind="F", detail={"W": W.tolist()})
    # hypothesis of naive_deterministic_gram on the exported float matrix: B2 = pq/(pq-g^2) (acute) or 1,
    # computed exactly from the Gram entries, must be the code's beta^2 (so the theorem applies to this W)
    Wq = [[core.frac(x) for x in row] for row in W]
    pq_ = (Wq[0][0] ** 2 + Wq[0][1] ** 2) * (Wq[1][0] ** 2 + Wq[1][1] ** 2)
    gq = Wq[0][0] * Wq[1][0] + Wq[0][1] * Wq[1][1]
    if pq_ - gq * gq <= 0:
        ctx.violation("cone-degenerate", "ConeTheta2D rows are linearly dependent", case, kind="F")
    else:
        B2 = float(pq_ / (pq_ - gq * gq)) if gq < 0 else 1.0
        if abs(B2 - beta_code ** 2) > 1e-9 * max(1.0, B2):
            ctx.violation("beta-vs-gram", "beta^2 differs from the Gram-matrix constant pq/(pq-g^2) of the real W",
                          case, kind="F", detail={"B2": B2, "beta": beta_code})
        else:
            ctx.count("beta_matches_gram_constant")
    if abs(beta_code - beta_m) > 1e-12 * max(1.0, abs(beta_m)):
        ctx.violation("beta-differs", "ConeTheta2D.beta differs from the model term coneBeta", case, kind="F",
                      detail={"code": beta_code, "model": beta_m})
    # (F1) the constructor's L against the mirrored term (or the property's term, should the code be repaired)
    border_c, border_p = _near_integer(rawc), _near_integer(rawp)
    if L == Lcode and not border_c:
        ctx.count("L_equals_mirror")
        which = "mirror"
    elif L == Lprop and not border_p:
        ctx.count("L_equals_property_formula")
        which = "prop"
    elif (border_c and abs(L - rawc) <= 1.0 + 1e-6) or (border_p and abs(L - rawp) <= 1.0 + 1e-6):
        ctx.count("L_borderline_not_compared")
        which = "border"
    else:
        which = "neither"
        ctx.violation("L-differs-from-model",
                      f"algorithm.L = {L} but the mirrored term gives {Lcode} (pre-ceil {rawc!r}) and the "
                      f"property's term gives {Lprop} (pre-ceil {rawp!r})", case, kind="F",
                      detail={"L": L, "Lcode": Lcode, "Lprop": Lprop})
    if L != Lprop:
        ctx.count("L_below_property" if L < Lprop else "L_above_property")
    # (R) failure probability of the worst-case instance with the code's L
    if (L < Lprop and not border_p) or var_differs:
        if L <= 0:
            p, how = 1.0, "exact"
        else:
            p, how = p_fail_closed_form(theta, eps, var_act, L, cone.alpha)
        ctx.count("closed_form_evaluated")
        if p > delta * (1 + 1e-3) + 1e-7:
            detail = {"noise_var": nv, "eps": eps, "delta": delta, "K": K, "theta": theta, "L_code": L,
                      "L_property": Lprop, "failure_probability": p, "closed_form": how,
                      "instance_means": mu.tolist()}
            confirmed = True
            if case.get("mc") and L >= 1:
                runs = max(200, min(int(case.get("runs", 2000)), 40000 // max(L, 1)))
                hits = monte_carlo(order, mu, eps, delta, nv, L, runs, int(case.get("seed", 0)))
                f = hits / runs
                sd = math.sqrt(max(p * (1 - p), 1e-12) / runs)
                detail["monte_carlo"] = {"runs": runs, "seed": case.get("seed", 0), "returned_dominated": hits,
                                         "frequency": f, "band_5sigma": [p - 5 * sd - 1e-6, p + 5 * sd + 1e-6],
                                         "note": "statistical test"}
                ctx.count("mc_confirmations")
                confirmed = f - 5 * math.sqrt(max(f * (1 - f), 1e-12) / runs) > delta or abs(f - p) <= 5 * sd + 1e-6
                if abs(f - p) > 5 * sd + 1e-6:
                    ctx.violation("mc-disagrees-with-closed-form",
                                  f"Monte-Carlo frequency {f:.4f} outside the 5-sigma band of the closed form {p:.4f}",
                                  case, kind="F", detail=detail)
            if confirmed:
                variance_bug = which == "mirror" and nv != 1.0 and not var_differs
                key = ("naive-L-uses-variance-not-std" if variance_bug else
                       "naive-pac-fails-under-actual-noise" if var_differs and L >= Lprop else "naive-pac-fails")
                detail["noise_variance_actually_used"] = var_act
                ctx.violation(
                    key,
                    f"default L = {L} (property's formula: {Lprop}) for noise_var={nv}, eps={eps}, delta={delta}, "
                    f"K={K}, theta={theta}: P(return a design with gap {GAP}*eps) = {p:.4f} > delta"
                    + (" — the constructor puts noise_var where the standard deviation belongs" if variance_bug else ""),
                    case, kind="R", detail=detail)
        else:
            ctx.count("closed_form_within_delta")
    ctx.case_done(case, L != 1 or Lprop != 1, canon=["L", nv, eps, delta, theta, K])


def _case_mc(ctx, case):
    nv, eps, delta, theta, K, L = (case[k] for k in ("noise_var", "eps", "delta", "theta", "K", "L"))
    order = theta_order(theta)
    cone = order.ordering_cone
    mu = worst_instance(cone.W, cone.alpha, eps, K, nv)
    p, how = p_fail_closed_form(theta, eps, nv, L, cone.alpha)
    runs = int(case["runs"])
    hits = monte_carlo(order, mu, eps, delta, nv, L, runs, int(case["seed"]))
    f = hits / runs
    sd = math.sqrt(max(p * (1 - p), 1e-12) / runs)
    ctx.count("mc_runs", runs)
    if abs(f - p) > 5 * sd + 1e-6:
        ctx.violation("mc-disagrees-with-closed-form",
                      f"Monte-Carlo frequency {f:.4f} ({runs} runs) outside the 5-sigma band of the closed form "
                      f"{p:.4f} ({how})", case, kind="F", detail={"p": p, "freq": f, "sd": sd})
    else:
        ctx.count("mc_within_band")
    ctx.case_done(case, True, canon=["mc", nv, eps, delta, theta, K, L, case["seed"]])


def _case_run(ctx, case):
    from vopy.algorithms import NaiveElimination

    K = case["K"]
    exact = "cone" in case
    if exact:
        Wl, _ = EXACT_CONES[case["cone"]]
        order = int_order(Wl) if case.get("int_dtype") else real_order(Wl)
        m = len(Wl[0])
        if case.get("int_dtype"):
            ctx.count("runs_integer_dtype_cone")
    else:
        order = theta_order(case["theta"])
        m = 2
    rounds = [np.array(r, dtype=float).reshape(K, m) for r in case["rounds"]]
    W = np.array(order.ordering_cone.W, dtype=float)
    ws = core.qmat(W)
    ctx.count("shape_" + case["shape"])
    nsteps = len(rounds)
    trace = []
    requested = []  # observation matrices the algorithm actually asked for, in order
    try:
        with _Registered(np.zeros((K, m))) as name:
            if case["L"] is None:
                algo = NaiveElimination(case["eps"], case["delta"], name, order, case["noise_var"])
            else:
                algo = NaiveElimination(0.1, 0.1, name, order, 1.0, L=case["L"])
        L = int(algo.L)
        cursor = {"i": 0}

        def scripted(x, noisy=True):
            obs = rounds[cursor["i"]]
            requested.append(obs)
            return obs.copy()

        algo.problem.evaluate = scripted  # instance attribute on this object only
        try:  # P before the first observation (NaN means): outside the property, information only
            P0 = [int(i) for i in algo.P]
        except Exception:
            P0 = None
            ctx.count("P_before_first_sample_raises_info")
        trace.append(("-", int(algo.round), int(algo.sample_count), P0, 0))
        for s in range(nsteps):
            cursor["i"] = s
            done = bool(algo.run_one_step())
            if requested:
                Pn = [int(i) for i in algo.P]
            else:  # L = 0: still no observation
                try:
                    Pn = [int(i) for i in algo.P]
                except Exception:
                    Pn = None
            trace.append(("1" if done else "0", int(algo.round), int(algo.sample_count), Pn, len(requested)))
    except Exception as e:
        ctx.violation("run-crash:" + core.exc_key(e), f"NaiveElimination run raised {type(e).__name__}: {e}", case)
        ctx.case_done(case, False)
        return
    # (R) the observation tensor must hold the observations the problem returned, i.e. stay float64: any
    # narrower dtype rounds every observation and P is then computed from other numbers than those observed
    sd = getattr(algo.samples, "dtype", None)
    if sd != np.float64:
        ctx.violation("samples-not-float64",
                      f"algorithm.samples has dtype {sd}, not float64: observations are rounded when stored, so P "
                      "is not computed from the observations taken", case, kind="R", detail={"dtype": str(sd)})
    elif requested and not np.array_equal(np.asarray(algo.samples), np.stack(requested, axis=1)):
        ctx.violation("samples-differ-from-observations",
                      "algorithm.samples is not the (K, round, m) tensor of the observations the problem returned",
                      case, kind="R")
    # model trace
    ans = ctx.ask("run", str(L), str(K), ws, core.qmats(rounds) if rounds else "_")
    model = []
    for rec in ans.split(";"):
        d, r, c, p = rec.split(":")
        model.append((d, int(r), int(c), core.parse_nats(p)))
    if len(model) != len(trace):
        raise RuntimeError("driver trace length mismatch: " + ans[:200])
    nontrivial = False
    prevP = None
    for step, (t, mo) in enumerate(zip(trace, model)):
        d, r, c, P, nreq = t
        # (R) P is a Pareto set of the exact means of everything observed so far
        if nreq >= 1:
            obs = np.stack(requested[:nreq], axis=1)  # (K, t, m)
            ss = core.qmats([obs[i] for i in range(K)])
            robust = True
            if not exact:
                mg = ctx.ask("margin", ws, ss)
                # rounding of `x @ W.T` acts on mean DIFFERENCES (the means themselves are exact here); with a
                # common offset the relevant scale is the spread, not the magnitude
                scale = max(1.0, float(np.ptp(obs)) if "offset" in case else float(np.abs(obs).max()))
                robust = mg == "none" or float(core.parse_q(mg)) > 1e-9 * scale
            if not robust:
                ctx.count("step_not_robust_not_compared")
                continue
            if ctx.ask("Pspec", ws, ss, core.nats(P)) != "ok":
                ctx.violation("P-not-pareto-of-means",
                              "algorithm.P is not a Pareto set (valid increasing indices, antichain, covering, "
                              "nothing strictly dominated) of the per-design means of all observations so far",
                              case, kind="R", detail={"step": step, "P": P, "round": r})
                break
            if len(P) < K:
                nontrivial = nontrivial or (prevP is not None and prevP != P) or len(P) >= 2
        # (F) return value, round, sample_count, P against the state machine
        if (d, r, c) != mo[:3]:
            ctx.violation("trace-differs",
                          f"after call {step}: (done, round, sample_count) = {(d, r, c)} but the model has {mo[:3]} "
                          f"(L = {L}, K = {K})", case, kind="F", detail={"impl": trace, "model": model})
            break
        if P != mo[3]:
            if nreq == 0:
                ctx.count("P_before_first_sample_differs_info")
            else:
                vi = sorted(tuple(np.mean(np.stack(requested[:nreq], axis=1)[i], axis=0)) for i in P)
                vm = sorted(tuple(np.mean(np.stack(requested[:nreq], axis=1)[i], axis=0)) for i in mo[3])
                if vi != vm:
                    ctx.violation("P-values-differ", "algorithm.P keeps other mean values than the model's naiveP",
                                  case, kind="F", detail={"step": step, "impl": P, "model": mo[3]})
                    break
                ctx.count("P_index_choice_differs_info")
        prevP = P
    ctx.count("runs_default_L" if case["L"] is None else "runs_given_L")
    ctx.count("run_L_%s" % (L if L < 9 else "9+"))
    ctx.case_done(case, nontrivial, canon=["run", case.get("cone", case.get("theta")), K, L, case["rounds"]])


def _case_dataset(ctx, case):
    """The real pipeline (bundled Dataset -> ProblemFromDataset -> NaiveElimination with its default L) under a
    user cone, seeded real noise.  The observations the problem returns are recorded through a proxy; after
    rounds 1, 2 and the last one (R) `P` must satisfy C13's relation w.r.t. their exact means (skipped when a
    dominance decision is within 1e-9 of a tie, since the float mean is rounded)."""
    from vopy.algorithms import NaiveElimination

    order = int_order(case["rows"], case.get("beta", 1.0)) if case.get("int_dtype") else real_order(case["rows"])
    W = np.array(order.ordering_cone.W, dtype=float)
    ws = core.qmat(W)
    state = np.random.get_state()
    recorded = []
    try:
        np.random.seed(int(case["seed"]))
        algo = NaiveElimination(case["eps"], case["delta"], case["dataset"], order, case["noise_var"])
        L, K = int(algo.L), int(algo.K)
        if L > 400:
            raise RuntimeError("dataset case with L > 400: choose cheaper parameters")
        real_eval = algo.problem.evaluate

        def recording(x, *a, **kw):
            y = real_eval(x, *a, **kw)
            recorded.append(np.array(y, dtype=float, copy=True))
            return y

        algo.problem.evaluate = recording
        probes = {}
        guard = 0
        while True:
            done = bool(algo.run_one_step())
            guard += 1
            if len(recorded) in (1, 2, L) and len(recorded) not in probes:
                probes[len(recorded)] = [int(i) for i in algo.P]
            if done or guard > L + 2:
                break
    except Exception as e:
        ctx.violation("run-crash:" + core.exc_key(e), f"NaiveElimination run raised {type(e).__name__}: {e}", case)
        ctx.case_done(case, False)
        return
    finally:
        np.random.set_state(state)
    for t, P in sorted(probes.items()):
        obs = np.stack(recorded[:t], axis=1)
        ss = core.qmats([obs[i] for i in range(K)])
        mg = ctx.ask("margin", ws, ss)
        if not (mg == "none" or float(core.parse_q(mg)) > 1e-9 * max(1.0, float(np.ptp(obs)))):
            ctx.count("step_not_robust_not_compared")
            continue
        if ctx.ask("Pspec", ws, ss, core.nats(P)) != "ok":
            ctx.violation("P-not-pareto-of-means",
                          f"{case['dataset']} data set, cone rows {case['rows']} (integer dtype: "
                          f"{bool(case.get('int_dtype'))}): algorithm.P = {P} after round {t} is not a Pareto set of "
                          "the per-design means of the observations the problem returned", case, kind="R",
                          detail={"round": t, "P": P, "model": ctx.ask("P", ws, ss)})
            break
        ctx.count("dataset_probe_ok")
    if "expect_P" in case and probes.get(L) is not None:
        ctx.count("dataset_final_P_as_expected_info" if probes[L] == case["expect_P"]
                  else "dataset_final_P_differs_from_expected_info")
    ctx.case_done(case, True, canon=["dataset", case["dataset"], case["rows"], case["seed"]])
