"""C09 — region "is dominated" decides  ∀z∈R₁ ∀z'∈R₂ : z' + slack ≽ z.

Real `vopy.confidence_region.confidence_region_is_dominated` on real
`RectangularConfidenceRegion` / `EllipsoidalConfidenceRegion` objects and real order objects, against
the Lean model `Rect.isDominatedChecked` (vertex-pair loop, exact `Rat`) and
`Ellipsoid.isDominatedChecked` (per-facet closed form decided by `sqrtIneq`), which
`Props/C09.lean` proves equivalent to the ∀∀ statement.

Streams
* rect-exact : dyadic-lattice bounds and slack, integer-row cones → the float path of the code is
  exact → EQUALITY with the model, boundary included (touching cases are constructed so that a
  vertex-pair functional is exactly 0, and one lattice step on either side of it).
  A quarter of the cases are small regions FAR from the origin (side 2^-13..2^-6 at |centre| 8..1000)
  whose worst vertex pair fails/holds by less than a region side, so every corner matters.
* rect-intW  : the same, with the cone matrix given as an int64 / int32 array or nested int lists (as in
  the `OrderingCone` docstring) and fractional dyadic boxes / slacks — equality on the stored `W`.
* hist       : the same two region objects are queried, mutated through a public mutator (`update` with
  `intersect_iteratively` on/off, `intersect`, assignment to `lower`/`upper`; ellipsoid `update`,
  assignment to `center`/`sigma`/`alpha`) and queried again: every answer must be the model's verdict
  for the regions' CURRENT attributes (read back from the objects).
* rect-intB  : one bound of one region handed over in an integer container (int64 / int32 array or Python int
  list) with fractional floats for the other bound, both orientations (is_dominated enumerates the corners
  through `hyperrectangle_get_vertices`).
* hist-shared: several rectangle regions built from SHARED bound arrays (the same ndarray objects, directly or
  through the real `AdaptivelyDiscretizedDesignSpace.generate_child_designs`), `intersect_iteratively` on/off,
  update()/intersect() sequences on some of them; after every step (a) a region that was not updated must
  display unchanged bounds ((R) `region-mutated-by-sibling`), (b) every pairwise answer must be the model's
  verdict on the bounds each region SHOULD display (tracked with the C14 model's intersect law, Lean op
  `intersect`) ((R) `shared-rect-decision`).
* rect-float : arbitrary floats, bundled orders / random float cones → borderline band
  (also small regions far from the origin: side 1e-4..1e-2 at |centre| 10..1000).
* ell        : ellipsoids (SOCP per facet in the code) → borderline band.
* badslack   : wrong slack size → `ValueError` in both.

Band: the model decides twice, with every facet threshold moved by ±t, t = 1e-6·scale; the code is
compared only when both agree ("robust"); otherwise the case is counted as borderline.
"""
from __future__ import annotations

import itertools
import math
from fractions import Fraction

import numpy as np

from harness import core
from harness.cones import EXACT_CONES

TITLE = "confidence_region_is_dominated (rectangles, ellipsoids) vs Lean model"
RULE = ("cases: (order, region pair, slack); relation shapes identical/nested/overlapping/touching-face/"
        "touching-vertex/disjoint-dominated/disjoint-incomparable crossed with a placement mode that moves "
        "region 2 so that a chosen facet functional's minimum hits a target (0, ±1 lattice step, ±band "
        "multiples, far); sizes 2^-13..2^7 (1e-4..1e2), anisotropy ≤1e4, correlation ≤0.99, cones with N≥m "
        "facets (float, int64, int32, nested-int-list cone matrices), scalar/vector slack, wrong-size slack; "
        "small regions far from the origin (side 1e-4..1e-2, |centre| up to 1000); query–mutate–query histories "
        "through every public mutator of both region classes; non-trivial = slack accepted, verdict compared "
        "(exact or robust) and the shape does not fix the verdict; distinct by the full numeric case")
ASSUMPTIONS = [
    "rect-exact stream: dyadic-lattice data and integer cone rows, so numpy's float path is exact",
    "band streams: compared only when the exact model gives the same verdict with all facet thresholds "
    "moved by ±1e-6·scale (scale = max(1,‖data‖∞)·max(1,max‖w_n‖₁))",
    "slack is passed as a Python float or a numpy array (a Python list is outside the documented type)",
]
TAU = 1e-6

# ------------------------------------------------------------------------------------------ cones
OWN_CONES = {
    "ray1": [[1]],
    "ray1x2": [[2], [1]],
    "orthant4": [[1, 0, 0, 0], [0, 1, 0, 0], [0, 0, 1, 0], [0, 0, 0, 1]],
    "mixed4": [[2, -1, 0, 0], [0, 2, -1, 0], [0, 0, 2, -1], [1, 1, 1, 1], [-1, 0, 0, 2]],
}
INT_CONES = {k: v[0] for k, v in EXACT_CONES.items()}
INT_CONES.update(OWN_CONES)

_order_cache: dict = {}
_given_cache: dict = {}


def given_W(spec):
    """the facet matrix THE CALLER handed to `OrderingCone(...)` (float copy), rows in the caller's order —
    the per-facet slack of the property is indexed by these rows"""
    build_order(spec)
    return _given_cache[repr(spec)].copy()


def build_order(spec):
    """real order object built by the real constructors (cached per spec); the matrix argument received by
    `OrderingCone.__init__` is recorded (wrapper installed only for the duration of the construction)"""
    key = repr(spec)
    if key in _order_cache:
        return _order_cache[key]
    import vopy.ordering_cone as _oc

    seen = []
    orig_init = _oc.OrderingCone.__init__

    def recording_init(self, W, *a, **kw):
        seen.append(np.array(W, dtype=float))
        return orig_init(self, W, *a, **kw)

    _oc.OrderingCone.__init__ = recording_init
    try:
        o = _construct_order(spec)
    finally:
        _oc.OrderingCone.__init__ = orig_init
    if len(seen) != 1:
        raise RuntimeError("expected exactly one OrderingCone construction, saw %d" % len(seen))
    if len(_order_cache) > 400:
        _order_cache.clear()
        _given_cache.clear()
    _order_cache[key] = o
    _given_cache[key] = np.atleast_2d(seen[0])
    return o


def _construct_order(spec):
    from vopy.order import (ComponentwiseOrder, ConeOrder3D, ConeOrder3DIceCream, ConeTheta2DOrder,
                            PolyhedralConeOrder)
    from vopy.ordering_cone import OrderingCone

    t = spec["t"]
    if t == "int":
        dt = spec.get("dtype", "float")
        rows = [list(r) for r in INT_CONES[spec["name"]]]
        if dt == "list":      # nested Python int lists (np.array(...) inside OrderingCone → int64)
            o = PolyhedralConeOrder(OrderingCone(rows))
        else:                 # "float" | "int64" | "int32": the class docstring itself uses an int array
            o = PolyhedralConeOrder(OrderingCone(np.array(rows, dtype={"float": float, "int64": np.int64,
                                                                       "int32": np.int32}[dt])))
    elif t == "W":
        o = PolyhedralConeOrder(OrderingCone(np.array(spec["W"], dtype=float)))
    elif t == "comp":
        o = ComponentwiseOrder(spec["dim"])
    elif t == "theta2d":
        o = ConeTheta2DOrder(spec["deg"])
    elif t == "cone3d":
        o = ConeOrder3D(spec["ct"])
    elif t == "icecream":
        o = ConeOrder3DIceCream(spec["deg"], spec["k"])
    else:
        raise ValueError(t)
    return o


def build_slack(vals, form):
    if form == "py":
        return float(vals[0])
    if form == "0d":
        return np.array(float(vals[0]))
    if form == "row":        # the same m values as a (1, m) row, e.g. `eps * u_star[None, :]` or a row of a 2-D table
        return np.array([[float(v) for v in vals]], dtype=float)
    return np.array([float(v) for v in vals], dtype=float)


# ------------------------------------------------------------------------------------------ helpers
def F(x):
    return core.frac(x)


def rect_margins(W, l1, u1, l2, u2, s):
    """exact per-facet minimum over both boxes of w·(z' + s − z) (Fractions)"""
    out = []
    for w in W:
        t = Fraction(0)
        for j, wj in enumerate(w):
            wj = F(wj)
            t += min(wj * F(l2[j]), wj * F(u2[j])) + wj * F(s[j]) - max(wj * F(l1[j]), wj * F(u1[j]))
        out.append(t)
    return out


def ell_margins(W, c1, S1, a1, c2, S2, a2, s):
    """float per-facet closed form + slack (generator only; the verdict comes from Lean)"""
    W = np.asarray(W, float)
    out = []
    for n, w in enumerate(W):
        out.append(float(w @ (np.asarray(c2) - np.asarray(c1)) - a1 * math.sqrt(max(0.0, w @ S1 @ w))
                         - a2 * math.sqrt(max(0.0, w @ S2 @ w)) + s[n]))
    return out


_pow2 = {1, 2, 4, 8, 16, 32}
_dir_cache: dict = {}


def int_dirs(name):
    """for an integer cone: list of (facet n, integer direction d) with W d > 0 (or ≥ 0 when the cone
    has no such small direction) and w_n·d a power of two, so that shifting by a dyadic multiple of d
    moves facet n's functional by a dyadic amount"""
    if name in _dir_cache:
        return _dir_cache[name]
    W = INT_CONES[name]
    m = len(W[0])
    res = []
    rngs = [range(-3, 4)] * m
    cands = sorted(itertools.product(*rngs), key=lambda d: sum(abs(x) for x in d))
    for n in range(len(W)):
        found = []
        for strict in (True, False):
            for d in cands:
                v = [sum(a * b for a, b in zip(w, d)) for w in W]
                if v[n] in _pow2 and all((x > 0) if strict else (x >= 0) for x in v):
                    found.append((n, list(d)))
                    if len(found) >= 3:
                        break
            if found:
                break
        if not found:  # any direction moving facet n by a power of two
            for d in cands:
                if sum(a * b for a, b in zip(W[n], d)) in _pow2:
                    found.append((n, list(d)))
                    break
        res += found
    _dir_cache[name] = res
    return res


def interior_dir(W):
    W = np.asarray(W, float)
    d = np.linalg.pinv(W) @ np.ones(W.shape[0])
    if (W @ d).min() <= 1e-9:
        d = W.mean(axis=0)
    nrm = np.abs(d).max()
    return d / nrm if nrm > 0 else np.ones(W.shape[1])


# ------------------------------------------------------------------------------------------ generators
REL = ["identical", "nested12", "nested21", "overlap", "disjoint", "corner", "degenerate", "point"]
MODES = ["asis", "touch", "touch", "step+", "step-", "far+", "far-", "incomparable", "random"]


def dy(rng, lo, hi, p):
    return Fraction(rng.randint(lo, hi), 2 ** p)


def gen_rect_exact(ctx, rng, dtype=None, intbound=False):
    name = rng.choice(sorted(INT_CONES))
    W = INT_CONES[name]
    m = len(W[0])
    p = rng.choice([0, 1, 2, 4, 8, 13])            # lattice 2^-p
    big = rng.choice([1, 1, 4, 16, 128])           # overall magnitude
    if dtype is not None:                          # integer-dtype cone: fractional data matter
        p = rng.choice([1, 2, 4, 8])
        big = rng.choice([1, 1, 2, 4, 16])
    if intbound:                                   # one bound in an integer container, fractional counterpart
        p = rng.choice([1, 2, 4, 8])
        big = rng.choice([1, 2, 4, 16])
    remote = rng.random() < 0.25 and not intbound
    if remote:                                     # small region far from the origin:
        p = rng.choice([10, 13])                   # side 2^-13..2^-6 (1e-4..1.5e-2), |centre| 8..1000
        big = rng.choice([8, 64, 128, 1000, 1000])
    step = Fraction(1, 2 ** p)
    K = big * 2 ** p
    rel = rng.choice(REL)
    c1 = [dy(rng, -K, K, p) for _ in range(m)]
    h1 = [dy(rng, 1, max(1, K // rng.choice([1, 2, 8, 64])), p) for _ in range(m)]
    h2 = [dy(rng, 1, max(1, K // rng.choice([1, 2, 8, 64])), p) for _ in range(m)]
    if remote:
        c1 = [dy(rng, K // 2, K, p) * rng.choice([-1, 1]) for _ in range(m)]
        hmax = 2 ** (p - 7)
        h1 = [dy(rng, 1, rng.choice([2, 8, hmax]), p) for _ in range(m)]
        h2 = [dy(rng, 1, rng.choice([2, 8, hmax]), p) for _ in range(m)]
    c2 = list(c1)
    if rel == "identical":
        h2 = list(h1)
    elif rel == "nested12":
        h2 = [h + dy(rng, 0, max(1, K // 4), p) for h in h1]
    elif rel == "nested21":
        h2 = [h / 2 if (h / 2) % step == 0 else h for h in h1]
    elif rel == "overlap":
        c2 = [c + h * rng.choice([-1, 0, 1]) for c, h in zip(c1, h1)]
    elif rel == "disjoint":
        c2 = [c + (a + b + dy(rng, 0, 64 if remote else K, p)) * rng.choice([-1, 1])
              for c, a, b in zip(c1, h1, h2)]
    elif rel == "degenerate":
        for j in range(m):
            if rng.random() < 0.5:
                h1[j] = Fraction(0)
            if rng.random() < 0.5:
                h2[j] = Fraction(0)
    elif rel == "point":
        h1 = [Fraction(0)] * m
        if rng.random() < 0.5:
            h2 = [Fraction(0)] * m
    l1 = [c - h for c, h in zip(c1, h1)]
    u1 = [c + h for c, h in zip(c1, h1)]
    cont = None
    if intbound:
        # (int64 / int32 array or Python int list) for ONE bound of one region, fractional floats for the other
        # bound — both orientations; box 1 is rounded before the placement (near-boundary cases survive)
        cont = {"which": rng.choice(["l1", "l1", "u1", "u1", "l2", "u2"]), "as": rng.choice(["int64", "int32", "list"])}
        if cont["which"] == "l1":
            l1 = [Fraction(math.floor(x)) for x in l1]
            u1 = [x + step if x.denominator == 1 else x for x in u1]
        elif cont["which"] == "u1":
            u1 = [Fraction(math.ceil(x)) for x in u1]
            l1 = [x - step if x.denominator == 1 else x for x in l1]
    # slack
    sk = rng.choice(["zero", "scalar", "scalar", "vector", "vector", "negscalar"])
    KS = 256 if remote else K                      # slack magnitude (lattice steps)
    if sk == "zero":
        svals, form = [Fraction(0)], rng.choice(["py", "0d", "vec"])
    elif sk == "scalar":
        svals, form = [dy(rng, 0, max(1, KS // 4), p)], rng.choice(["py", "0d", "vec"])
    elif sk == "negscalar":
        svals, form = [-dy(rng, 0, max(1, KS // 4), p)], rng.choice(["py", "0d", "vec"])
    else:
        svals, form = [dy(rng, -max(1, KS // 8), max(1, KS // 4), p) for _ in range(m)], rng.choice(["vec", "vec", "row"])
    sfull = svals * m if len(svals) == 1 and m != 1 else list(svals)
    if len(sfull) != m:
        sfull = [svals[0]] * m
    if rel == "corner":
        l2 = [u - s for u, s in zip(u1, sfull)]
        c2 = [l + h for l, h in zip(l2, h2)]
    l2 = [c - h for c, h in zip(c2, h2)]
    u2 = [c + h for c, h in zip(c2, h2)]
    mode = rng.choice(MODES) if rel != "corner" else rng.choice(["asis", "asis", "step+", "step-"])
    if remote and rng.random() < 0.5:
        # the worst vertex pair fails / holds by less than a region side: every corner matters
        mode = rng.choice(["inside-", "inside-", "inside+"])
    if mode not in ("asis",):
        dirs = int_dirs(name)
        marg = rect_margins(W, l1, u1, l2, u2, sfull)
        target = {"touch": Fraction(0), "step+": step, "step-": -step,
                  "far+": Fraction(K, 2 ** p) * 4 + 1, "far-": -(Fraction(K, 2 ** p) * 4 + 1),
                  "random": dy(rng, -4, 4, p) if not remote else dy(rng, -64, 64, p),
                  "incomparable": Fraction(0),
                  "inside-": -dy(rng, 1, max(1, int(min(h1 + h2) / step)), p),
                  "inside+": dy(rng, 1, max(1, int(min(h1 + h2) / step)), p)}[mode]
        best = None
        order_ = list(dirs)
        rng.shuffle(order_)
        for n, d in (order_ + order_)[:max(6, len(order_))]:
            wd = sum(a * b for a, b in zip(W[n], d))
            lam = (target - marg[n]) / wd
            shift = [lam * x for x in d]
            if mode == "incomparable":
                # move sideways: a direction that is neither in the cone nor in its negative if possible
                shift = [dy(rng, -(256 if remote else K), 256 if remote else K, p) for _ in range(m)]
            nl2 = [a + b for a, b in zip(l2, shift)]
            nu2 = [a + b for a, b in zip(u2, shift)]
            nm = rect_margins(W, l1, u1, nl2, nu2, sfull)
            best = (nl2, nu2)
            if mode == "incomparable" or all(x >= target for x in nm) or rng.random() < 0.05:
                break
        l2, u2 = best
    if cont and cont["which"] == "l2":
        l2 = [Fraction(math.floor(x)) for x in l2]
        u2 = [x + step if x.denominator == 1 else x for x in u2]
    elif cont and cont["which"] == "u2":
        u2 = [Fraction(math.ceil(x)) for x in u2]
        l2 = [x - step if x.denominator == 1 else x for x in l2]
    spec = {"t": "int", "name": name}
    if dtype is not None:
        spec["dtype"] = dtype
    case = {"kind": "rect", "exact": True, "order": spec,
            "l1": [float(x) for x in l1], "u1": [float(x) for x in u1],
            "l2": [float(x) for x in l2], "u2": [float(x) for x in u2],
            "slack": [float(x) for x in svals], "sform": form,
            "shape": ("remote-" if remote else "") + rel + "/" + mode}
    if cont:
        case["cont"] = cont
    # exactness guard of the generator itself: every number must fit comfortably in a double
    for k in ("l1", "u1", "l2", "u2", "slack"):
        for x, y in zip(case[k], {"l1": l1, "u1": u1, "l2": l2, "u2": u2, "slack": svals}[k]):
            if Fraction(x) != y or abs(y) > 2 ** 20:
                return None
    return case


FLOAT_ORDERS = [
    {"t": "comp", "dim": 2}, {"t": "comp", "dim": 3},
    {"t": "theta2d", "deg": 45}, {"t": "theta2d", "deg": 60}, {"t": "theta2d", "deg": 90},
    {"t": "theta2d", "deg": 120}, {"t": "theta2d", "deg": 135}, {"t": "theta2d", "deg": 20},
    {"t": "cone3d", "ct": "acute"}, {"t": "cone3d", "ct": "right"}, {"t": "cone3d", "ct": "obtuse"},
    {"t": "icecream", "deg": 90, "k": 4}, {"t": "icecream", "deg": 60, "k": 6},
    {"t": "icecream", "deg": 45, "k": 8}, {"t": "icecream", "deg": 30, "k": 3},
]


def pick_order(ctx, rng, nprng, allow_int=True):
    r = rng.random()
    if allow_int and r < 0.3:
        return {"t": "int", "name": rng.choice(sorted(INT_CONES))}
    if r < 0.8:
        return rng.choice(FLOAT_ORDERS)
    # random float cone, N ≥ m facets, rows around the positive diagonal so the cone is non-trivial;
    # a small pool per worker keeps the number of OrderingCone constructions (N solver calls each) low
    pool = ctx.__dict__.setdefault("_c09_pool", [])
    if len(pool) < 12:
        m = rng.choice([2, 3, 3, 4])
        N = m + rng.choice([0, 0, 1, 2, 3])
        Wm = np.ones((N, m)) * rng.choice([0.2, 0.5, 1.0]) + nprng.normal(size=(N, m))
        Wm = Wm * (10.0 ** nprng.uniform(-1, 1, size=(N, 1)))
        pool.append({"t": "W", "W": Wm.tolist()})
    return rng.choice(pool)


def band_targets(rng, t):
    return rng.choice([0.0, 1.5 * t, -1.5 * t, 3 * t, -3 * t, 30 * t, -30 * t, 1e3 * t, -1e3 * t, 0.3 * t,
                       -0.3 * t, None, None, "far+", "far-"])


def gen_rect_float(ctx, rng, nprng):
    spec = pick_order(ctx, rng, nprng)
    order = build_order(spec)
    W = given_W(spec)
    N, m = W.shape
    mag = 10.0 ** nprng.uniform(-2, 2)
    c1 = nprng.normal(size=m) * mag
    h1 = 10.0 ** nprng.uniform(-4, 2, size=m) * (1 if rng.random() < 0.5 else 10.0 ** nprng.uniform(-4, 2) / 100)
    h2 = 10.0 ** nprng.uniform(-4, 2, size=m) * (1 if rng.random() < 0.5 else 10.0 ** nprng.uniform(-4, 2) / 100)
    h1 = np.clip(h1, 1e-4 / 2, 1e2 / 2)
    h2 = np.clip(h2, 1e-4 / 2, 1e2 / 2)
    remote = rng.random() < 0.25
    if remote:   # size 1e-4..1e-2 at |centre| 10..1000
        c1 = 10.0 ** nprng.uniform(1, 3, size=m) * nprng.choice([-1, 1], size=m)
        h1 = 10.0 ** nprng.uniform(-4, -2, size=m) / 2
        h2 = 10.0 ** nprng.uniform(-4, -2, size=m) / 2
    rel = rng.choice(["identical", "nested12", "nested21", "overlap", "disjoint"])
    c2 = c1.copy()
    if rel == "identical":
        h2 = h1.copy()
    elif rel == "nested12":
        h2 = h1 * (1 + nprng.uniform(0, 2, size=m))
    elif rel == "nested21":
        h2 = h1 * nprng.uniform(0.05, 1, size=m)
    elif rel == "overlap":
        c2 = c1 + (h1 + h2) * nprng.uniform(-1, 1, size=m)
    else:
        c2 = c1 + (h1 + h2) * nprng.uniform(1, 3, size=m) * nprng.choice([-1, 1], size=m)
    sk = rng.choice(["zero", "scalar", "vector", "neg"])
    if sk == "zero":
        svals, form = [0.0], rng.choice(["py", "0d", "vec"])
    elif sk == "scalar":
        svals, form = [float(10.0 ** nprng.uniform(-4, -2 if remote else 1))], rng.choice(["py", "0d", "vec"])
    elif sk == "neg":
        svals, form = [-float(10.0 ** nprng.uniform(-4, -2 if remote else 0))], rng.choice(["py", "0d", "vec"])
    else:
        svals, form = [float(x) for x in nprng.normal(size=m) * 10.0 ** nprng.uniform(-4, -2 if remote else 1)], rng.choice(["vec", "vec", "row"])
    sfull = np.array(svals * m if len(svals) == 1 else svals)[:m]
    l1, u1, l2, u2 = c1 - h1, c1 + h1, c2 - h2, c2 + h2
    scale = max(1.0, np.abs(np.concatenate([l1, u1, l2, u2, sfull])).max()) * max(1.0, np.abs(W).sum(axis=1).max())
    t = TAU * scale
    tgt = band_targets(rng, t)
    mode = "asis"
    if tgt is not None:
        marg = [float(x) for x in rect_margins(W, l1, u1, l2, u2, sfull)]
        d = interior_dir(W)
        wd = W @ d
        if tgt in ("far+", "far-"):
            tg = (4 * scale) * (1 if tgt == "far+" else -1)
        else:
            tg = tgt
        lams = [(tg - marg[n]) / wd[n] if abs(wd[n]) > 1e-9 else 0.0 for n in range(N)]
        n = int(np.argmax(lams)) if rng.random() < 0.8 else rng.randrange(N)
        l2 = l2 + lams[n] * d
        u2 = u2 + lams[n] * d
        mode = "target:%s" % (tgt if isinstance(tgt, str) else ("%+.0e" % (tgt / t) if tgt else "0"))
        if not np.all(l2 <= u2):
            return None
    return {"kind": "rect", "exact": False, "order": spec,
            "l1": l1.tolist(), "u1": u1.tolist(), "l2": l2.tolist(), "u2": u2.tolist(),
            "slack": svals, "sform": form, "shape": ("remote-" if remote else "") + rel + "/" + mode}


def rand_sigma(rng, nprng, m):
    """Σ = L Lᵀ with controlled anisotropy (≤ 1e4 in axis length) / correlation (≤ 0.99)"""
    how = rng.choice(["iso", "diag", "rot", "corr"])
    size = 10.0 ** nprng.uniform(-4, 2) if rng.random() < 0.5 else 1.0
    if how == "iso":
        S = np.eye(m) * size ** 2
    elif how == "diag":
        S = np.diag((size * 10.0 ** (-nprng.uniform(0, 4, size=m))) ** 2)
    elif how == "rot":
        Q, _ = np.linalg.qr(nprng.normal(size=(m, m)))
        ev = size * 10.0 ** (-nprng.uniform(0, 4, size=m) * rng.choice([0.25, 0.5, 1.0]))
        L = Q @ np.diag(ev)
        S = L @ L.T
    else:
        sd = size * 10.0 ** (-nprng.uniform(0, 2, size=m))
        rho = rng.choice([0.0, 0.5, -0.5, 0.9, -0.9, 0.99, -0.99])
        if m == 2:
            C = np.array([[1.0, rho], [rho, 1.0]])
        else:  # equicorrelation needs rho > -1/(m-1); use AR(1) structure instead
            C = np.array([[rho ** abs(i - j) for j in range(m)] for i in range(m)])
        S = C * np.outer(sd, sd)
    S = (S + S.T) / 2
    return S, how


def gen_ell(ctx, rng, nprng):
    spec = pick_order(ctx, rng, nprng)
    order = build_order(spec)
    W = given_W(spec)
    N, m = W.shape
    S1, how1 = rand_sigma(rng, nprng, m)
    rel = rng.choice(["identical", "nested12", "nested21", "overlap", "disjoint", "othershape"])
    a1 = float(10.0 ** nprng.uniform(-4, 2)) if abs(S1).max() == 1.0 or rng.random() < 0.3 else float(nprng.uniform(0.5, 5))
    mag = 10.0 ** nprng.uniform(-2, 2)
    c1 = nprng.normal(size=m) * mag
    r1 = a1 * math.sqrt(np.diag(S1).max())
    if rel == "identical":
        S2, a2, c2 = S1.copy(), a1, c1.copy()
    elif rel == "nested12":
        S2, a2, c2 = S1.copy(), a1 * float(nprng.uniform(1, 3)), c1.copy()
    elif rel == "nested21":
        S2, a2, c2 = S1.copy(), a1 * float(nprng.uniform(0.05, 1)), c1.copy()
    else:
        S2, _ = rand_sigma(rng, nprng, m)
        a2 = float(10.0 ** nprng.uniform(-4, 2)) if abs(S2).max() == 1.0 or rng.random() < 0.3 else float(nprng.uniform(0.5, 5))
        r2 = a2 * math.sqrt(np.diag(S2).max())
        k = {"overlap": nprng.uniform(-1, 1, size=m), "othershape": np.zeros(m)}.get(
            rel, nprng.uniform(1, 3, size=m) * nprng.choice([-1, 1], size=m))
        c2 = c1 + (r1 + r2) * k
    r2 = a2 * math.sqrt(np.diag(S2).max())
    if max(r1, r2) > 1e3 or min(r1, r2) < 1e-6:
        return None
    sk = rng.choice(["zero", "scalar", "vector", "neg"])
    if sk == "zero":
        svals, form = [0.0], rng.choice(["py", "0d", "vec"])
    elif sk == "scalar":
        svals, form = [float(10.0 ** nprng.uniform(-4, 1))], rng.choice(["py", "0d", "vec"])
    elif sk == "neg":
        svals, form = [-float(10.0 ** nprng.uniform(-4, 0))], rng.choice(["py", "0d", "vec"])
    else:
        svals, form = [float(x) for x in nprng.normal(size=N) * 10.0 ** nprng.uniform(-4, 1)], "vec"
    sfull = np.array(svals * N if len(svals) == 1 else svals)[:N]
    scale = ell_scale(W, c1, S1, a1, c2, S2, a2, sfull)
    t = TAU * scale
    tgt = band_targets(rng, t)
    mode = "asis"
    if tgt is not None:
        marg = ell_margins(W, c1, S1, a1, c2, S2, a2, sfull)
        d = interior_dir(W)
        wd = W @ d
        tg = (4 * scale) * (1 if tgt == "far+" else -1) if isinstance(tgt, str) else tgt
        lams = [(tg - marg[n]) / wd[n] if abs(wd[n]) > 1e-9 else 0.0 for n in range(N)]
        n = int(np.argmax(lams)) if rng.random() < 0.8 else rng.randrange(N)
        c2 = c2 + lams[n] * d
        mode = "target:%s" % (tgt if isinstance(tgt, str) else ("%+.0e" % (tgt / t) if tgt else "0"))
    return {"kind": "ell", "order": spec, "c1": c1.tolist(), "S1": S1.tolist(), "a1": a1,
            "c2": np.asarray(c2).tolist(), "S2": S2.tolist(), "a2": a2, "slack": svals, "sform": form,
            "shape": rel + "/" + mode, "sigma": how1}


def ell_scale(W, c1, S1, a1, c2, S2, a2, sfull):
    data = max(1.0, float(np.abs(c1).max()), float(np.abs(c2).max()),
               a1 * math.sqrt(float(np.diag(S1).max())), a2 * math.sqrt(float(np.diag(S2).max())),
               float(np.abs(sfull).max()) if len(sfull) else 0.0)
    return data * max(1.0, float(np.abs(W).sum(axis=1).max()))


def gen_badslack(ctx, rng, nprng):
    kind = rng.choice(["rect", "ell", "ell", "negalpha"])
    spec = pick_order(ctx, rng, nprng)
    order = build_order(spec)
    W = given_W(spec)
    N, m = W.shape
    if kind == "negalpha":  # outside the property's quantifier: information only
        return {"kind": "ell", "order": spec, "c1": [0.0] * m, "S1": np.eye(m).tolist(),
                "a1": rng.choice([-1.0, 1.0, -0.5]), "c2": [float(core.dyadic(rng, -8, 8, 1)) for _ in range(m)],
                "S2": np.eye(m).tolist(), "a2": rng.choice([-1.0, -2.0]), "slack": [0.0], "sform": "0d",
                "shape": "negalpha", "sigma": "iso"}
    good = {1, m} if kind == "rect" else {1, N}
    sizes = [k for k in [0, 2, 3, 4, 5, 6, 7, N, m, m + 1, N + 1, 2 * m] if k not in good]
    k = rng.choice(sizes)
    svals = [float(core.dyadic(rng, -4, 4, 1)) for _ in range(k)]
    if kind == "rect":
        return {"kind": "rect", "exact": False, "order": spec, "l1": [0.0] * m, "u1": [1.0] * m,
                "l2": [2.0] * m, "u2": [3.0] * m, "slack": svals, "sform": "vec", "shape": "badslack"}
    return {"kind": "ell", "order": spec, "c1": [0.0] * m, "S1": np.eye(m).tolist(), "a1": 1.0,
            "c2": [3.0] * m, "S2": np.eye(m).tolist(), "a2": 1.0, "slack": svals, "sform": "vec",
            "shape": "badslack", "sigma": "iso"}


# ---- history stream: the same two region objects are queried, mutated through a public mutator, queried again
def _dybox(rng, m, p, K):
    c = [dy(rng, -K, K, p) for _ in range(m)]
    h = [dy(rng, 0, max(1, K // rng.choice([1, 2, 8])), p) for _ in range(m)]
    return [float(a - b) for a, b in zip(c, h)], [float(a + b) for a, b in zip(c, h)]


def gen_hist_rect(ctx, rng):
    # m ≥ 2: RectangularConfidenceRegion.update squeezes a 1×1 covariance to 0-d and np.diag rejects it
    # (single-objective update is not part of this property)
    name = rng.choice(sorted(k for k in INT_CONES if len(INT_CONES[k][0]) >= 2))
    m = len(INT_CONES[name][0])
    p = rng.choice([1, 2, 4])
    K = rng.choice([2, 4, 16]) * 2 ** p
    l1, u1 = _dybox(rng, m, p, K)
    l2, u2 = _dybox(rng, m, p, K)
    dvec = int_dirs(name)[0][1]                       # integer direction inside the cone
    far = [float(6 * (K // 2 ** p) * x) for x in dvec]

    def up(v):
        return [a + b for a, b in zip(v, far)]

    if rng.random() < 0.6:   # start from a dominated configuration so that later answers have to change
        l2, u2 = up(l2), up(u2)
    steps = []
    for _ in range(rng.randint(2, 6)):
        op = rng.choice(["update", "update", "intersect", "intersect", "assign", "assign_lower", "assign_upper"])
        tgt = rng.choice([1, 2])
        st = {"op": op, "target": tgt}
        if op == "update":
            st["mean"] = [float(dy(rng, -K, 2 * K, p)) for _ in range(m)]
            sd = [dy(rng, 0, max(1, K // 2), p) for _ in range(m)]     # exact square roots
            st["var"] = [float(x * x) for x in sd]
            st["scale"] = float(rng.choice([Fraction(1), Fraction(1, 2), Fraction(2), Fraction(3, 2)]))
            st["offdiag"] = float(dy(rng, -2, 2, 2))                   # ignored by the rectangle (only diag is used)
            if tgt == 2 and rng.random() < 0.6:
                st["mean"] = up(st["mean"])
        elif op in ("intersect", "assign"):
            st["lower"], st["upper"] = _dybox(rng, m, p, 2 * K)
            if tgt == 2 and rng.random() < 0.6:
                st["lower"], st["upper"] = up(st["lower"]), up(st["upper"])
        else:
            st["delta"] = [float(dy(rng, 0, K, p)) for _ in range(m)]  # lower -= delta / upper += delta keeps l ≤ u
        steps.append(st)
    sk = rng.choice(["zero", "scalar", "vector"])
    if sk == "zero":
        svals, form = [0.0], rng.choice(["py", "0d", "vec"])
    elif sk == "scalar":
        svals, form = [float(dy(rng, -K // 4, K // 2, p))], rng.choice(["py", "0d", "vec"])
    else:
        svals, form = [float(dy(rng, -K // 4, K // 2, p)) for _ in range(m)], "vec"
    return {"kind": "hist", "region": "rect", "order": {"t": "int", "name": name}, "l1": l1, "u1": u1, "l2": l2,
            "u2": u2, "iter": [rng.random() < 0.5, rng.random() < 0.5], "steps": steps, "slack": svals,
            "sform": form, "shape": "hist"}


def _py_intersect(l, u, L, U):
    """generator-side copy of the intersect law (the run-time oracle is the Lean op `intersect`)"""
    if any(a >= b for a, b in zip(l, U)) or any(a <= b for a, b in zip(u, L)):
        return list(L), list(U)
    return [max(a, b) for a, b in zip(l, L)], [min(a, b) for a, b in zip(u, U)]


def gen_hist_shared(ctx, rng):
    """several rectangle regions built from SHARED bound arrays (the same ndarray objects), either directly or
    through the real `AdaptivelyDiscretizedDesignSpace.generate_child_designs`; update()/intersect() sequences
    on some of them; after every step every region must still display the bounds it should and every pairwise
    is_dominated answer must be the model's verdict on those bounds"""
    name = rng.choice(sorted(k for k in INT_CONES if len(INT_CONES[k][0]) >= 2))
    m = len(INT_CONES[name][0])
    p = rng.choice([1, 2, 3])
    step = Fraction(1, 2 ** p)
    mode = rng.choice(["arrays", "arrays", "children"])
    base = [dy(rng, -4 * 2 ** p, 4 * 2 ** p, p) for _ in range(m)]
    regions = []      # [lower values, upper values] as Fractions, for the generator's own tracking
    case = {"kind": "shared", "mode": mode, "order": {"t": "int", "name": name}, "shape": "hist-shared"}
    if mode == "arrays":
        npts = rng.choice([3, 3, 4])
        pts = [base]
        for _ in range(npts - 1):
            pts.append([a + dy(rng, 2, 6 * 2 ** p, p) for a in pts[-1]])
        pairs = [(i, j) for i in range(npts) for j in range(i + 1, npts)]
        rng.shuffle(pairs)
        pairs = pairs[:rng.choice([2, 3, 3, 4])]
        if rng.random() < 0.3:
            pairs.append(pairs[0])          # a region cloned from another one (both arrays shared)
        case["pts"] = [[float(x) for x in q] for q in pts]
        case["regions"] = [[i, j, rng.random() < 0.65] for i, j in pairs]
        regions = [[list(pts[i]), list(pts[j])] for i, j in pairs]
    else:
        h = [dy(rng, 2, 6 * 2 ** p, p) for _ in range(m)]
        l0, u0 = [a - b for a, b in zip(base, h)], [a + b for a, b in zip(base, h)]
        dd = rng.choice([1, 1, 2])
        case["root_mean"] = [float(x) for x in base]
        case["root_std"] = [float(x) for x in h]
        case["domain_dim"] = dd
        case["iters"] = [rng.random() < 0.65 for _ in range(1 + 2 ** dd)]
        regions = [[list(l0), list(u0)] for _ in range(1 + 2 ** dd)]
    # one or two independent regions built from fresh arrays
    fresh = []
    for _ in range(rng.choice([1, 1, 2])):
        src = rng.choice(regions)
        off = rng.choice([-1, 0, 1, 2])
        l = [a + off * (b - a) / 2 + dy(rng, -2, 2, p) for a, b in zip(src[0], src[1])]
        u = [a + dy(rng, 1, 3 * 2 ** p, p) for a in l]
        fresh.append([[float(x) for x in l], [float(x) for x in u], rng.random() < 0.5])
        regions.append([l, u])
    case["fresh"] = fresh
    nreg = len(regions)
    iters = ([r[2] for r in case["regions"]] if mode == "arrays" else list(case["iters"])) + [f[2] for f in fresh]
    if not any(iters[:nreg - len(fresh)]):
        if mode == "arrays":
            case["regions"][0][2] = True
        else:
            case["iters"][1] = True
        iters[0 if mode == "arrays" else 1] = True
    steps = []
    for _ in range(rng.randint(1, 4)):
        cand = [k for k in range(nreg - len(fresh)) if iters[k]]
        tgt = rng.choice(cand) if rng.random() < 0.8 else rng.randrange(nreg)
        l, u = regions[tgt]
        how = rng.choice(["inside", "inside", "inside", "partial", "away"])
        L, U = [], []
        for a, b in zip(l, u):
            w = b - a
            if how == "inside":
                lo = a + step * rng.randint(0, max(0, int(w / step) // 2))
                hi = b - step * rng.randint(0, max(0, int(w / step) // 2 - 1))
            elif how == "partial":
                lo = a - step * rng.randint(0, 4) + rng.choice([0, 1]) * w / 2
                hi = lo + max(2 * step, w / 2 + step * rng.randint(0, 4))
            else:
                lo = b + step * rng.randint(0, 8)
                hi = lo + step * 2 * rng.randint(1, 8)
            if hi - lo < 2 * step:
                hi = lo + 2 * step
            if ((hi - lo) / step) % 2 == 1:
                hi += step                         # even width: (U-L)/2 stays on the lattice
            L.append(lo)
            U.append(hi)
        op = rng.choice(["update", "intersect"])
        st = {"op": op, "target": tgt}
        if op == "update":
            st["mean"] = [float((a + b) / 2) for a, b in zip(L, U)]
            st["std"] = [float((b - a) / 2) for a, b in zip(L, U)]
        else:
            st["lower"], st["upper"] = [float(x) for x in L], [float(x) for x in U]
        steps.append(st)
        if op == "intersect" or iters[tgt]:
            regions[tgt] = list(_py_intersect(l, u, L, U))
        else:
            regions[tgt] = [L, U]
    case["steps"] = steps
    sk = rng.choice(["zero", "zero", "scalar", "vector"])
    if sk == "zero":
        case["slack"], case["sform"] = [0.0], rng.choice(["py", "0d", "vec"])
    elif sk == "scalar":
        case["slack"], case["sform"] = [float(dy(rng, -2, 4, p))], rng.choice(["py", "0d", "vec"])
    else:
        case["slack"], case["sform"] = [float(dy(rng, -2, 4, p)) for _ in range(m)], "vec"
    return case


def gen_hist_ell(ctx, rng, nprng):
    spec = pick_order(ctx, rng, nprng)
    order = build_order(spec)
    N, m = given_W(spec).shape
    if m < 2:
        return None

    def region():
        S, _ = rand_sigma(rng, nprng, m)
        S = S / max(1e-300, abs(S).max())             # unit-scale shapes; size through alpha
        return (nprng.normal(size=m) * 3).tolist(), S.tolist(), float(10.0 ** nprng.uniform(-2, 0.5))

    c1, S1, a1 = region()
    c2, S2, a2 = region()
    d = interior_dir(given_W(spec))
    if rng.random() < 0.6:
        c2 = (np.array(c2) + 12 * d).tolist()
    steps = []
    for _ in range(rng.randint(1, 3)):
        op = rng.choice(["update", "update", "assign_center", "assign_sigma", "assign_alpha"])
        st = {"op": op, "target": rng.choice([1, 2])}
        c, S, a = region()
        if rng.random() < 0.5:
            c = (np.array(c) + rng.choice([-12, 12]) * d).tolist()
        if op == "update":
            st.update({"mean": c, "cov": S, "scale": a})
        elif op == "assign_center":
            st["center"] = c
        elif op == "assign_sigma":
            st["sigma"] = S
        else:
            st["alpha"] = a
        steps.append(st)
    svals, form = ([0.0], "0d") if rng.random() < 0.5 else ([float(x) for x in nprng.uniform(0, 0.5, size=N)], "vec")
    return {"kind": "hist", "region": "ell", "order": spec, "c1": c1, "S1": S1, "a1": a1, "c2": c2, "S2": S2,
            "a2": a2, "steps": steps, "slack": svals, "sform": form, "shape": "hist"}


def gen_ell_fixed():
    """FIXED family (own RNG string, identical in every run, worker 0 only): ellipsoid pairs with extreme
    anisotropy — semi-axes (2^-10, 2^7), (2^-13, 2^3), (2^-7, 2^10), i.e. variance ratios 1e10..1e12 — diagonal and
    rotated shapes, 2-D and 3-D, orthant / acute / obtuse / N≠m cones; region 2 is placed along an interior
    direction of the cone so that the smallest facet margin is +10 × (wide semi-axis) (truly dominated) or
    −1 × (wide semi-axis) (truly not dominated control).  The unchanged tree decides every one of these correctly
    (checked at seeds 0–3 when the family was added; the list is deterministic, so that holds for every seed)."""
    import random

    rng = random.Random("C09-fixed-extreme-anisotropy")
    cones = {2: ["orthant2", "acute2", "obtuse2", "threefacet2", "redundant2"],
             3: ["orthant3", "acute3", "obtuse3", "fourfacet3", "pyramid3"]}
    out = []
    for narrow, wide in [(2.0 ** -10, 2.0 ** 7), (2.0 ** -13, 2.0 ** 3), (2.0 ** -7, 2.0 ** 10)]:
        for m in (2, 3):
            for name in cones[m]:
                for rot in (False, True):
                    W = np.array(INT_CONES[name], dtype=float)
                    N = W.shape[0]
                    ax = [wide] + [narrow] * (m - 1)
                    rng.shuffle(ax)
                    if m == 3 and rng.random() < 0.5:
                        ax[ax.index(narrow)] = math.sqrt(narrow * wide)
                    D = np.diag(np.array(ax) ** 2)
                    if rot:
                        c_, s_ = rng.choice([(0.6, 0.8), (0.8, 0.6), (5 / 13, 12 / 13), (0.28, 0.96)])
                        Q = np.eye(m)
                        i, j = rng.sample(range(m), 2)
                        Q[i, i], Q[i, j], Q[j, i], Q[j, j] = c_, -s_, s_, c_
                        S1 = Q @ D @ Q.T
                        S1 = (S1 + S1.T) / 2
                    else:
                        S1 = D
                    S2 = S1.copy() if rng.random() < 0.5 else np.eye(m) * narrow ** 2
                    c1 = np.array([rng.randint(-8, 8) / 4 for _ in range(m)])
                    svals, form = ([0.0], "0d") if rng.random() < 0.5 else \
                        ([rng.randint(0, 8) / 8 for _ in range(N)], "vec")
                    sfull = np.array(svals * N if len(svals) == 1 else svals)
                    d = interior_dir(W)
                    wd = W @ d
                    if wd.min() <= 1e-9:
                        continue
                    for tag, tgt in (("dominated", 10 * wide), ("control", -wide)):
                        marg = ell_margins(W, c1, S1, 1.0, c1, S2, 1.0, sfull)
                        lam = max((tgt - marg[n]) / wd[n] for n in range(N))
                        c2 = c1 + lam * d
                        out.append({"kind": "ell", "order": {"t": "int", "name": name}, "c1": c1.tolist(),
                                    "S1": S1.tolist(), "a1": 1.0, "c2": c2.tolist(), "S2": S2.tolist(), "a2": 1.0,
                                    "slack": svals, "sform": form, "sigma": "rot" if rot else "diag",
                                    "shape": "fixed-aniso-%s/%s" % (tag, "rot" if rot else "diag")})
    return out


def gen(ctx):
    if ctx.worker == 0:
        for case in gen_ell_fixed():
            yield case
    rng, nprng = ctx.rng, ctx.nprng
    plan = [("rect_exact", ctx.n(320, 60000)), ("rect_intW", ctx.n(90, 12000)), ("rect_intB", ctx.n(90, 12000)),
            ("rect_float", ctx.n(100, 15000)), ("ell", ctx.n(170, 30000)),
            ("hist_rect", ctx.n(40, 5000)), ("hist_shared", ctx.n(40, 5000)), ("hist_ell", ctx.n(12, 1500)),
            ("badslack", ctx.n(24, 1500))]
    for stream, cnt in plan:
        k = 0
        tries = 0
        while k < cnt and tries < 20 * cnt + 100:
            tries += 1
            if stream == "rect_exact":
                case = gen_rect_exact(ctx, rng)
            elif stream == "rect_intW":
                case = gen_rect_exact(ctx, rng, dtype=rng.choice(["int64", "int32", "list"]))
            elif stream == "rect_intB":
                case = gen_rect_exact(ctx, rng, intbound=True)
            elif stream == "hist_rect":
                case = gen_hist_rect(ctx, rng)
            elif stream == "hist_shared":
                case = gen_hist_shared(ctx, rng)
            elif stream == "hist_ell":
                case = gen_hist_ell(ctx, rng, nprng)
            elif stream == "rect_float":
                case = gen_rect_float(ctx, rng, nprng)
            elif stream == "ell":
                case = gen_ell(ctx, rng, nprng)
            else:
                case = gen_badslack(ctx, rng, nprng)
            if case is None:
                continue
            k += 1
            yield case


# ------------------------------------------------------------------------------------------ run
def _impl(order, r1, r2, slack):
    from vopy.confidence_region import confidence_region_is_dominated

    try:
        got = confidence_region_is_dominated(order, r1, r2, slack)
    except ValueError as e:
        # the guard's own ValueError; numpy/cvxpy ValueErrors have a different innermost frame
        return "ValueError", core.exc_key(e)
    except Exception as e:  # solver failures, None values … are outcomes
        return "exc", core.exc_key(e)
    if isinstance(got, (bool, np.bool_)):
        return ("1" if got else "0"), None
    try:
        return ("1" if bool(got) else "0"), None
    except Exception:
        return "exc", "non-bool:" + type(got).__name__


def run_case(ctx, case):
    from vopy.confidence_region import EllipsoidalConfidenceRegion, RectangularConfidenceRegion

    order = build_order(case["order"])
    W = given_W(case["order"])        # the caller's matrix: the model pairs slack[n] with the caller's row n
    N, m = W.shape
    _check_rows(ctx, case, order, W)
    ws = core.qmat(W)
    slack = build_slack(case["slack"], case["sform"])
    ss = core.qvec(case["slack"])
    shape = case["shape"]
    ctx.count("order_" + case["order"]["t"])
    ctx.count("slackform_%s_%d" % (case["sform"], min(len(case["slack"]), 2)))
    if case["kind"] == "hist":
        _run_hist(ctx, case, order, W, ws, slack, ss)
        return
    if case["kind"] == "shared":
        _run_shared(ctx, case, order, W, ws, slack, ss)
        return
    if case["kind"] == "rect":
        if case["order"].get("dtype"):
            ctx.count("cone_dtype_" + case["order"]["dtype"])
        l1, u1, l2, u2 = (np.array(case[k], dtype=float) for k in ("l1", "u1", "l2", "u2"))
        held = {"l1": l1, "u1": u1, "l2": l2, "u2": u2}
        if case.get("cont"):    # one bound handed over in an integer container (values are integers)
            w_, as_ = case["cont"]["which"], case["cont"]["as"]
            ints = [int(x) for x in case[w_]]
            if [float(x) for x in ints] != [float(x) for x in case[w_]]:
                raise RuntimeError("integer container requested for non-integer bound")
            held[w_] = ints if as_ == "list" else np.array(ints, dtype={"int64": np.int64, "int32": np.int32}[as_])
            ctx.count("bound_container_%s_%s" % (w_, as_))
        r1 = RectangularConfidenceRegion(len(l1), held["l1"], held["u1"])
        r2 = RectangularConfidenceRegion(len(l2), held["l2"], held["u2"])
        impl, ekey = _impl(order, r1, r2, slack)
        args = [ws, core.qvec(l1), core.qvec(u1), core.qvec(l2), core.qvec(u2), ss]
        model = ctx.ask("rect", *args)
        stream = ("rect_intW" if case["order"].get("dtype") else "rect_intB" if case.get("cont") else
                  "rect_exact") if case.get("exact") else "rect_float"
        if shape.startswith("remote-"):
            ctx.count("remote_small_" + stream)
        ctx.count("stream_" + stream)
        if model not in ("0", "1", "ValueError"):
            raise RuntimeError("driver answered %r" % model)
        if _guard_and_crash(ctx, case, "rect", impl, ekey, model):
            return
        if case.get("exact"):
            _check_vertices(ctx, case, held["l1"], held["u1"])
            if case.get("cont"):
                _check_vertices(ctx, case, held["l2"], held["u2"])
            ctx.count("rect_exact_%s" % model)
            ctx.count("shape_" + shape.split("/")[1] + "_" + model)
            if impl != model:
                ctx.violation("rect-decision", "RectangularConfidenceRegion.is_dominated differs from the "
                              "∀∀ predicate (proved equal to the model) on exactly representable data",
                              case, detail={"impl": impl, "model": model})
            marg = rect_margins(W, l1, u1, l2, u2, _full(case["slack"], m))
            if min(marg) == 0:
                ctx.count("rect_exact_boundary")
            nontrivial = not shape.startswith("identical/asis") and "far" not in shape
            ctx.case_done(case, nontrivial, canon=_canon(case))
            return
        data = np.concatenate([l1, u1, l2, u2, np.array(case["slack"], dtype=float)])
        scale = max(1.0, float(np.abs(data).max())) * max(1.0, float(np.abs(W).sum(axis=1).max()))
        t = TAU * scale
        lo = ctx.ask("recttol", *args, core.q(t))
        hi = ctx.ask("recttol", *args, core.q(-t))
        _band(ctx, case, "rect", impl, model, lo, hi)
        return
    # ---- ellipsoids
    c1, c2 = np.array(case["c1"], dtype=float), np.array(case["c2"], dtype=float)
    S1, S2 = np.array(case["S1"], dtype=float), np.array(case["S2"], dtype=float)
    a1, a2 = float(case["a1"]), float(case["a2"])
    r1 = EllipsoidalConfidenceRegion(len(c1), c1, S1, a1)
    r2 = EllipsoidalConfidenceRegion(len(c2), c2, S2, a2)
    impl, ekey = _impl(order, r1, r2, slack)
    args = [ws, core.qvec(c1), core.qmat(S1), core.q(a1), core.qvec(c2), core.qmat(S2), core.q(a2), ss]
    model = ctx.ask("ell", *args)
    ctx.count("stream_ell")
    ctx.count("sigma_" + case.get("sigma", "?"))
    if model not in ("0", "1", "ValueError"):
        raise RuntimeError("driver answered %r" % model)
    if model == "ValueError" or impl == "ValueError":
        _guard_and_crash(ctx, case, "ell", impl, ekey, model)
        return
    if a1 < 0 or a2 < 0:
        # empty region: the code's solver reports infeasible (value inf, never < -slack) → True, as the model
        ctx.count("ell_negalpha_%s_info" % ("agree" if impl == model else "differs:" + impl))
        ctx.case_done(case, False)
        return
    sfull = np.array(_full(case["slack"], N), dtype=float)
    t = TAU * ell_scale(W, c1, S1, a1, c2, S2, a2, sfull)
    lo = ctx.ask("elltol", *args, core.q(t))
    hi = ctx.ask("elltol", *args, core.q(-t))
    if impl == "exc":
        if lo == hi:
            ctx.violation("ell-crash:" + str(ekey), "EllipsoidalConfidenceRegion.is_dominated raised on a "
                          "configuration that is not near the boundary", case, detail={"model": model})
        else:
            ctx.count("ell_exception_borderline_info")
        ctx.case_done(case, False)
        return
    _band(ctx, case, "ell", impl, model, lo, hi)


def _rows_kept(order, W):
    st = np.array(order.ordering_cone.W, dtype=float)
    return st.shape == W.shape and bool(np.all(st == W))


def _check_rows(ctx, case, order, W):
    """the cone object must keep the caller's facets row for row (the per-facet slack is indexed by them);
    reported once per worker as (F) here, and as (R) by `_band` when a verdict on the caller's pairing differs"""
    if _rows_kept(order, W):
        return
    ctx.count("cone_rows_changed")
    if not ctx.__dict__.get("_c09_rows_reported"):
        ctx.__dict__["_c09_rows_reported"] = True
        ctx.violation("cone-rows-stored-differently", "OrderingCone.W is not the matrix given to the constructor "
                      "row for row (facet indices of a per-facet slack no longer address the caller's facets)",
                      case, kind="F", detail={"stored": np.array(order.ordering_cone.W, dtype=float).tolist(),
                                              "given": W.tolist()})


def _lattice_ok(arrs):
    """all numbers are multiples of 2^-24 of magnitude < 2^20: the float path of the rectangle test is exact"""
    for a in arrs:
        for x in np.asarray(a, dtype=float).ravel():
            f = core.frac(x)
            if abs(f) >= 2 ** 20 or (2 ** 24) % f.denominator != 0:
                return False
    return True


def _apply_step(kind, r, st):
    if kind == "rect":
        if st["op"] == "update":
            m = len(st["mean"])
            cov = np.full((m, m), st["offdiag"], dtype=float)
            cov[np.diag_indices(m)] = st["var"]
            r.update(np.array(st["mean"], dtype=float), cov, np.array(st["scale"]))
        elif st["op"] == "intersect":
            r.intersect(np.array(st["lower"], dtype=float), np.array(st["upper"], dtype=float))
        elif st["op"] == "assign":
            r.lower = np.array(st["lower"], dtype=float)
            r.upper = np.array(st["upper"], dtype=float)
        elif st["op"] == "assign_lower":
            r.lower = np.array(r.lower, dtype=float) - np.array(st["delta"], dtype=float)
        else:
            r.upper = np.array(r.upper, dtype=float) + np.array(st["delta"], dtype=float)
    else:
        if st["op"] == "update":
            r.update(np.array(st["mean"], dtype=float), np.array(st["cov"], dtype=float), np.array(st["scale"]))
        elif st["op"] == "assign_center":
            r.center = np.array(st["center"], dtype=float)
        elif st["op"] == "assign_sigma":
            r.sigma = np.array(st["sigma"], dtype=float)
        else:
            r.alpha = st["alpha"]


def _run_hist(ctx, case, order, W, ws, slack, ss):
    """query, mutate through a public mutator, query again: every answer must be the model's verdict for
    the CURRENT attributes of the two region objects (read back from the objects after the mutation)"""
    from vopy.confidence_region import EllipsoidalConfidenceRegion, RectangularConfidenceRegion

    N, m = W.shape
    kind = case["region"]
    ctx.count("stream_hist_" + kind)
    if kind == "rect":
        r1 = RectangularConfidenceRegion(m, np.array(case["l1"], dtype=float), np.array(case["u1"], dtype=float),
                                         intersect_iteratively=bool(case["iter"][0]))
        r2 = RectangularConfidenceRegion(m, np.array(case["l2"], dtype=float), np.array(case["u2"], dtype=float),
                                         intersect_iteratively=bool(case["iter"][1]))
    else:
        r1 = EllipsoidalConfidenceRegion(m, np.array(case["c1"], dtype=float), np.array(case["S1"], dtype=float),
                                         float(case["a1"]))
        r2 = EllipsoidalConfidenceRegion(m, np.array(case["c2"], dtype=float), np.array(case["S2"], dtype=float),
                                         float(case["a2"]))
    answers = []
    for k in range(len(case["steps"]) + 1):
        if k > 0:
            st = case["steps"][k - 1]
            _apply_step(kind, r1 if st["target"] == 1 else r2, st)
            ctx.count("hist_op_%s_%s" % (kind, st["op"] + ("_iter" if kind == "rect" and st["op"] == "update"
                                                              and case["iter"][st["target"] - 1] else "")))
        impl, ekey = _impl(order, r1, r2, slack)
        if kind == "rect":
            cur = [np.array(x, dtype=float) for x in (r1.lower, r1.upper, r2.lower, r2.upper)]
            args = [ws] + [core.qvec(x) for x in cur] + [ss]
            model = ctx.ask("rect", *args)
            if _lattice_ok(cur + [np.array(case["slack"], dtype=float)]):
                expect = model
            else:
                data = np.concatenate(cur + [np.array(case["slack"], dtype=float)])
                t = TAU * max(1.0, float(np.abs(data).max())) * max(1.0, float(np.abs(W).sum(axis=1).max()))
                lo, hi = ctx.ask("recttol", *args, core.q(t)), ctx.ask("recttol", *args, core.q(-t))
                expect = lo if lo == hi else None
        else:
            c1, S1, a1 = np.array(r1.center, dtype=float), np.array(r1.sigma, dtype=float), float(r1.alpha)
            c2, S2, a2 = np.array(r2.center, dtype=float), np.array(r2.sigma, dtype=float), float(r2.alpha)
            args = [ws, core.qvec(c1), core.qmat(S1), core.q(a1), core.qvec(c2), core.qmat(S2), core.q(a2), ss]
            model = ctx.ask("ell", *args)
            sfull = np.array(_full(case["slack"], N), dtype=float)
            t = TAU * ell_scale(W, c1, S1, a1, c2, S2, a2, sfull)
            lo, hi = ctx.ask("elltol", *args, core.q(t)), ctx.ask("elltol", *args, core.q(-t))
            expect = lo if lo == hi else None
        if model not in ("0", "1"):
            raise RuntimeError("driver answered %r in a history case" % model)
        if expect is None:
            ctx.count("hist_%s_borderline" % kind)
        elif impl != expect:
            ctx.violation("hist-%s-decision" % kind, "after %s the is_dominated answer is not the ∀∀ verdict for "
                          "the regions' current attributes" % ("construction" if k == 0 else
                                                               "mutation through " + case["steps"][k - 1]["op"]),
                          case, detail={"query": k, "impl": impl, "model": model, "ekey": ekey})
        else:
            ctx.count("hist_%s_query_%s" % (kind, expect))
        answers.append(expect)
    changed = len({a for a in answers if a is not None}) > 1
    ctx.count("hist_verdict_%s" % ("changes" if changed else "constant"))
    ctx.case_done(case, changed, canon=_canon(case))


def _run_shared(ctx, case, order, W, ws, slack, ss):
    from vopy.confidence_region import RectangularConfidenceRegion

    N, m = W.shape
    ctx.count("stream_hist_shared_" + case["mode"])
    regs, exp = [], []          # region objects / bounds each SHOULD display (exact dyadic floats)
    if case["mode"] == "arrays":
        pts = [np.array(q, dtype=float) for q in case["pts"]]          # the shared ndarray objects
        for i, j, it in case["regions"]:
            regs.append(RectangularConfidenceRegion(m, pts[i], pts[j], intersect_iteratively=bool(it)))
            exp.append([list(case["pts"][i]), list(case["pts"][j])])
    else:
        from vopy.design_space import AdaptivelyDiscretizedDesignSpace

        ds = AdaptivelyDiscretizedDesignSpace(domain_dim=case["domain_dim"], objective_dim=m, delta=0.1,
                                              max_depth=5)
        mean, std = np.array(case["root_mean"], dtype=float), np.array(case["root_std"], dtype=float)
        ds.confidence_regions[0].update(mean, np.diag(std * std), np.array(1.0))
        kids = ds.generate_child_designs(0)                              # children share the parent's arrays
        regs = [ds.confidence_regions[0]] + [ds.confidence_regions[k] for k in kids]
        for r, it in zip(regs, case["iters"]):
            r.intersect_iteratively = bool(it)
        exp = [[(mean - std).tolist(), (mean + std).tolist()] for _ in regs]
    for l, u, it in case["fresh"]:
        regs.append(RectangularConfidenceRegion(m, np.array(l, dtype=float), np.array(u, dtype=float),
                                                intersect_iteratively=bool(it)))
        exp.append([list(l), list(u)])
    iters = [bool(r.intersect_iteratively) for r in regs]
    verdicts = set()
    sibling_reported = False     # one record per case: ctx keeps only the first 20 violation records
    for k in range(len(case["steps"]) + 1):
        touched = None
        if k > 0:
            st = case["steps"][k - 1]
            touched = st["target"]
            r = regs[touched]
            if st["op"] == "update":
                mean, std = np.array(st["mean"], dtype=float), np.array(st["std"], dtype=float)
                r.update(mean, np.diag(std * std), np.array(1.0))
                L, U = (mean - std).tolist(), (mean + std).tolist()
                law = iters[touched]
            else:
                L, U = list(st["lower"]), list(st["upper"])
                r.intersect(np.array(L, dtype=float), np.array(U, dtype=float))
                law = True
            if law:   # the C14 model's intersect law, evaluated by the Lean driver
                ans = core.parse_qmat(ctx.ask("intersect", core.qvec(exp[touched][0]), core.qvec(exp[touched][1]),
                                              core.qvec(L), core.qvec(U)))
                exp[touched] = [[float(x) for x in ans[0]], [float(x) for x in ans[1]]]
            else:
                exp[touched] = [L, U]
            ctx.count("shared_op_%s_%s" % (st["op"], "iter" if iters[touched] else "plain"))
        # (a) displayed bounds
        for i, r in enumerate(regs):
            shown = [np.array(r.lower, dtype=float).tolist(), np.array(r.upper, dtype=float).tolist()]
            if shown == exp[i]:
                continue
            if i != touched:
                ctx.count("shared_sibling_mutated")
                if sibling_reported:
                    continue
                sibling_reported = True
                ctx.violation("region-mutated-by-sibling", "a rectangle region that was not updated changed its "
                              "displayed bounds after another region built from the same bound arrays was refined",
                              case, detail={"step": k, "region": i, "shown": shown, "should": exp[i]})
            else:
                ctx.violation("region-update-law", "after update()/intersect() the region does not display the "
                              "bounds of the intersect law (C14 model)", case, kind="F",
                              detail={"step": k, "region": i, "shown": shown, "should": exp[i]})
        # (b) every ordered pair: the answer must be the model's verdict on the bounds that should be displayed
        for i in range(len(regs)):
            for j in range(len(regs)):
                if i == j:
                    continue
                impl, ekey = _impl(order, regs[i], regs[j], slack)
                model = ctx.ask("rect", ws, core.qvec(exp[i][0]), core.qvec(exp[i][1]), core.qvec(exp[j][0]),
                                core.qvec(exp[j][1]), ss)
                if model not in ("0", "1"):
                    raise RuntimeError("driver answered %r in a shared-history case" % model)
                verdicts.add(model)
                if impl != model:
                    ctx.violation("shared-rect-decision", "is_dominated between regions built from shared bound "
                                  "arrays is not the ∀∀ verdict for the bounds the two regions should display "
                                  "after the update history", case,
                                  detail={"step": k, "pair": [i, j], "impl": impl, "model": model, "ekey": ekey})
                else:
                    ctx.count("shared_query_" + model)
    ctx.case_done(case, len(verdicts) > 1, canon=_canon(case))


def _check_vertices(ctx, case, l, u):
    """`hyperrectangle_get_vertices` against `Rect.vertices`: same corner set (F), same order (info)"""
    from vopy.utils import hyperrectangle_get_vertices

    got = [[core.frac(x) for x in row] for row in hyperrectangle_get_vertices(l, u)]
    mod = core.parse_qmat(ctx.ask("verts", core.qvec(l), core.qvec(u)))
    if got == mod:
        ctx.count("vertices_same_order")
    elif sorted(got) == sorted(mod):
        ctx.count("vertices_order_differs_info")
    else:
        ctx.count("vertices_set_differs")
        if not ctx.__dict__.get("_c09_vert_reported"):
            # reported once per worker: ctx keeps only the first 20 violation records, and a flood of these (F)
            # records must not crowd out an (R) `rect-decision` found later in the run
            ctx.__dict__["_c09_vert_reported"] = True
            ctx.violation("rect-vertices", "hyperrectangle_get_vertices does not return the corner set of the box",
                          case, kind="F", detail={"impl": [[str(x) for x in r] for r in got]})


def _full(svals, k):
    return list(svals) * k if len(svals) == 1 and k != 1 else list(svals)


def _canon(case):
    return [case[k] for k in sorted(case) if k not in ("shape", "sigma")]


def _guard_and_crash(ctx, case, kind, impl, ekey, model):
    """slack guard and unexpected exceptions; returns True when the case is finished"""
    if model == "ValueError" or impl == "ValueError":
        if impl == model:
            ctx.count(kind + "_guard_agree")
        elif model == "ValueError":
            ctx.violation(kind + "-guard-missing", "wrong-size slack accepted by is_dominated (the model's guard "
                          "raises ValueError)", case, kind="F", detail={"impl": impl, "ekey": ekey})
        else:
            ctx.violation(kind + "-guard-spurious:" + str(ekey), "is_dominated raised ValueError on a slack of "
                          "admissible size", case, detail={"model": model})
        ctx.case_done(case, False)
        return True
    if impl == "exc":
        if kind == "rect":
            ctx.violation("rect-crash:" + str(ekey), "RectangularConfidenceRegion.is_dominated raised on valid "
                          "input", case, detail={"model": model})
            ctx.case_done(case, False)
            return True
    return False


def _band(ctx, case, kind, impl, model, lo, hi):
    if lo not in ("0", "1") or hi not in ("0", "1"):
        raise RuntimeError("driver answered %r / %r" % (lo, hi))
    if lo == "1" and hi == "0":
        raise RuntimeError("band not monotone")
    if lo != hi:
        ctx.count(kind + "_band_borderline")
        ctx.count(kind + "_band_borderline_impl_%s_exact" % ("agrees_with" if impl == model else "differs_from"))
        ctx.case_done(case, False)
        return
    ctx.count(kind + "_band_robust_" + lo)
    if impl != lo and not _rows_kept(build_order(case["order"]), given_W(case["order"])):
        ctx.violation("cone-rows-reordered", "is_dominated differs from the ∀∀ predicate with the per-facet slack "
                      "paired with the facets in the order the caller gave them; the cone object stores a "
                      "different row order / row set than it was given", case,
                      detail={"impl": impl, "model": model,
                              "stored": np.array(build_order(case["order"]).ordering_cone.W, dtype=float).tolist()})
    elif impl != lo:
        ctx.violation(kind + "-decision", ("Rectangular" if kind == "rect" else "Ellipsoidal") +
                      "ConfidenceRegion.is_dominated differs from the ∀∀ predicate outside the numerical band "
                      "(model verdict is the same with all facet thresholds moved by ±1e-6·scale)",
                      case, detail={"impl": impl, "model": model})
    sh = case["shape"]
    nontrivial = not sh.startswith("identical/asis") and "far" not in sh
    ctx.case_done(case, nontrivial, canon=_canon(case))
