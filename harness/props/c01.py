"""C01 — valid confidence regions imply an ε-accurate Pareto set (PaVeBa, PaVeBaGP, PaVeBaPartialGP, Auer).

Whole runs of the REAL algorithm classes (built by `harness.stubs.build` on unscaled synthetic
datasets) under *adversarial but valid* histories:

* GP algorithms (PaVeBaGP IH/DE, PaVeBaPartialGP rect/ell): the posterior is a `ScriptedModel` table
  installed before every `run_one_step()`; its mean is pushed away from the truth by `frac` (< 1) of
  the displayed half-width (boxes) / of the displayed radius in the Σ-metric (ellipsoids), towards
  the side that favours a wrong discard / a wrong Pareto move; widths are anisotropic, differ per
  design and shrink geometrically (floor 2^-14) so that runs terminate.
* PaVeBa / Auer: the real `EmpiricalMeanVarModel`; the problem proxy `TargetProblem` returns the
  observations that put each design's running mean at truth + frac·width·direction.  A second
  sub-stream uses the real problem with lattice noise (premise not forced); a third one (Auer with
  `use_empirical_beta=True`, contraction 1–2) scripts explicit observation errors (`mode = "offsets"`)
  with a large swing in one objective / for one design, so that width rows become non-uniform.

After every `run_one_step()` the displayed region of every design that was refreshed in that round
is exported exactly (`as_integer_ratio`) and the Lean driver decides `μ_i ∈ R_t(i)` exactly
(`Accuracy.inBox` / `Accuracy.inEll`).  If the truth left a region the implication has no premise:
the run is counted (`premise_failed`) and not judged.  At termination (S = ∅) the driver evaluates
the two conclusions exactly on the true means: (a) `Accuracy.accA`, (b) `Accuracy.accB` with the
algorithm's ε and an α computed independently of the code under test (`alpha_of`) (R).  Structured
families: `acute-corner` (anisotropic boxes on acute cones), `ell-correlated` (|ρ| ≤ 0.95 ellipsoids whose
wrong-axes twin would be ordered), `window` incl. cones with rows of norm < 1.  For Auer the driver also evaluates, per round, the (stronger) premise
of the Lean theorem `auer_final_accurate` (`errw`: ‖c − μ‖_∞ ≤ min_d β_d); a failed conclusion under
that premise gets its own key.  Keys of the genuine defects found: `rect-slack-objective-space-units`
(D6), `auer-scalar-M-vs-smallest-width`, `auer-widths-by-position` (D2, fixed in /repo; regression).
Hand-built minimal histories for the three live in `corpus/C01/`.

Bonus (F) stream ("decided rounds"): when every displayed region is so small that every
`is_dominated` / `is_covered` answer among the living designs is determined by the true means with
a margin (up to 8 undetermined answers are enumerated: the round counts as determined if every completion
gives the same result), the round transition itself is determined; the driver replays
`Steps.pavebaRound` with those answers (`pround`) and the resulting (S, P, U) must equal the
implementation's.  For Auer with
uniform widths the exact rule `Steps.auerRound` is replayed on the exported centres / widths with a
±1e-9 band (`around`).
"""
from __future__ import annotations

import math
import time

import numpy as np

from harness import core, stubs
from harness.cones import EXACT_CONES, real_order
from harness.props import c01_core

TITLE = "whole runs under valid adversarial histories: final P is ε-accurate"
RULE = ("cases: (algorithm ∈ {PaVeBa, PaVeBaGP-IH/DE, PaVeBaPartialGP-rect/ell, Auer(±empirical β)}, cone with "
        "integer rows, dyadic true means with ties / chains / fronts / gaps at ε(1±2^-6), ε, δ, contraction, "
        "batch size, adversary = direction mode × per-design anisotropic widths × shrink rates); non-trivial = "
        "premise held in every round, the run terminated, P and the discarded set are both non-empty or some "
        "design has gap within [ε/2, 2ε]; distinct by the whole case")
ASSUMPTIONS = [
    "containment of the truth is decided exactly on the exported floats; ellipsoids as {x | (x−c)ᵀΣ⁻¹(x−c) ≤ α²}",
    "conclusion (b) is evaluated with an α computed in the harness (own cvxpy problem per facet, closed form for "
    "2×2 cones; never vopy.utils.get_alpha) and ε·(1+2^-20); cones include row-scaled versions (norms ≠ 1)",
    "the 'decided round' replay compares only rounds whose geometry answers are determined by the true means "
    "with margin ≥ 1% of the region size + 1e-7",
]
MAX_JOBS = 14

GP_ALGS = ("PaVeBaGP-IH", "PaVeBaGP-DE", "PaVeBaPartialGP-rect", "PaVeBaPartialGP-ell")
RECT_ALGS = ("PaVeBaGP-IH", "PaVeBaPartialGP-rect")
ALL_ALGS = ("PaVeBa",) + GP_ALGS + ("Auer",)
FLOOR = 2.0 ** -14
ROUND_CAP = {"quick": 40, "thorough": 60}


# --------------------------------------------------------------------------------------------
# cone helpers
# --------------------------------------------------------------------------------------------
def cone_W(case):
    if "alias" in case:   # the rows the caller handed to OrderingCone (a correct constructor keeps a copy of these)
        return [[float(x) for x in r] for r in case["alias"]["W0"]]
    if "W" in case:   # explicit rows (θ-cones, ice-cream cones: floats produced by the real constructors)
        return [[float(x) for x in r] for r in case["W"]]
    if case["alg"] == "Auer" or case["alg"] == "EpsilonPAL":
        m = len(case["Y"][0])
        return [[1.0 if i == j else 0.0 for j in range(m)] for i in range(m)]
    return [[float(x) for x in r] for r in EXACT_CONES[case["cone"]][0]]


def interior_direction(W):
    """a vector u well inside the cone (unit ∞-norm): every facet functional, measured in units of its row norm,
    is comfortably positive — independent of how the rows are scaled"""
    W = np.array(W, dtype=float)
    norms = np.linalg.norm(W, axis=1)
    cands = []
    sol, *_ = np.linalg.lstsq(W, norms, rcond=None)          # equal normalised margins (exact when N = m)
    cands.append(sol)
    cands.append((W / norms[:, None]).sum(axis=0))
    cands.append(np.linalg.pinv(W) @ np.ones(len(W)))
    best, best_margin = None, 0.0
    for u in cands:
        nu = np.abs(u).max()
        if nu == 0 or not np.all(np.isfinite(u)):
            continue
        u = u / nu
        margin = float(np.min((W @ u) / norms))
        if margin > best_margin:
            best, best_margin = u, margin
    return best if best_margin > 1e-3 else None


_alpha_cache = {}


def alpha_of(W):
    """α_n = max{w_n·x : W x ≥ 0, ‖x‖ ≤ 1}, computed HERE (one small cvxpy problem per facet, cached) and
    not through `vopy.utils.get_alpha`: conclusion (b) and the generators must not depend on the code
    under test.  For 2×2 cones the value is cross-checked against the closed form."""
    key = tuple(tuple(float(x) for x in r) for r in W)
    if key not in _alpha_cache:
        import cvxpy as cp

        Wn = np.array(W, dtype=float)
        out = []
        for n in range(len(Wn)):
            x = cp.Variable(Wn.shape[1])
            prob = cp.Problem(cp.Maximize(Wn[n] @ x), [Wn @ x >= 0, cp.norm(x, 2) <= 1])
            prob.solve()
            out.append(float(prob.value))
        a = np.array(out)
        if Wn.shape == (2, 2):
            cf = alpha_closed_form_2x2(Wn)
            if cf is not None and not np.allclose(a, cf, rtol=1e-6, atol=1e-9):
                raise RuntimeError(f"independent alpha: cvxpy {a} vs closed form {cf}")
            if cf is not None:
                a = cf
        _alpha_cache[key] = a
    return _alpha_cache[key]


def alpha_closed_form_2x2(Wn):
    """pointed 2-D cone with two facets: the maximiser of w_n·x over C ∩ unit disc is w_n/‖w_n‖ if that lies in
    C, else the unit generator (extreme ray) with the larger w_n·x"""
    rays = []
    for k in range(2):
        r = np.array([-Wn[k][1], Wn[k][0]])          # direction along facet k
        for sg in (1.0, -1.0):
            v = sg * r / np.linalg.norm(r)
            if np.all(Wn @ v >= -1e-12):
                rays.append(v)
    if len(rays) < 2:
        return None
    out = []
    for n in range(2):
        u = Wn[n] / np.linalg.norm(Wn[n])
        if np.all(Wn @ u >= -1e-12):
            out.append(float(np.linalg.norm(Wn[n])))
        else:
            out.append(float(max(0.0, max(Wn[n] @ v for v in rays))))
    return np.array(out)


ROW_SCALES = [0.25, 0.4, 0.5, 2.0, 3.0]


def scaled_rows(rng, W):
    """the same cone with every row multiplied by its own positive factor (rows of norm < 1 and > 1)"""
    return [[float(x) * f for x in r] for r, f in zip(W, [rng.choice(ROW_SCALES) for _ in W])]


def dominates(W, a, b):
    return bool(np.all(np.array(W, dtype=float) @ (np.array(a, dtype=float) - np.array(b, dtype=float)) >= 0))


def gap(W, alpha, mi, mj):
    d = np.array(W, dtype=float) @ (np.array(mj, dtype=float) - np.array(mi, dtype=float))
    return float(np.min(np.maximum(d, 0.0) / alpha))


# --------------------------------------------------------------------------------------------
# adversary
# --------------------------------------------------------------------------------------------
class Adversary:
    """direction field θ_i(t) ∈ [-1,1]^m and width schedule sd_t(i) (GP algorithms), all derived from
    the case dict (deterministic)."""

    def __init__(self, case, W):
        self.case = case
        self.adv = case["adv"]
        self.Y = np.array(case["Y"], dtype=float)
        self.n, self.m = self.Y.shape
        self.W = np.array(W, dtype=float)
        self.u = interior_direction(W)
        if self.u is None:
            self.u = np.ones(self.m)
        self.rs = np.random.RandomState(self.adv["seed"] % (2 ** 32))
        self.fixed = self.rs.choice([-1.0, 1.0], size=(self.n, self.m))
        # role of a design under the truth: +1 = not strictly dominated by any other design
        self.optimal = np.array([not any(j != i and dominates(W, self.Y[j], self.Y[i])
                                         and not dominates(W, self.Y[i], self.Y[j]) for j in range(self.n))
                                 for i in range(self.n)])

    def theta(self, t, S=(), P=()):
        mode = self.adv["mode"]
        n, m = self.n, self.m
        if mode == "centered":
            return np.zeros((n, m))
        if mode == "fixed-corner":
            return self.fixed.copy()
        if mode == "corners":
            return self.rs.choice([-1.0, 1.0], size=(n, m))
        if mode == "rotating":
            out = np.zeros((n, m))
            for i in range(n):
                out[i] = np.roll(self.fixed[i], t) * (1.0 if (t + i) % 2 == 0 else -1.0)
            return out
        sign = np.where(self.optimal, -1.0, 1.0)          # "lift-dominated": dominated ↑, optimal ↓
        if mode == "sink-dominated":
            sign = -sign
        if mode == "alternate":
            sign = sign * (1.0 if t % 2 == 0 else -1.0)
        out = sign[:, None] * self.u[None, :]
        if mode == "lift-mixed":                               # one coordinate against the grain
            out = out.copy()
            out[:, t % m] *= -1.0
        return out

    def sd(self, t):
        sd0 = np.array(self.adv["sd0"], dtype=float)
        sh = np.array(self.adv["shrink"], dtype=float)[:, None]
        return np.maximum(sd0 * sh ** t, FLOOR)

    def covs(self, t):
        sd = self.sd(t)
        rho = self.adv.get("rho", 0.0)
        m = self.m
        R = (1.0 - rho) * np.eye(m) + rho * np.ones((m, m))
        return np.stack([np.diag(s) @ R @ np.diag(s) for s in sd])

    def posterior(self, t, scale, ell: bool, S=(), P=()):
        """(means, covs) whose displayed regions (scale·sd boxes / {‖Σ^-1/2(x−c)‖ ≤ scale}) keep the truth
        inside at relative depth `frac`"""
        th = self.theta(t, S, P)
        frac = self.adv["frac"]
        covs = self.covs(t)
        if not ell:
            sd = np.sqrt(np.stack([np.diag(c) for c in covs]))
            means = self.Y + frac * scale * sd * th
        else:
            means = self.Y.copy()
            for i in range(self.n):
                nrm = np.linalg.norm(th[i])
                if nrm > 0:
                    L = np.linalg.cholesky(covs[i])
                    means[i] = self.Y[i] + frac * scale * (L @ (th[i] / nrm))
        return means, covs


class TargetProblem:
    """Problem proxy for PaVeBa / Auer: every observation is chosen so that the running mean of the
    sampled design lands on truth + frac·width·θ, where width is the radius (PaVeBa) / a lower bound
    of every β entry (Auer) of the round being run.  Deterministic; forwards everything else."""

    def __init__(self, alg, adversary: Adversary, kind: str):
        self.alg, self.adv, self.kind = alg, adversary, kind
        self.base = alg.problem
        self.sums = np.zeros_like(adversary.Y)
        self.cnt = np.zeros(adversary.n, dtype=int)
        self.dataset, self.noise_var = self.base.dataset, self.base.noise_var

    def width(self):
        a = self.alg
        if self.kind == "PaVeBa":
            return float(a.compute_radius())
        t, K, m = a.round, a.design_space.cardinality, a.m
        if not a.use_empirical_beta:
            t1 = np.log((4 * K * m * t ** 2) / a.delta)
            return float(np.sqrt(2 * t1 / t) / a.conf_contraction)
        t1 = np.log((K * m * t) / a.delta)
        return float(np.sqrt(2 * t1 * np.sqrt(4 * t1 / t) / t) / a.conf_contraction)

    def evaluate(self, x, noisy: bool = True):
        x = np.atleast_2d(np.asarray(x, dtype=float))
        idx = [int(round(v)) for v in x[:, 0]]
        if self.adv.adv["mode"] == "absobs":
            # absolute scripted observations (independent of the truth): the k-th sample of design i is obs[i][k]
            out = np.zeros((len(idx), self.adv.m))
            for k, i in enumerate(idx):
                seq = self.adv.adv["obs"][i]
                out[k] = np.array(seq[min(self.cnt[i], len(seq) - 1)], dtype=float)
                self.cnt[i] += 1
            return out
        if self.adv.adv["mode"] == "offsets":
            # explicit observation errors: obs_k(i) = μ_i + offsets[i][k] (0 once the list is exhausted)
            out = np.zeros((len(idx), self.adv.m))
            for k, i in enumerate(idx):
                offs = self.adv.adv["offsets"][i]
                e = np.array(offs[self.cnt[i]], dtype=float) if self.cnt[i] < len(offs) else np.zeros(self.adv.m)
                self.cnt[i] += 1
                out[k] = self.adv.Y[i] + e
            return out
        w = self.width()
        th = self.adv.theta(self.alg.round, self.alg.S, self.alg.P)
        out = np.zeros((len(idx), self.adv.m))
        for k, i in enumerate(idx):
            d = th[i]
            if self.kind == "PaVeBa":
                nrm = np.linalg.norm(d)
                d = d / nrm if nrm > 0 else d
            target = self.adv.Y[i] + self.adv.adv["frac"] * w * d
            self.cnt[i] += 1
            obs = self.cnt[i] * target - self.sums[i]
            self.sums[i] += obs
            out[k] = obs
        return out

    def __getattr__(self, name):
        return getattr(self.base, name)


# --------------------------------------------------------------------------------------------
# construction / export
# --------------------------------------------------------------------------------------------
def build_algorithm(case):
    name = case["alg"]
    Y = np.array(case["Y"], dtype=float)
    n, m = Y.shape
    X = np.arange(n, dtype=float)[:, None]
    common = dict(epsilon=case["eps"], delta=case["delta"], noise_var=case["noise_var"],
                  conf_contraction=case["conf"])
    W = cone_W(case)
    adv = {"d6": D6Adversary, "boxes": BoxAdversary}.get(case["adv"]["mode"], Adversary)(case, W)
    order_kw = {"W": W}
    alias_shared = None
    if "alias" in case:
        # the CALLER's float64 buffer: build the order from it, then reuse / overwrite the buffer in place
        from vopy.order import PolyhedralConeOrder
        from vopy.ordering_cone import OrderingCone

        W0 = np.array(case["alias"]["W0"], dtype=np.float64)
        order = PolyhedralConeOrder(OrderingCone(W0))
        mut = case["alias"]["mutation"]
        if mut == "normalise":
            W0 /= np.linalg.norm(W0, axis=1, keepdims=True)
        elif mut == "scale":
            W0 *= float(case["alias"]["factor"])
        elif mut == "overwrite":
            W0[:] = np.array(case["alias"]["rows"], dtype=np.float64)
        alias_shared = bool(np.shares_memory(order.ordering_cone.W, W0))
        order_kw = {"order": order}
    if name == "PaVeBa":
        alg = stubs.build(name, in_data=X, out_data=Y, **order_kw, **common)
    elif name == "Auer":
        alg = stubs.build(name, in_data=X, out_data=Y, use_empirical_beta=bool(case.get("empirical")), **common)
    elif name == "EpsilonPAL":
        mdl = stubs.ScriptedModel(X, Y.copy(), adv.covs(0))
        alg = stubs.build(name, in_data=X, out_data=Y, model=mdl, batch_size=case.get("batch", 1), **common)
    else:
        cls = stubs.ScriptedModelList if name.startswith("PaVeBaPartial") else stubs.ScriptedModel
        mdl = cls(X, Y.copy(), adv.covs(0))
        alg = stubs.build(name, in_data=X, out_data=Y, model=mdl, batch_size=case.get("batch", 1), **order_kw, **common)
    if name in ("PaVeBa", "Auer") and case["adv"]["mode"] != "noise":  # incl. "offsets"
        alg.problem = TargetProblem(alg, adv, name)
    alg.verif_alias_shared = alias_shared
    return alg, adv


def region_export(r):
    if hasattr(r, "lower"):
        return ("box", core.qvec(np.asarray(r.lower, dtype=float).reshape(-1)),
                core.qvec(np.asarray(r.upper, dtype=float).reshape(-1)))
    return ("ell", core.qvec(np.asarray(r.center, dtype=float).reshape(-1)),
            core.qmat(np.asarray(r.sigma, dtype=float)), core.q(float(np.asarray(r.alpha))))


def contains_truth(ctx, r, mu) -> str:
    """'1' / '0' / 'none' from the Lean driver (exact)"""
    e = region_export(r)
    if e[0] == "box":
        return ctx.ask("box", e[1], e[2], core.qvec(mu))
    return ctx.ask("ell", e[1], e[2], e[3], core.qvec(mu))


def next_scale(alg):
    """the scale `modeling()` will use in the coming `run_one_step()`"""
    if hasattr(alg, "compute_alpha"):           # PaVeBaGP / PaVeBaPartialGP: round is incremented first
        alg.round += 1
        try:
            return float(alg.compute_alpha())
        finally:
            alg.round -= 1
    return float(np.max(alg.compute_beta()))    # VOGP / ε-PAL: modeling precedes the increment


D7_FRAMES = ("ValueError@acquisition.py:optimize_acqf_discrete",
             "ValueError@acquisition.py:optimize_decoupled_acqf_discrete",
             "ValueError@design_space.py:locate_points")


def known_crash(alg, case, key, n_active_before):
    """crashes that belong to C06's verdict (suspected defects D6 / D7): counted and skipped here"""
    name = case["alg"]
    if key == "ValueError@confidence_region.py:is_covered" and name in RECT_ALGS:
        if len(cone_W(case)) != len(case["Y"][0]):
            return "crash_rect_slack_per_facet_D6"
    if key in D7_FRAMES:
        now = len(set(alg.S) | set(getattr(alg, "U", getattr(alg, "P", ()))))
        if case.get("batch", 1) > min(n_active_before, now):
            return "crash_batch_gt_active_D7"
    return None


def auer_width_rows(alg, S_at_modeling):
    """Auer's width rows keyed by design, and whether the algorithm itself keys them by design
    (`beta_t` is a dict design → row after the D2 fix; before it, an array aligned with the iteration
    order of S at modeling time)."""
    if getattr(alg, "beta_t", None) is None:
        return {}, True
    # the internal store is read through the shared helper (dict by design / positional array / table by design);
    # an unrecognised form yields no rows (this function only feeds diagnostics)
    try:
        rows = stubs.auer_get_widths(alg, list(S_at_modeling))
        return {int(k): np.asarray(v, dtype=float) for k, v in rows.items()}, stubs.auer_width_form(alg) != "positional"
    except (stubs.AuerWidthFormUnknown, ValueError, KeyError, IndexError):
        return {}, True


def refreshed_before(alg):
    """designs whose regions the coming round refreshes"""
    if hasattr(alg, "U"):
        return sorted(set(alg.S) | set(alg.U))
    if alg.verif_name == "Auer":
        return sorted(alg.S)
    return sorted(set(alg.S) | set(alg.P))


def run_history(ctx, case, cap, on_round=None):
    """Run the real algorithm to termination under the case's adversary.
    Returns dict(status, alg, rounds, …); status ∈ terminated | premise_failed | round_cap | crash:<key> |
    skipped:<counter>."""
    name = case["alg"]
    try:
        alg, adv = build_algorithm(case)
    except Exception as e:
        return {"status": "crash:init:" + core.exc_key(e), "error": repr(e), "alg": None}
    Y = adv.Y
    ell = name in ("PaVeBaGP-DE", "PaVeBaPartialGP-ell")
    scripted = name in GP_ALGS or name in ("VOGP", "EpsilonPAL")
    t = 0
    t_start = time.time()
    flags = {"nonuniform_across_objectives": False, "positional_shift": False, "strong_premise": True}
    if name == "Auer":
        real_pu = alg.pareto_updating

        def pareto_updating():
            # diagnosis only: did discarding() shrink S while the width rows differ (positional lookups shift)?
            rows, keyed = auer_width_rows(alg, flags.get("_S_at_modeling", []))
            if rows:
                allr = np.array(list(rows.values()), dtype=float)
                if not keyed and len(allr) > len(alg.S):
                    raw = np.asarray(alg.beta_t, dtype=float)
                    by_design = [rows[i] for i in alg.S if i in rows]
                    by_pos = [raw[k] for k, _ in enumerate(alg.S)]
                    if len(by_design) == len(by_pos) and any(not np.all(x == y) for x, y in zip(by_design, by_pos)):
                        flags["positional_shift"] = True
                if allr.ndim == 2 and not np.all(allr == allr[:, :1]):
                    flags["nonuniform_across_objectives"] = True
            real_pu()

        real_mod = alg.modeling

        def modeling():
            flags["_S_at_modeling"] = list(alg.S)
            real_mod()

        alg.pareto_updating, alg.modeling = pareto_updating, modeling
    while True:
        if len(alg.S) == 0:
            return {"status": "terminated", "alg": alg, "rounds": t, "adv": adv, "flags": flags}
        if t >= cap or time.time() - t_start > case.get("max_seconds", 120):
            return {"status": "round_cap", "alg": alg, "rounds": t, "adv": adv}
        active = refreshed_before(alg)
        before = {"S": sorted(alg.S), "P": sorted(alg.P), "U": sorted(getattr(alg, "U", []))}
        if scripted:
            means, covs = adv.posterior(t, next_scale(alg), ell, alg.S, alg.P)
            alg.model._install(means, covs)
        try:
            if case["adv"]["mode"] == "noise":
                with stubs.dyadic_noise(case["adv"]["seed"] + t, p=5, span=24):
                    alg.run_one_step()
            else:
                alg.run_one_step()
        except Exception as e:
            key = core.exc_key(e)
            kc = known_crash(alg, case, key, len(active))
            if kc is not None:
                return {"status": "skipped:" + kc, "alg": alg, "rounds": t, "adv": adv}
            return {"status": "crash:" + key, "error": repr(e), "alg": alg, "rounds": t, "adv": adv}
        t += 1
        # premise: the truth is inside every region displayed (refreshed) in this round
        for i in active:
            ans = contains_truth(ctx, alg.design_space.confidence_regions[i], Y[i])
            if ans != "1":
                if ans not in ("0", "none"):
                    raise RuntimeError(f"driver answered {ans!r} to a containment query")
                return {"status": "premise_failed", "alg": alg, "rounds": t, "adv": adv, "design": i,
                        "answer": ans}
        if name == "Auer":
            # the (stronger) premise of the Lean theorem `auer_final_accurate`: ‖c − μ‖_∞ ≤ min_d β_d, β > 0
            rows, _ = auer_width_rows(alg, flags.get("_S_at_modeling", []))
            for i in active:
                r = alg.design_space.confidence_regions[i]
                if i not in rows or ctx.ask("errw", core.qvec(np.asarray(r.center, dtype=float)),
                                            core.qvec(rows[i]), core.qvec(Y[i])) != "1":
                    flags["strong_premise"] = False
        if on_round is not None:
            on_round(alg, adv, before, active, t)


# --------------------------------------------------------------------------------------------
# decided rounds (F)
# --------------------------------------------------------------------------------------------
def region_reach(r, W):
    """per facet: an upper bound of |w_n·(z − z*)| for any two points z, z* of the region"""
    W = np.array(W, dtype=float)
    if hasattr(r, "lower"):
        return np.abs(W) @ (np.asarray(r.upper, dtype=float) - np.asarray(r.lower, dtype=float))
    S = np.asarray(r.sigma, dtype=float)
    return 2.0 * float(np.asarray(r.alpha)) * np.sqrt(np.maximum(np.einsum("nd,de,ne->n", W, S, W), 0.0))


def decided_tables(alg, W, thr, Y, alive):
    """3-valued answers of is_dominated(R_i,R_j,0) / is_covered(R_i,R_j,thr) implied by the truth being
    inside the regions: '1', '0' or None (undetermined).  thr = per-facet thresholds of the covering test."""
    W = np.array(W, dtype=float)
    regs = alg.design_space.confidence_regions
    reach = {i: region_reach(regs[i], W) for i in alive}
    n = len(Y)
    dom = [[None] * n for _ in range(n)]
    cov = [[None] * n for _ in range(n)]
    for i in alive:
        for j in alive:
            if i == j:
                continue
            d = W @ (Y[j] - Y[i])
            slop = (reach[i] + reach[j]) * 1.01 + 1e-7
            # dominated: ∀∀ w_n(z'−z) ≥ 0
            if np.all(d - slop > 0):
                dom[i][j] = True
            elif np.any(d + slop < 0) or (np.any(d <= 0) and np.all(reach[i] + reach[j] > 1e-7)):
                dom[i][j] = False
            # covered: ∃∃ W(z'−z) ≥ thr
            if np.all(d - thr >= 1e-7):
                cov[i][j] = True
            elif np.any(d + slop < thr):
                cov[i][j] = False
    return dom, cov


def bits3(table, alive):
    """n×n table restricted to alive, row-major string over {0,1,?} ('?' = undetermined)"""
    n = len(table)
    out = []
    for i in range(n):
        for j in range(n):
            if i in alive and j in alive and i != j:
                out.append("?" if table[i][j] is None else ("1" if table[i][j] else "0"))
            else:
                out.append("0")
    return "".join(out)


def determined_answer(ask, tables, max_unknown=8):
    """`ask(*completed tables)` for every completion of the '?' entries; the common answer if all
    completions agree, else None (also None when there are more than `max_unknown` unknowns)."""
    pos = [(k, i) for k, tb in enumerate(tables) for i, c in enumerate(tb) if c == "?"]
    if len(pos) > max_unknown:
        return None
    answers = set()
    for mask in range(1 << len(pos)):
        tbs = [list(tb) for tb in tables]
        for b, (k, i) in enumerate(pos):
            tbs[k][i] = "1" if (mask >> b) & 1 else "0"
        answers.add(ask(*["".join(tb) for tb in tbs]))
        if len(answers) > 1:
            return None
    return answers.pop()


# --------------------------------------------------------------------------------------------
# generators
# --------------------------------------------------------------------------------------------
CONES2 = ["orthant2", "acute2", "obtuse2", "skew2", "redundant2", "threefacet2"]
CONES3 = ["orthant3", "acute3", "obtuse3", "fourfacet3"]
MODES = ["lift-dominated", "sink-dominated", "alternate", "lift-mixed", "corners", "fixed-corner", "rotating",
         "centered"]


def gen_Y(rng, n, m, W, alpha, eps, shape):
    u = interior_direction(W)
    if u is None:
        u = np.ones(m)
    W_ = np.array(W, dtype=float)
    pts = []

    def lat(lo=-8, hi=8, p=2):
        return [core.dyadic(rng, lo, hi, p) for _ in range(m)]

    def step_for_gap(g):
        """c such that the point base + c·u has gap exactly g (in exact arithmetic) over base"""
        per = (W_ @ u) / alpha
        return g / float(np.min(per))

    if shape == "random":
        pts = [lat() for _ in range(n)]
    elif shape == "ties":
        pts = [lat() for _ in range(max(1, n // 2))]
        while len(pts) < n:
            pts.append(list(pts[rng.randrange(len(pts))]))
    elif shape == "chain":
        base = np.array(lat(-4, 4))
        c = step_for_gap(eps) * rng.choice([0.5, 1 - 2.0 ** -6, 1 + 2.0 ** -6, 2.0])
        pts = [list(base + k * c * u) for k in range(n)]
    elif shape == "eps-boundary":
        base = [lat(-6, 6) for _ in range(max(1, n // 2))]
        pts = [list(b) for b in base]
        while len(pts) < n:
            b = np.array(base[rng.randrange(len(base))])
            f = rng.choice([1 - 2.0 ** -6, 1 + 2.0 ** -6, 1 - 2.0 ** -3, 1 + 2.0 ** -3, 0.5, 2.0, 3.0])
            sgn = rng.choice([-1.0, 1.0])
            pts.append(list(b + sgn * step_for_gap(eps * f) * u))
    elif shape == "front":
        # an antichain (moved along a facet-orthogonal direction) plus designs below it at assorted gaps
        k = max(2, n // 2)
        base = np.array(lat(-4, 4))
        if m == 2:
            tdir = np.array([-u[1], u[0]])
        else:
            tdir = np.cross(u, np.array([1.0, 0.0, 0.0]) if abs(u[0]) < 0.9 * np.linalg.norm(u) else np.array([0.0, 1.0, 0.0]))
        tdir = tdir / np.abs(tdir).max()
        front = [base + (i - k / 2) * tdir * rng.choice([0.5, 1.0, 2.0]) for i in range(k)]
        pts = [list(p) for p in front]
        while len(pts) < n:
            b = front[rng.randrange(k)]
            f = rng.choice([0.25, 1 - 2.0 ** -6, 1 + 2.0 ** -6, 1.5, 4.0])
            side = rng.choice([0.0, 0.0, 0.25, -0.25])
            pts.append(list(b - step_for_gap(eps * f) * u + side * eps * tdir))
    elif shape == "near-incomparable":
        base = np.array(lat(-4, 4))
        pts = [list(base)]
        while len(pts) < n:
            w = W_[rng.randrange(len(W_))]
            # just outside / just inside one facet, ahead on the others
            off = step_for_gap(eps * rng.choice([0.25, 0.5, 1.0])) * u
            nudge = -w / float(w @ w) * (float(w @ off) + eps * rng.choice([2.0 ** -6, -(2.0 ** -6), 0.0, 2.0 ** -3]))
            pts.append(list(base + off + nudge))
    rng.shuffle(pts)
    return [[float(x) for x in p] for p in pts[:n]]


def gen_adv(rng, n, m, alg):
    mode = rng.choice(MODES)
    sd0 = [[rng.choice([0.05, 0.1, 0.25, 0.5, 1.0]) for _ in range(m)] for _ in range(n)]
    shrink = [rng.choice([0.4, 0.6, 0.8]) for _ in range(n)]
    if rng.random() < 0.35:  # one slow, wide design: lets others reach P while it is still undecided
        k = rng.randrange(n)
        sd0[k] = [rng.choice([1.0, 2.0]) for _ in range(m)]
        shrink[k] = 0.85
    adv = {"mode": mode, "frac": rng.choice([0.5, 0.9, 1 - 2.0 ** -6]), "sd0": sd0, "shrink": shrink,
           "seed": rng.randrange(1 << 30)}
    if alg in ("PaVeBaGP-DE",):
        adv["rho"] = rng.choice([0.0, 0.5, -0.3, 0.8]) if m == 2 else rng.choice([0.0, 0.5, -0.3])
    return adv


def paveba_window_case(rng, tier, small_rows=False):
    """PaVeBa (balls of one common radius r_t ∝ sqrt(log t / t)): a short chain with gaps in (ε, 3ε] and a
    contraction chosen so that r_1 starts just above the window (g+ε)/2 in which the better design is already
    in P (and useful) while the worse one is neither discarded nor decided — the rounds in which U matters."""
    m = 2
    cone = rng.choice(["orthant2", "orthant2", "acute2", "obtuse2", "redundant2"])
    W = [[float(x) for x in r] for r in EXACT_CONES[cone][0]]
    scaled = small_rows or rng.random() < 0.5
    if small_rows:      # rows of norm < 1: a slack computed from normalised rows would be too generous
        W = [[float(x) * f for x in r] for r, f in zip(W, [rng.choice([0.25, 0.4, 0.5]) for _ in W])]
    elif scaled:
        W = scaled_rows(rng, W)
    alpha = alpha_of(W)
    eps = rng.choice([0.25, 0.125, 0.5])
    u = interior_direction(W)
    per = (np.array(W) @ u) / alpha
    n = rng.randint(2, 3)
    fs = [rng.choice([1 + 2.0 ** -3, 1.2, 1.5, 2.0, 3.0]) for _ in range(n - 1)]
    if small_rows:
        fs[0] = rng.choice([1 + 2.0 ** -3, 1.2, 1.5])
    base = np.array([core.dyadic(rng, -4, 4, 2) for _ in range(m)])
    Y, cur = [list(base)], base
    for f in fs:
        cur = cur + (eps * f / float(np.min(per))) * u
        Y.append([float(x) for x in cur])
    rng.shuffle(Y)
    delta, noise_var = 0.05, 0.04
    r1_unit = math.sqrt(8 * noise_var * math.log(math.pi ** 2 * (m + 1) * n / (6 * delta)))
    # radius (Euclidean) at which a gap-g pair stops being separable: ≈ (g+ε)·min_n α_n/‖w_n‖ / 2
    scale = float(np.min(alpha / np.linalg.norm(np.array(W), axis=1)))
    target = rng.choice([0.8, 1.1, 1.6]) * (max(fs) + 1) * eps * scale / 2
    extra = {"W": W} if scaled else {}
    return {"kind": "run", "alg": "PaVeBa", "cone": cone + ("~rows-scaled" if scaled else ""), **extra,
            "shape": "window", "Y": Y, "eps": eps, "delta": delta,
            "noise_var": noise_var, "conf": r1_unit / target, "rounds": 60,
            "adv": {"mode": rng.choice(["centered", "centered", "lift-dominated", "sink-dominated", "rotating"]),
                    "frac": rng.choice([0.25, 0.5]), "sd0": [[1.0] * m] * n, "shrink": [0.5] * n,
                    "seed": rng.randrange(1 << 30)}}


def gen_case(rng, tier, alg=None, shape=None):
    if alg == "PaVeBa" and shape == "window":
        return paveba_window_case(rng, tier)
    alg = alg or rng.choice(ALL_ALGS)
    m = rng.choice([2, 2, 3]) if tier == "thorough" else rng.choice([2, 2, 2, 3])
    if alg == "Auer":
        cone = "orthant%d" % m
    elif alg in RECT_ALGS:
        # N ≠ m cones crash (D6, C06's verdict): generated rarely, counted and skipped
        pool = (CONES2 if m == 2 else CONES3)
        cone = rng.choice(pool)
    else:
        cone = rng.choice(CONES2 if m == 2 else CONES3)
    W = [[float(x) for x in r] for r in EXACT_CONES[cone][0]]
    scaled = alg != "Auer" and rng.random() < 0.3
    if scaled:
        W = scaled_rows(rng, W)
    alpha = alpha_of(W)
    eps = rng.choice([0.125, 0.25, 0.1, 0.3, 0.5])
    nmax = 8 if tier == "thorough" else 6
    n = rng.randint(3, nmax)
    shape = shape or rng.choice(["random", "ties", "chain", "eps-boundary", "front", "near-incomparable"])
    Y = gen_Y(rng, n, m, W, alpha, eps, shape)
    case = {"kind": "run", "alg": alg, "cone": cone, "shape": shape, "Y": Y, "eps": eps,
            "delta": rng.choice([0.05, 0.1, 0.01]), "noise_var": rng.choice([0.01, 0.0001, 0.04]),
            "conf": rng.choice([32, 16, 64, 8]), "adv": gen_adv(rng, n, m, alg)}
    if scaled:
        case["W"] = W
        case["cone"] = cone + "~rows-scaled"
    if alg in GP_ALGS:
        case["batch"] = rng.choice([1, 1, 2, 3])
        case["conf"] = rng.choice([32, 16, 64])
    if alg == "Auer":
        case["empirical"] = rng.random() < 0.5
        case["conf"] = rng.choice([32, 64, 128])
        if rng.random() < 0.2:
            case["adv"]["mode"] = "noise"
    if alg == "PaVeBa":
        case["conf"] = rng.choice([32, 64, 128, 16])
        if rng.random() < 0.2:
            case["adv"]["mode"] = "noise"
    return case


def d6_case(variant=0):
    """Hand-built history for the suspected defect D6 (rectangular PaVeBa-GP variants interpret the per-facet
    slack ε·α as an objective-space shift): obtuse cone, two designs, j exceeds i by ≈ 2ε in gap units, an
    anisotropic valid posterior under which i is neither discarded nor ε-covered (in the code's units)."""
    eps = 0.25
    c = 1.5 * eps
    Y = [[0.0, 0.0], [c, c]]
    alg = "PaVeBaGP-IH" if variant % 2 == 0 else "PaVeBaPartialGP-rect"
    return {"kind": "run", "alg": alg, "cone": "obtuse2", "shape": "d6", "Y": Y, "eps": eps, "delta": 0.05,
            "noise_var": 0.01, "conf": 32, "batch": 1,
            "adv": {"mode": "d6", "frac": 0.9, "sd0": [[1.0, 1.0], [1.0, 1.0]], "shrink": [0.5, 0.5], "seed": 1,
                    "d6": {"Hx": 0.6 * eps, "Hy": 2.0 ** -10}}}


def auer_minwidth_case():
    """Hand-built history for Auer with use_empirical_beta=True and contraction 1: the empirical variance
    makes objective 1's width ≈ 12× objective 0's; `np.all(M(i,j) < β_i+β_j)` compares the scalar M with the
    *smallest* width, so design 0 (exceeded by design 1 by 1.2 > ε = 1 in every objective) passes stage 1
    although the truth is inside both displayed boxes."""
    return {"kind": "run", "alg": "Auer", "cone": "orthant2", "shape": "auer-minwidth", "empirical": True,
            "Y": [[0.0, 0.0], [1.25, 1.25]], "eps": 1.0, "delta": 0.05, "noise_var": 0.01, "conf": 1,
            "adv": {"mode": "offsets", "frac": 1.0, "sd0": [[1.0, 1.0]] * 2, "shrink": [0.5, 0.5], "seed": 1,
                    "offsets": [[[-3.0, -5.0], [-4.0, 40.0]], [[3.0, 5.0], [4.0, -40.0]]]}}


def gen_auer_offsets(rng, tier):
    """random explicit observation errors for Auer with empirical β and small contraction: a large swing in
    one objective (same objective for all designs, or the same swing in every objective per design) makes
    width rows non-uniform across objectives / across designs."""
    m = 2
    n = rng.randint(2, 4)
    conf = rng.choice([1, 1, 2])
    eps = rng.choice([1.0, 2.0, 4.0])
    style = rng.choice(["objective", "design"])
    base = [rng.randint(-2, 2) * 0.5 for _ in range(m)]
    Y = [[b + k * eps * rng.choice([0.5, 1.25, 1.0 + 2.0 ** -6, 2.0]) for b in base] for k in range(n)]
    rng.shuffle(Y)
    dstar = rng.randrange(m)
    offs = []
    for i in range(n):
        rows = []
        amp = rng.choice([0.0, 10.0, 30.0, 60.0]) / conf
        sg = rng.choice([-1.0, 1.0])
        for k in range(rng.randint(2, 4)):
            e = [rng.uniform(-4.0, 4.0) / conf for _ in range(m)]
            if k >= 1:
                swing = sg * amp * (1.0 if k % 2 == 1 else -0.5)
                if style == "objective":
                    e[dstar] = swing
                else:
                    e = [swing + rng.uniform(-1, 1) / conf for _ in range(m)]
            rows.append([float(np.float32(v)) for v in e])
        offs.append(rows)
    return {"kind": "run", "alg": "Auer", "cone": "orthant2", "shape": "auer-offsets-" + style, "empirical": True,
            "Y": Y, "eps": eps, "delta": rng.choice([0.05, 0.1]), "noise_var": 0.01, "conf": conf,
            "adv": {"mode": "offsets", "frac": 1.0, "sd0": [[1.0] * m] * n, "shrink": [0.5] * n,
                    "seed": rng.randrange(1 << 30), "offsets": offs}}


def auer_position_case():
    """Hand-built history for the defect D2 seen end to end: four designs, widths uniform across objectives
    but different per design; design 0 is discarded in round 2, after which pareto_updating() pairs design 1
    with design 0's (small) width row and lets it into P although design 2 exceeds it by 1.25 > ε = 1."""
    a, b = 5.0, 13.0
    z = [[0.0, 0.0], [0.0, 0.0]]
    return {"kind": "run", "alg": "Auer", "cone": "orthant2", "shape": "auer-position", "empirical": True,
            "Y": [[-40.0, 30.0], [0.0, 0.0], [1.25, 1.25], [-30.0, 40.0]], "eps": 1.0, "delta": 0.05,
            "noise_var": 0.01, "conf": 1,
            "adv": {"mode": "offsets", "frac": 1.0, "sd0": [[1.0, 1.0]] * 4, "shrink": [0.5] * 4, "seed": 1,
                    "offsets": [z, [[a, -a], [b, -b]], [[-a, a], [-b, b]], z]}}


class BoxAdversary(Adversary):
    """explicit displayed boxes: `adv["history"][t] = [offsets (n×m), half-widths (n×m)]` — in round t the box of
    design i is `μ_i + offsets[i] ± half[i]` whatever the algorithm's scale; after the last entry the boxes keep
    their last offsets/half-widths multiplied by `tail_shrink` per further round (floor 2^-14)."""

    def _entry(self, t):
        H = self.adv["history"]
        k = min(t, len(H) - 1)
        off, half = np.array(H[k][0], dtype=float), np.array(H[k][1], dtype=float)
        f = float(self.adv.get("tail_shrink", 0.5)) ** max(0, t - (len(H) - 1))
        return off * f, np.maximum(half * f, FLOOR)

    def _shapes(self, t):
        """ellipsoid shape matrices M_i (displayed region {x | (x−c)ᵀ M_i⁻¹ (x−c) ≤ half_i[0]²}); identity if the
        history entry has none"""
        H = self.adv["history"]
        k = min(t, len(H) - 1)
        if len(H[k]) > 2:
            return np.array(H[k][2], dtype=float)
        return np.stack([np.eye(self.m)] * self.n)

    def covs(self, t):
        _, half = self._entry(t)
        return np.stack([np.diag(h ** 2) for h in half])

    def posterior(self, t, scale, ell, S=(), P=()):
        off, half = self._entry(t)
        if ell:
            M = self._shapes(t)
            return self.Y + off, np.stack([M[i] * (half[i][0] / scale) ** 2 for i in range(self.n)])
        sd = half / scale
        return self.Y + off, np.stack([np.diag(x ** 2) for x in sd])


# --------------------------------------------------------------------------------------------
# structured family: over-optimistic region domination on acute cones
# --------------------------------------------------------------------------------------------
_cone_cache = {}


def acute_cone(name):
    """(label, W rows) of a cone whose matrix has negative entries, built by the real constructors"""
    if name not in _cone_cache:
        if name.startswith("theta"):
            from vopy.utils import get_2d_w

            W = get_2d_w(float(name[5:]))
        elif name.startswith("icecream"):
            from vopy.order import ConeOrder3DIceCream

            deg, k = name[8:].split("x")
            W = ConeOrder3DIceCream(float(deg), int(k)).ordering_cone.W
        elif name.startswith("rays"):
            # 2-D cone spanned by the rays at the two angles (degrees), inward unit normals as rows: its axis is
            # NOT the diagonal (e.g. rays60_150 → u* = (−0.26, 0.97))
            lo, hi = (np.radians(float(x)) for x in name[4:].split("_"))
            W = np.array([[-np.sin(lo), np.cos(lo)], [np.sin(hi), -np.cos(hi)]])
        elif name.startswith("pyr"):
            # 3-D cone with k facets arranged around an off-diagonal axis: "pyr<k>_<phi>_<a0>_<a1>_<a2>"
            parts = name[3:].split("_")
            k, phi = int(parts[0]), np.radians(float(parts[1]))
            a = np.array([float(x) for x in parts[2:5]])
            a = a / np.linalg.norm(a)
            b1 = np.cross(a, [0.0, 0.0, 1.0])
            b1 = b1 / np.linalg.norm(b1)
            b2 = np.cross(a, b1)
            ang = 2 * np.pi * np.arange(k) / k
            W = np.array([np.sin(phi) * a + np.cos(phi) * (np.cos(t) * b1 + np.sin(t) * b2) for t in ang])
        elif name.startswith("order3d-"):
            from vopy.order import ConeOrder3D

            W = ConeOrder3D(name[8:]).ordering_cone.W
        elif name in USER_CONES:
            W = np.array(USER_CONES[name], dtype=float)
        elif name in OFFAXIS_INT:
            W = np.array(OFFAXIS_INT[name], dtype=float)
        else:
            W = np.array(EXACT_CONES[name][0], dtype=float)
        _cone_cache[name] = [[float(x) for x in r] for r in np.asarray(W, dtype=float)]
    return _cone_cache[name]


# asymmetric user cones: non-unit rows, facets of different "weight", N ≠ m, a facet inactive for u*
USER_CONES = {
    "user2-scaled": [[2, 0], [0, 1]],
    "user2-skew": [[1, 0], [-1, 2]],
    "user2-three": [[3, -1], [-1, 2], [1, 0]],
    "user3-cut": [[1, 0, 0], [0, 1, 0], [1, 1, 1]],
    "user3-cut-unit": [[1.0, 0.0, 0.0], [0.0, 1.0, 0.0], [3 ** -0.5, 3 ** -0.5, 3 ** -0.5]],
    "user3-mixed": [[1, -1, 1], [1, 1, -1], [-1, 1, 1]],
    "user3-asym": [[2, 0, 0], [-1, 3, 0], [0, -1, 1], [1, 1, 1]],
}
# integer-row cones whose axis is off the diagonal
OFFAXIS_INT = {"offaxis2a": [[-2, 1], [1, 2]], "offaxis2b": [[-1, 3], [3, 1]], "offaxis2c": [[1, -3], [1, 2]]}
OFFAXIS_CONES2 = ["rays60_150", "rays100_170", "rays-20_40", "rays30_100", "offaxis2a", "offaxis2b", "offaxis2c"]
OFFAXIS_CONES3 = ["pyr4_40_-1_2_2", "pyr5_35_2_-1_2", "pyr3_40_2_2_-1"]


def box_vertices(lo, hi):
    import itertools

    return [np.array(v) for v in itertools.product(*zip(lo, hi))]


def vertex_subset(lo, hi, patterns):
    """the vertices of [lo, hi] whose upper/lower pattern (tuple of 0/1 per coordinate) is in `patterns`"""
    return [np.array([hi[d] if p[d] else lo[d] for d in range(len(lo))]) for p in patterns]


def corner_pair(rng, W, s, want_pess=False, tries=400, patterns=None):
    """Two designs (victim 0, witness 1) and first-round boxes such that the truth is inside both boxes, the
    true difference μ_1 (+ s) − μ_0 lies just OUTSIDE the cone (one facet slightly negative, the others clearly
    positive), corner-to-corner dominance `W(lower_1 + s − upper_0) ≥ 0` holds, but some cross pair of vertices
    fails — boxes anisotropic (5–20×), elongated where the facet with the negative entry is blind.
    With `want_pess` the witness's vertices all dominate the low corner of the victim's box (victim outside the
    pessimistic set) and no vertex of the victim's box dominates a point of the witness's box.
    Returns (Y, offsets, halfs) or None."""
    Wn = np.array(W, dtype=float)
    N, m = Wn.shape
    s = np.array(s, dtype=float)
    rows = [n for n in range(N) if np.any(Wn[n] < 0)]
    if not rows:
        return None
    for _ in range(tries):
        n0 = rng.choice(rows)
        neg = Wn[n0] < 0
        hb = rng.choice([0.1, 0.2, 0.4])
        ratio = rng.choice([5.0, 10.0, 20.0])
        h1 = np.where(neg, hb, hb / ratio)                       # witness: long where w_n0 is negative
        h0 = np.where(neg, hb * rng.choice([0.25, 0.5, 1.0]), hb / ratio)
        if want_pess:
            k = rng.randrange(m)
            h0 = h0.copy()
            h0[k] = hb * rng.choice([1.0, 2.0, 3.0])             # victim: long, hanging below the truth
        # target facet values of d = μ_1 − μ_0
        slack_n = Wn @ s
        reach = np.abs(Wn) @ (h0 + h1)
        target = 2.5 * reach + np.abs(slack_n) + rng.choice([0.1, 0.3])
        delta = rng.choice([0.05, 0.1, 0.25]) * float((np.abs(Wn[n0]) * neg) @ (h0 + h1))
        target[n0] = -(max(slack_n[n0], 0.0) + delta)
        d, *_ = np.linalg.lstsq(Wn, target, rcond=None)
        fd = Wn @ d
        if not (fd[n0] + slack_n[n0] < -1e-6 and np.all(np.delete(fd, n0) > 0)):
            continue
        # offsets: truth near the upper corner of the victim's box (it hangs below), witness pushed along −w_n0
        f = rng.choice([0.5, 0.9, 1 - 2.0 ** -5])
        off0 = -f * h0 if want_pess else f * h0 * np.sign(-Wn[n0]) * rng.choice([0.0, 1.0])
        off1 = f * h1 * np.sign(Wn[n0]) * rng.choice([0.0, 0.5, 1.0])
        mu0 = np.zeros(m)
        mu1 = d
        lo0, hi0 = mu0 + off0 - h0, mu0 + off0 + h0
        lo1, hi1 = mu1 + off1 - h1, mu1 + off1 + h1
        tol = 1e-9
        corner = np.all(Wn @ (lo1 + s - hi0) >= 1e-6)
        exact = all(np.all(Wn @ (v1 + s - v0) >= -tol) for v0 in box_vertices(lo0, hi0) for v1 in box_vertices(lo1, hi1))
        if not corner or exact:
            continue
        if patterns is not None:
            # a vertex enumeration that yields only `patterns` would still see every pair ordered
            if not all(np.all(Wn @ (v1 + s - v0) >= 1e-6) for v0 in vertex_subset(lo0, hi0, patterns)
                       for v1 in vertex_subset(lo1, hi1, patterns)):
                continue
        if want_pess:
            low0 = lo0
            if not all(np.all(Wn @ (v1 - low0) >= 1e-6) for v1 in box_vertices(lo1, hi1)):
                continue
            # no vertex of the victim's box can dominate any point of the witness's box (witness stays pessimistic)
            if any(np.all(Wn @ (v0 - lo1) >= -np.abs(Wn) @ (hi1 - lo1)) for v0 in box_vertices(lo0, hi0)):
                continue
        return [list(map(float, mu0)), list(map(float, mu1))], [list(map(float, off0)), list(map(float, off1))], \
            [list(map(float, h0)), list(map(float, h1))]
    return None


CORNER_CONES_SQUARE = ["theta45", "theta30", "theta60", "acute2", "skew2", "acute3", "rays60_150", "rays-20_40",
                       "offaxis2a", "offaxis2c", "pyr3_40_2_2_-1"]
CORNER_CONES_ANY = CORNER_CONES_SQUARE + ["threefacet2", "icecream30x4", "icecream20x6"]


def corner_case(rng, alg, cones=None):
    """C01 member of the family: rectangular PaVeBa variant, victim 0 would be discarded by a corner-to-corner
    shortcut although nothing dominates it; a far dominated bystander may be added."""
    for _ in range(20):
        cname = rng.choice(cones or CORNER_CONES_SQUARE)
        W = acute_cone(cname)
        m = len(W[0])
        got = corner_pair(rng, W, np.zeros(m))
        if got is None:
            continue
        Y, off, half = got
        if rng.random() < 0.5:
            u = interior_direction(W)
            if u is not None:
                Y.append([float(x) for x in (np.array(Y[0]) - 6.0 * u - np.abs(np.array(Y[1])))])
                off.append([0.0] * m)
                half.append([2.0 ** -6] * m)
        n = len(Y)
        tiny = [[2.0 ** -7] * m for _ in range(n)]
        return {"kind": "run", "alg": alg, "cone": cname, "W": W, "shape": "acute-corner", "Y": Y,
                "eps": rng.choice([0.01, 0.05]), "delta": 0.1, "noise_var": 0.0001, "conf": rng.choice([1, 32]),
                "batch": 1,
                "adv": {"mode": "boxes", "frac": 1.0, "sd0": [[1.0] * m] * n, "shrink": [0.5] * n,
                        "seed": rng.randrange(1 << 30), "tail_shrink": 0.5,
                        "history": [[off, half], [[[0.0] * m] * n, tiny]]}}
    return None


# --------------------------------------------------------------------------------------------
# structured family: strongly correlated, anisotropic ellipsoids (PaVeBaGP-DE)
# --------------------------------------------------------------------------------------------
def ell_support(M, h, w):
    return h * float(np.sqrt(max(w @ M @ w, 0.0)))


def wrong_axes(M):
    """ellipsoid shapes with the eigenvalues of M but other axes: what a predicate reasons about when it whitens
    with the wrong factor (untransposed Cholesky factor of the precision matrix) or mirrors the correlation"""
    out = []
    try:
        L = np.linalg.cholesky(np.linalg.inv(M))
        out.append(np.linalg.inv(L.T @ L))
        out.append(np.linalg.inv(np.linalg.cholesky(M).T @ np.linalg.cholesky(M)) @ M @ M)
    except np.linalg.LinAlgError:
        pass
    Mm = M.copy()
    Mm[~np.eye(len(M), dtype=bool)] *= -1.0
    if np.all(np.linalg.eigvalsh(Mm) > 0):
        out.append(Mm)
    return out


ELL_CONES = ["orthant2", "orthant2", "acute2", "obtuse2", "skew2", "orthant3", "acute3"]


def ell_corr_case(rng, tries=300, alg=None, diagonal=False):
    """PaVeBaGP-DE: victim 0 and witness 1 with μ_1 − μ_0 just outside the cone; both displayed ellipsoids strongly
    correlated (|ρ| ≤ 0.95, both signs) and anisotropic, posterior means pushed along the long axis (truth at
    Mahalanobis depth ≤ 0.9).  Accepted when the true ellipsoids are NOT ordered while ellipsoids with the same
    eigenvalues but wrong axes would be: a predicate that rotates / mirrors Σ discards the victim wrongly."""
    for _ in range(tries):
        cname = rng.choice(ELL_CONES)
        W = [[float(x) for x in r] for r in EXACT_CONES[cname][0]]
        Wn = np.array(W)
        N, m = Wn.shape
        rho = rng.choice([0.8, 0.9, 0.95]) * rng.choice([-1.0, 1.0])
        if m == 3:
            rho = abs(rho) if rng.random() < 0.7 else -0.45
        D = np.diag([rng.choice([0.5, 1.0, 2.0]) for _ in range(m)])
        if diagonal:      # heteroscedastic but uncorrelated: semi-axes differing by up to 8×
            rho = 0.0
            D = np.diag([rng.choice([0.25, 0.5, 1.0, 2.0]) for _ in range(m)])
            if np.max(np.diag(D)) / np.min(np.diag(D)) < 2:
                continue
        R = (1 - rho) * np.eye(m) + rho * np.ones((m, m))
        M = D @ R @ D
        if np.min(np.linalg.eigvalsh(M)) <= 1e-6:
            continue
        h = rng.choice([0.05, 0.1, 0.2])
        n0 = rng.randrange(N)
        sup = np.array([ell_support(M, h, Wn[n]) for n in range(N)])
        target = 2 * 2.5 * sup + rng.choice([0.1, 0.3])
        target[n0] = -rng.choice([0.05, 0.1, 0.25]) * 2 * sup[n0]
        d, *_ = np.linalg.lstsq(Wn, target, rcond=None)
        fd = Wn @ d
        if not (fd[n0] < -1e-6 and np.all(np.delete(fd, n0) > 0)):
            continue
        ev, evec = np.linalg.eigh(M)
        axis = evec[:, int(np.argmax(ev))] * np.sqrt(np.max(ev))      # Mahalanobis length 1
        f = rng.choice([0.5, 0.9])
        off0 = f * h * axis * rng.choice([-1.0, 1.0])
        off1 = f * h * axis * rng.choice([-1.0, 1.0])
        c = d + off1 - off0
        true_min = np.array([Wn[n] @ c - 2 * ell_support(M, h, Wn[n]) for n in range(N)])
        if np.all(true_min >= -1e-9):
            continue                                                   # really ordered: nothing to see
        fooled = False
        # a predicate that only solves the facet whose centre margin (per unit normal) is smallest
        nstar = int(np.argmin((Wn @ c) / np.linalg.norm(Wn, axis=1)))
        if true_min[nstar] >= 1e-4:
            fooled = True
        for Mw in ([] if diagonal else wrong_axes(M)):
            wm = np.array([Wn[n] @ c - 2 * ell_support(Mw, h, Wn[n]) for n in range(N)])
            if np.all(wm >= 1e-4):
                fooled = True
        if not fooled:
            continue
        Y = [[0.0] * m, [float(x) for x in d]]
        off = [[float(x) for x in off0], [float(x) for x in off1]]
        shapes = [M.tolist(), M.tolist()]
        if rng.random() < 0.5:
            u = interior_direction(W)
            Y.append([float(x) for x in (-6.0 * u - np.abs(d))])
            off.append([0.0] * m)
            shapes.append(np.eye(m).tolist())
        n = len(Y)
        return {"kind": "run", "alg": alg or "PaVeBaGP-DE", "cone": cname,
                "shape": "ell-anisotropic" if diagonal else "ell-correlated", "Y": Y,
                "eps": rng.choice([0.01, 0.05]), "delta": 0.1, "noise_var": 0.0001, "conf": rng.choice([1, 32]),
                "batch": 1,
                "adv": {"mode": "boxes", "frac": 1.0, "sd0": [[1.0] * m] * n, "shrink": [0.5] * n,
                        "seed": rng.randrange(1 << 30), "tail_shrink": 0.5, "rho": rho,
                        "history": [[off, [[h] * m] * n, shapes],
                                    [[[0.0] * m] * n, [[2.0 ** -8] * m] * n, shapes]]}}
    return None


class D6Adversary(Adversary):
    """boxes of half-widths (Hx, Hy) for both designs (whatever the scale), design 0's centre pushed towards
    +x, design 1's towards −x by frac·Hx: facet 1 = (2,1) still allows `not dominated`, facet 2 = (1,2)
    already forbids covering in the code's units W·(εα)."""

    def posterior(self, t, scale, ell, S=(), P=()):
        H = np.array([self.adv["d6"]["Hx"], self.adv["d6"]["Hy"]])
        sd = H / scale
        covs = np.stack([np.diag(sd ** 2), np.diag(sd ** 2)])
        f = self.adv["frac"]
        means = self.Y + np.array([[f * H[0], 0.0], [-f * H[0], 0.0]])
        return means, covs

    def covs(self, t):
        return np.stack([np.eye(2), np.eye(2)])


ALIAS_CONES = ["acute2", "orthant2", "obtuse2", "acute3", "orthant3"]


def alias_case(rng, k):
    """"aliasing" family: the order is built from a caller-owned float64 array with NON-unit rows (an exact cone
    scaled by 4 … 16 per row); the caller then rescales / overwrites that array in place before the algorithm is
    constructed.  The cone of a correct `OrderingCone` is unaffected (it copied the rows).  A design lies
    f·ε (f ∈ {1.5, 2.5, 4}) below another one in gap units — it must not be returned — and the first-round regions
    are such that it can neither be discarded nor, with the correct α, declared uncoverable."""
    alg = ("PaVeBa", "PaVeBaGP-DE", "PaVeBaPartialGP-ell")[k % 3]
    cname = rng.choice(ALIAS_CONES)
    base = np.array(EXACT_CONES[cname][0], dtype=float)
    fac = [float(rng.choice([4.0, 8.0, 16.0])) for _ in base]
    W0 = (base * np.array(fac)[:, None]).tolist()
    mutation = ("normalise", "scale", "normalise", "overwrite")[(k // 3) % 4]
    alias = {"W0": W0, "mutation": mutation}
    if mutation == "scale":
        alias["factor"] = 1.0 / 16.0
    if mutation == "overwrite":   # the same cone written with unit rows in another order of magnitude
        alias["rows"] = (base / np.linalg.norm(base, axis=1, keepdims=True) * 0.5).tolist()
    m = base.shape[1]
    alpha = alpha_of(W0)
    u = interior_direction(W0)
    eps = rng.choice([0.1, 0.25, 0.05])
    f = rng.choice([1.5, 2.5, 4.0])
    per = (np.array(W0) @ u) / alpha
    d = (f * eps / float(np.min(per))) * u                    # μ_top − μ_low : gap exactly f·ε
    lowpt = np.array([core.dyadic(rng, -4, 4, 2) for _ in range(m)])
    Y = [[float(x) for x in lowpt + d], [float(x) for x in lowpt]]
    if rng.random() < 0.5:
        Y.append([float(x) for x in lowpt - 20.0 * np.abs(d) - 1.0])
    n = len(Y)
    if alg == "PaVeBa":
        # balls of one radius r_t: start just above the window, as in `paveba_window_case`
        delta, noise_var = 0.05, 0.04
        r1_unit = math.sqrt(8 * noise_var * math.log(math.pi ** 2 * (m + 1) * n / (6 * delta)))
        scale = float(np.min(alpha / np.linalg.norm(np.array(W0), axis=1)))
        target = rng.choice([1.0, 1.4]) * (f + 1) * eps * scale / 2
        return {"kind": "run", "alg": alg, "cone": cname + "~aliased", "alias": alias, "shape": "alias-" + mutation,
                "Y": Y, "eps": eps, "delta": delta, "noise_var": noise_var, "conf": r1_unit / target, "rounds": 80,
                "adv": {"mode": "centered", "frac": 0.5, "sd0": [[1.0] * m] * n, "shrink": [0.5] * n,
                        "seed": rng.randrange(1 << 30)}}
    # ellipsoids (balls) of explicit radius h in round 0: not separable (2h·‖w_n‖ > w_n·d on some facet) but well
    # inside the reach of a slack that is too large by the old row norm
    Wn = np.array(W0)
    fd = Wn @ d
    h = 0.8 * float(np.min(fd / np.linalg.norm(Wn, axis=1)))    # 2h‖w‖ = 1.6·w·d ∈ (w·d, …)
    shapes = [np.eye(m).tolist()] * n
    hist = [[[[0.0] * m] * n, [[h] * m] * n, shapes], [[[0.0] * m] * n, [[2.0 ** -9] * m] * n, shapes]]
    return {"kind": "run", "alg": alg, "cone": cname + "~aliased", "alias": alias, "shape": "alias-" + mutation,
            "Y": Y, "eps": eps, "delta": 0.1, "noise_var": 0.0001, "conf": 32, "batch": 1,
            "adv": {"mode": "boxes", "frac": 1.0, "sd0": [[1.0] * m] * n, "shrink": [0.5] * n,
                    "seed": rng.randrange(1 << 30), "tail_shrink": 0.5, "history": hist}}


def auer_position_layouts():
    """all placements of the four roles of the id/position scenario over K = 4 ids, then K = 5, 6 with extra
    incomparable designs: A optimal; B = A − 1.5ε (ε-covered by A only, not discardable for a long time); J far
    below everything (eliminated in round 1: positions in S shift); C… incomparable with all."""
    import itertools

    out = []
    for perm in itertools.permutations(range(4)):
        out.append((4, perm))
    for K in (5, 6):
        for perm in itertools.permutations(range(K), 4):
            out.append((K, perm))
    return out


def auer_id_position_case(rng, k):
    layouts = auer_position_layouts()
    if k < 24:
        K, perm = layouts[k]
    else:
        K, perm = layouts[24 + rng.randrange(len(layouts) - 24)]
    eps = 0.1
    a = np.array([1.0, 1.0])
    roles = {"A": a, "B": a - 1.5 * eps, "J": np.array([-3.0, -3.0]), "C": np.array([-1.0, 3.0])}
    Y = [None] * K
    for role, idx in zip("ABJC", perm):
        Y[idx] = [float(x) for x in roles[role]]
    extra = [np.array([3.0, -1.0]), np.array([-2.0, 5.0])]
    for i in range(K):
        if Y[i] is None:
            Y[i] = [float(x) for x in extra.pop(0)]
    return {"kind": "run", "alg": "Auer", "cone": "orthant2", "shape": "auer-id-vs-position", "empirical": False,
            "Y": Y, "eps": eps, "delta": 0.1, "noise_var": 0.01, "conf": 32, "rounds": 600,
            "adv": {"mode": "centered", "frac": 0.5, "sd0": [[1.0, 1.0]] * K, "shrink": [0.5] * K, "seed": 1}}


def family(ctx, name, nfixed, nthorough, make):
    """Structured family: the first `nfixed` cases come from an RNG sub-stream that depends on the family name
    only — the same cases in every run, whatever VERIF_SEED (worker 0) — the thorough tier adds `nthorough` more
    from the seeded stream.  `make(rng, k)` returns a case or None."""
    import random

    if ctx.worker == 0:
        fixed = random.Random(f"{ctx.prop}/{name}")
        for k in range(nfixed):
            c = make(fixed, k)
            if c is not None:
                yield c
    if ctx.tier == "thorough":
        for k in range(ctx.n(nthorough, nthorough)):
            c = make(ctx.rng, nfixed + k)
            if c is not None:
                yield c


def offset_member(tier):
    def make(rng, k):
        alg = (RECT_ALGS + RECT_ALGS + ("PaVeBaGP-DE", "PaVeBaPartialGP-ell"))[k % 6]
        if k % 3 == 2 and alg in RECT_ALGS:
            base = corner_case(rng, alg)
        else:
            base = gen_case(rng, tier, alg, rng.choice(["eps-boundary", "ties", "front", "chain", "near-incomparable"]))
            base["batch"] = 1
        return None if base is None else with_offset(rng, base)
    return make


def gen(ctx):
    rng = ctx.rng
    # the hand-built histories d6_case(0/1), auer_minwidth_case(), auer_position_case() live in corpus/C01/
    # structured families (fixed sub-streams: identical in every quick run)
    yield from family(ctx, "auer-offsets", 30, 700, lambda r, k: gen_auer_offsets(r, ctx.tier))
    # over-optimistic region domination on acute cones (rectangular variants)
    yield from family(ctx, "acute-corner", 8, 160, lambda r, k: corner_case(r, RECT_ALGS[k % 2]))
    # strongly correlated anisotropic ellipsoids (PaVeBaGP-DE)
    yield from family(ctx, "ell-correlated", 10, 120, lambda r, k: ell_corr_case(r))
    # heteroscedastic uncorrelated ellipsoids (PaVeBaGP-DE, PaVeBaPartialGP-ell): the violated facet is not the one
    # with the smallest centre margin
    yield from family(ctx, "ell-anisotropic", 10, 120, lambda r, k: ell_corr_case(
        r, alg=("PaVeBaGP-DE", "PaVeBaPartialGP-ell")[k % 2], diagonal=True))
    # large common offset (translation invariance), 2^12 … 2^20
    yield from family(ctx, "offset", 12, 240, offset_member(ctx.tier))
    # Auer with empirical β and noise variance > 1: truths at the worst corners of the displayed boxes
    yield from family(ctx, "auer-two-phase", 8, 160, lambda r, k: auer_two_phase_case(r))
    # PaVeBa on cones whose rows are not unit vectors (α must scale with the rows)
    yield from family(ctx, "window-small-rows", 3, 60, lambda r, k: paveba_window_case(r, ctx.tier, small_rows=True))
    # the order built from a caller-owned array that is rescaled / overwritten afterwards
    yield from family(ctx, "alias", 12, 120, alias_case)
    # Auer: an early elimination shifts positions in S against design ids (all K = 4 layouts, some K = 5, 6)
    yield from family(ctx, "auer-id-vs-position", 30, 120, auer_id_position_case)
    # PaVeBa windows in which U matters
    yield from family(ctx, "window", 6, 0, lambda r, k: paveba_window_case(r, ctx.tier))
    # structured sweep: every algorithm × a few shapes
    total = ctx.n(64, 1200)
    k = 0
    shapes = ["ties", "front", "eps-boundary", "chain", "near-incomparable", "random"]
    for alg in ALL_ALGS:
        for si, shape in enumerate(shapes[: (3 if ctx.tier == "quick" else 6)]):
            if k >= total:
                return
            if (k % ctx.nworkers) == ctx.worker or ctx.tier == "quick":
                case = gen_case(rng, ctx.tier, alg, shape)
                if alg == "Auer":
                    # uniform widths (exact-rule replay applies) on even shapes, empirical β on odd ones
                    case["empirical"] = bool(si % 2)
                    if case["adv"]["mode"] == "noise":
                        case["adv"]["mode"] = "centered"
                yield case
            k += 1
    while k < total:
        if rng.random() < 0.2:
            yield paveba_window_case(rng, ctx.tier)
        else:
            yield gen_case(rng, ctx.tier)
        k += 1


# --------------------------------------------------------------------------------------------
# large common offset: the property is invariant under translations of the objective space
# --------------------------------------------------------------------------------------------
OFFSET_EXPONENTS = [12, 13, 14, 16, 17, 18, 20]


def with_offset(rng, case):
    """the same case with every true mean (hence every scripted posterior, which is `truth + …`) translated by
    a common dyadic offset of magnitude 2^12 … 2^20 per objective; gaps, widths and ε stay O(1e-3 … 1)"""
    m = len(case["Y"][0])
    k = rng.choice(OFFSET_EXPONENTS)
    off = [float(2 ** k) * rng.choice([1.0, 1.0, -1.0, 1.5, 0.75]) for _ in range(m)]
    c = dict(case)
    c["offset"] = off
    c["Y"] = [[float(y + o) for y, o in zip(row, off)] for row in case["Y"]]
    c["shape"] = case.get("shape", "?") + "+offset"
    return c


def untranslated(case):
    c = {k: v for k, v in case.items() if k != "offset"}
    c["Y"] = [[float(y - o) for y, o in zip(row, case["offset"])] for row in case["Y"]]
    return c


def translation_twin_check(ctx, case, cap, traj, res):
    """(F), metamorphic: for a scripted history the run translated by `case["offset"]` must go through the same
    (S, P, U) trajectory as the untranslated run."""
    if "offset" not in case or case["adv"]["mode"] == "noise" or res["status"] != "terminated":
        return
    twin_traj = []
    twin = run_history(ctx, untranslated(case), cap,
                       on_round=lambda alg, adv, before, active, t: twin_traj.append(
                           (sorted(alg.S), sorted(alg.P), sorted(getattr(alg, "U", [])))))
    if twin["status"] != "terminated":
        ctx.count("translation_twin_" + twin["status"].split(":")[0])
        return
    ctx.count("translation_twins_compared")
    if twin_traj != traj:
        k = next((i for i, (a, b) in enumerate(zip(traj, twin_traj)) if a != b), min(len(traj), len(twin_traj)))
        ctx.violation(f"translation-variant:{case['alg']}", f"{case['alg']}: the same scripted history translated by a "
                      f"common offset {case['offset']} goes through a different (S, P, U) trajectory (first difference "
                      f"after round {k + 1}); the property and the decision rules are translation invariant", case,
                      kind="F", detail={"translated": traj[: k + 2], "untranslated": twin_traj[: k + 2]})


# --------------------------------------------------------------------------------------------
# two-phase histories: observations first, truths placed in the displayed regions afterwards
# --------------------------------------------------------------------------------------------
def resolve_two_phase(case, cap):
    """`mode = "absobs"`: the observation table is fixed and Auer's decisions depend on it alone.  Phase 1 runs the
    real algorithm on it and records every displayed box; the true mean of design i is then placed INSIDE the
    intersection of its displayed boxes, at the corner `adv["corner"][i]` ("up" / "lo" / "mid", pulled inwards by
    2^-10 of the box) — the worst case the premise allows.  Returns the case with "Y" filled in, or None when the
    run does not terminate / some intersection is empty.  Pure function of the case."""
    obs = case["adv"]["obs"]
    n, m = len(obs), len(obs[0][0])
    probe = dict(case, Y=[[0.0] * m for _ in range(n)])
    try:
        alg, _ = build_algorithm(probe)
    except Exception:
        return None
    lo = np.full((n, m), -np.inf)
    hi = np.full((n, m), np.inf)
    for _ in range(cap):
        if len(alg.S) == 0:
            break
        active = sorted(alg.S)
        try:
            alg.run_one_step()
        except Exception:
            return None
        for i in active:
            r = alg.design_space.confidence_regions[i]
            lo[i] = np.maximum(lo[i], np.asarray(r.lower, dtype=float))
            hi[i] = np.minimum(hi[i], np.asarray(r.upper, dtype=float))
    if len(alg.S) != 0 or np.any(lo > hi) or not np.all(np.isfinite(lo)) or not np.all(np.isfinite(hi)):
        return None
    Y = []
    for i in range(n):
        c = case["adv"]["corner"][i]
        pad = (hi[i] - lo[i]) * 2.0 ** -10
        Y.append([float(x) for x in ({"up": hi[i] - pad, "lo": lo[i] + pad}.get(c, (lo[i] + hi[i]) / 2))])
    return dict(case, Y=Y)


def auer_beta1(K, m, delta, noise_var, conf):
    """round-1 width of Auer with empirical β (placing observations only; the verdict never uses it)"""
    t1 = math.log(K * m / delta)
    return math.sqrt(2 * t1 * (noise_var + math.sqrt(4 * t1))) / conf


def auer_two_phase_case(rng):
    """Auer(use_empirical_beta=True) with noise variance well above 1 and a scripted observation table: a chain
    of designs whose observed means are 2.2–3 round-1 widths apart (so the lower one is eliminated at once) plus
    an incomparable bystander; truths go to the worst corners of the displayed boxes (lower design: upper corner,
    upper design: lower corner)."""
    m = 2
    n = rng.randint(3, 4)
    noise_var = rng.choice([4.0, 9.0, 6.25])
    conf = rng.choice([32, 16, 8])
    delta = rng.choice([0.05, 0.1])
    b1 = auer_beta1(n, m, delta, noise_var, conf)
    base = np.array([rng.randint(-4, 4) * 0.25 for _ in range(m)])
    obs, corner, cur = [], [], base
    chain = n - 1
    for k in range(chain):
        amp = rng.choice([0.0, 0.0, 1.5, 3.0])
        seq = [[float(x) for x in cur + amp * (1 if j % 2 else -1) * np.array([1.0, -1.0 if rng.random() < 0.5 else 1.0])]
               for j in range(6)] if amp else [[float(x) for x in cur]]
        if amp:
            seq[0] = [float(x) for x in cur]
        obs.append(seq)
        corner.append("up" if k < chain - 1 else "lo")
        cur = cur + rng.choice([2.2, 2.5, 3.0]) * b1 * np.ones(m)
    obs.append([[float(base[0] - 50.0), float(base[1] + 50.0)]])
    corner.append("mid")
    return {"kind": "run", "alg": "Auer", "cone": "orthant2", "shape": "auer-two-phase", "empirical": True,
            "eps": rng.choice([0.1, 0.05, 0.25]), "delta": delta, "noise_var": noise_var, "conf": conf,
            "adv": {"mode": "absobs", "frac": 1.0, "sd0": [[1.0] * m] * n, "shrink": [0.5] * n,
                    "seed": rng.randrange(1 << 30), "obs": obs, "corner": corner}}


# --------------------------------------------------------------------------------------------
# run_case
# --------------------------------------------------------------------------------------------
def run_case(ctx, case):
    if case["adv"]["mode"] == "absobs" and "Y" not in case:
        resolved = resolve_two_phase(case, case.get("rounds", ROUND_CAP.get(ctx.tier, 40)))
        if resolved is None:
            ctx.count("two_phase_unresolved")
            ctx.case_done(case, False)
            return
        case = resolved
    name = case["alg"]
    ctx.count("alg_" + name)
    ctx.count("shape_" + case.get("shape", "?"))
    ctx.count("mode_" + case["adv"]["mode"])
    ctx.count("cone_" + case.get("cone", "orthant"))
    W = cone_W(case)
    Y = np.array(case["Y"], dtype=float)
    n, m = Y.shape
    cap = case.get("rounds", ROUND_CAP.get(ctx.tier, 40))
    fstate = {"compared": 0, "skipped": 0}

    core_rec = c01_core.recorder(case)    # INTEGRATION: the whole run through Model/Core.lean (c01_core.py)

    traj = []

    def on_round(alg, adv, before, active, t):
        traj.append((sorted(alg.S), sorted(alg.P), sorted(getattr(alg, "U", []))))
        decided_round(ctx, case, alg, adv, before, t, fstate)
        if core_rec is not None:
            core_rec.on_round(alg, adv, before, active, t)

    res = run_history(ctx, case, cap, on_round=on_round)
    if core_rec is not None and not res["status"].startswith("crash"):
        core_rec.finish(ctx, case, res)
    translation_twin_check(ctx, case, cap, traj, res)
    st = res["status"]
    ctx.count("status_" + st.split(":")[0] + (":" + st.split(":", 1)[1] if st.startswith("skipped") else ""))
    ctx.count("rounds_total", res.get("rounds", 0))
    canon = [name, case.get("cone"), case["Y"], case["eps"], case["delta"], case["conf"], case["adv"],
             case.get("batch"), case.get("empirical")]
    if st.startswith("crash"):
        ctx.violation(f"crash:{name}:{st.split(':', 1)[1]}", f"{name} raised during a run: {res.get('error')}", case,
                      kind="R", detail={"round": res.get("rounds")})
        ctx.case_done(case, False, canon=canon)
        return
    if st != "terminated":
        if st == "premise_failed":
            ctx.count("premise_failed_" + name)
        ctx.case_done(case, False, canon=canon)
        return
    alg = res["alg"]
    P = sorted(int(i) for i in alg.P)
    if "alias" in case:
        # the order is judged as the object it is NOW: cone geometry from the W it holds at judgement time
        W = [[float(x) for x in r] for r in np.asarray(alg.order.ordering_cone.W, dtype=float)]
        if getattr(alg, "verif_alias_shared", None):
            ctx.violation("order-aliases-caller-array", f"{name}: OrderingCone keeps the caller's float64 array instead "
                          "of a copy (np.shares_memory(order.ordering_cone.W, W0) is True): rescaling the caller's buffer "
                          "after construction changes cone.W under the order while cone.alpha stays as computed", case,
                          kind="R", detail={"mutation": case["alias"]["mutation"]})
    if name == "Auer":
        alpha = np.ones(m)
    else:
        alpha = alpha_of(W)     # independent of vopy.utils.get_alpha (the algorithm's own α is only compared)
        own = np.asarray(alg.cone_alpha, dtype=float).reshape(-1)
        if own.shape != alpha.shape or not np.allclose(own, alpha, rtol=1e-5, atol=1e-8):
            ctx.count("alg_alpha_differs_from_independent_alpha_info")
    eps_l = float(alg.epsilon) * (1 + 2.0 ** -20)
    ans = ctx.ask("final", core.qmat(W), core.qvec(alpha), core.q(eps_l), core.qmat(Y), core.nats(P))
    parts = ans.split(" ")
    if len(parts) != 4 or parts[0] not in "01" or parts[1] not in "01":
        raise RuntimeError(f"driver answered {ans!r} to final")
    okA, okB = parts[0] == "1", parts[1] == "1"
    detail = {"P": P, "rounds": res["rounds"], "witness_a": parts[2], "witness_b": parts[3],
              "alpha": [float(a) for a in alpha]}
    if name == "Auer":
        ctx.count("auer_theorem_premise_%s" % ("held" if res.get("flags", {}).get("strong_premise") else "failed"))
    if not okA:
        ctx.violation(f"acc-a:{name}", f"{name}: premise held in every round, the run terminated, but design "
                      f"{parts[2]} is outside P and no member of P weakly dominates it", case, kind="R", detail=detail)
    if not okB:
        key = f"acc-b:{name}"
        what = (f"{name}: premise held in every round, the run terminated, but P contains a design with gap > ε "
                f"(pair i,j = {parts[3]})")
        if name == "Auer":
            fl = {k: v for k, v in res.get("flags", {}).items() if not k.startswith("_")}
            detail["flags"] = fl
            if fl.get("strong_premise"):
                key = "acc-b:Auer:theorem-premise-held"
                what = ("Auer: even the premise of the Lean theorem auer_final_accurate (‖c−μ‖∞ ≤ min_d β_d, β > 0) held "
                        f"in every round, yet P contains a design with gap > ε (pair i,j = {parts[3]}): the implementation "
                        "does not follow the m/M rule with widths looked up by design")
            elif fl.get("positional_shift") and not fl.get("nonuniform_across_objectives"):
                key = "auer-widths-by-position"
                what = ("Auer (use_empirical_beta): pareto_updating() reads beta_t by position in the set S that "
                        "discarding() has just shrunk, so designs are paired with other designs' widths; the truth stayed "
                        f"inside every displayed box, yet P contains a design with gap > ε (pair i,j = {parts[3]})")
            elif fl.get("nonuniform_across_objectives") and not fl.get("positional_shift"):
                key = "auer-scalar-M-vs-smallest-width"
                what = ("Auer (use_empirical_beta): `np.all(big_m(i,j) < beta_i + beta_j)` compares the scalar M(i,j) with "
                        "every per-objective width sum, i.e. with the smallest one; the truth stayed inside every displayed "
                        f"box, yet P contains a design with gap > ε (pair i,j = {parts[3]})")
        if name in RECT_ALGS:
            # classify: does the conclusion hold in the units the code used (t = W·(εα))?
            s = np.asarray(alg.cone_alpha_eps, dtype=float).reshape(-1)
            if len(s) == m:
                t = np.array(W, dtype=float) @ s
                inT = ctx.ask("finalT", core.qmat(W), core.qvec(t), core.qmat(Y), core.nats(P))
                side = ctx.ask("side", core.qmat(W), core.qvec(s), core.qvec(s * (1 + 2.0 ** -20)))
                detail.update({"holds_in_code_units": inT, "side_condition_W_epsalpha_le_epsalpha": side})
                if inT == "1" and side == "0":
                    key = "rect-slack-objective-space-units"
                    what = (f"{name}: hands the per-facet vector ε·α to the rectangular is_covered, which reads it as a "
                            f"shift in objective space; for this cone W·(εα) > εα, and P contains a design with gap > ε "
                            f"(pair i,j = {parts[3]}) although the truth stayed inside every displayed box")
        ctx.violation(key, what, case, kind="R", detail=detail)
    # non-triviality
    gaps = [gap(W, alpha, Y[i], Y[j]) for i in range(n) for j in range(n) if i != j]
    near = any(0.5 * case["eps"] <= g <= 2 * case["eps"] for g in gaps)
    nontrivial = (0 < len(P) < n) or near
    ctx.count("terminated_P%s" % ("all" if len(P) == n else "some"))
    ctx.count("F_rounds_compared", fstate["compared"])
    ctx.count("F_rounds_undetermined", fstate["skipped"])
    ctx.case_done(case, nontrivial, canon=canon)


def decided_round(ctx, case, alg, adv, before, t, fstate):
    """(F): replay the round in Lean with the geometry answers the truth determines, if all are determined"""
    if fstate.get("mismatch"):
        return  # the trajectories have already diverged
    name = case["alg"]
    n = adv.n
    W = cone_W(case)
    if name == "Auer":
        return auer_round(ctx, case, alg, before, t, fstate)
    if not hasattr(alg, "U"):
        return
    m = adv.m
    s = np.asarray(alg.cone_alpha_eps, dtype=float).reshape(-1)
    if name in RECT_ALGS:
        if len(s) != m:
            return
        thr = np.array(W, dtype=float) @ s          # the code's own units (objective-space slack)
    else:
        thr = s
    alive = sorted(set(before["S"]) | set(before["P"]))
    dom, cov = decided_tables(alg, W, thr, adv.Y, alive)
    Sb, Ub = set(before["S"]), set(before["U"])
    for i in range(n):
        for j in range(n):
            if i not in Sb or j not in (Sb | Ub):
                dom[i][j] = False          # never consulted by the round
            if i not in Sb:
                cov[i][j] = False
    db, cb = bits3(dom, alive), bits3(cov, alive)
    ans = determined_answer(lambda d_, c_: ctx.ask("pround", str(n), d_, c_, core.nats(before["S"]),
                                                   core.nats(before["P"]), core.nats(before["U"])), [db, cb])
    if ans is None:
        fstate["skipped"] += 1
        return
    got = ";".join([core.nats(sorted(alg.S)), core.nats(sorted(alg.P)), core.nats(sorted(alg.U))])
    fstate["compared"] += 1
    if ans != got:
        fstate["mismatch"] = True
        ctx.violation(f"round-decided:{name}", f"{name}: in a round whose geometry answers are determined by the true "
                      f"means (regions tiny) the sets after run_one_step() differ from the model round", case, kind="F",
                      detail={"round": t, "before": before, "impl": got, "model": ans, "dom": db, "cov": cb})


def auer_round(ctx, case, alg, before, t, fstate):
    if case.get("empirical"):
        return  # widths differ per design: positional lookup (D2) is C03's subject
    regs = alg.design_space.confidence_regions
    n = len(regs)
    S0 = before["S"]
    cen = [np.asarray(regs[i].center, dtype=float) if i in S0 else np.zeros(alg.m) for i in range(n)]
    wid = [(np.asarray(regs[i].upper, dtype=float) - np.asarray(regs[i].lower, dtype=float)) / 2 if i in S0
           else np.ones(alg.m) for i in range(n)]
    outs = set()
    for f in (1 - 1e-9, 1.0, 1 + 1e-9):
        outs.add(ctx.ask("around", core.q(float(alg.epsilon) * f), core.qmat(cen),
                         core.qmat([w * f for w in wid]), core.nats(S0), core.nats(before["P"])))
    if len(outs) != 1:
        fstate["skipped"] += 1
        return
    got = ";".join([core.nats(sorted(alg.S)), core.nats(sorted(alg.P))])
    fstate["compared"] += 1
    ans = outs.pop()
    if ans != got:
        fstate["mismatch"] = True
        ctx.violation("round-exact:Auer", "Auer (uniform widths): the sets after run_one_step() differ from the exact "
                      "m/M rule evaluated on the displayed centres and widths", case, kind="F",
                      detail={"round": t, "before": before, "impl": got, "model": ans})
