"""C06 — runs are monotone, terminate cleanly, never crash and account for every sample.

All nine REAL algorithm classes are driven through `run_one_step()` (constructed by
`harness.stubs.build`); after every call the real attributes (S, P, U, round, sample_count,
total_cost, latch, point_depths), the returned flag and the evaluations recorded by a proxy on
`algorithm.problem` are

* (R) fed to the Lean relation `Run.specOk` together with the attributes before the call
  (`C06 spec …`): candidate set only shrinks, P only grows (VOGP_AD: modulo children of the refined
  node), S ∩ P = ∅, U ⊆ P, round/sample/cost accounting per call, returned flag ⇔ termination
  test, finished ⇒ nothing changes and nothing is requested; plus whole-run checks in Python
  (a design that left S never returns, sample_count / total_cost equal the recorded totals);
* (F) compared with the trajectory of the Lean state machine `Run.step` replayed on the recorded
  environment of every round (`C06 run …`): oracle answers, acquisition picks, Auer's centres and
  per-design width rows, VOGP_AD's refinement test; the number of evaluations of a call must equal the
  model's `cap` = `batch_size` clamped to what the active set offers (`min(batch, |active|)`,
  decoupled: `min(batch, m·|active|)`).

Stream A ("table"): the three geometry predicates are replaced in the algorithm module by
per-round Boolean tables (`stubs.TableOracle`, slack and argument order checked).  Stream B
("real"): real geometry (cvxpy / vertex tests) on `ScriptedModel` posteriors that shrink with
every `update()`, real `EmpiricalMeanVarModel` (PaVeBa, Auer), real fixed-hyper-parameter GPs; the
answers the algorithm received are recorded and handed to the model.

A third family ("scaled") registers its datasets through the REAL `Dataset.__init__` (min-max scaling of
the inputs, standardisation of the outputs — the synthetic datasets of the other families bypass it) with
awkward-but-ordinary shapes: a constant input feature, a single design, duplicate designs, integer data, a
constant objective, two almost identical designs.

Every Python exception in a constructor or in `run_one_step()` is an (R) violation
`crash:<ExcType>@<file>:<func>:<alg>[:constructor]`; two crashes suspected in DESIGN §5 have their own
keys: `crash:batch-exceeds-active` (D7, repaired in /repo: regression key) and
`crash:rect-slack-length-N-ne-m` (D6).  A call that does not return within `STEP_SECONDS` is `hang:<alg>`.
"""
from __future__ import annotations

import contextlib
import hashlib
import signal
import traceback
from fractions import Fraction

import numpy as np

from harness import core, stubs
from harness.cones import EXACT_CONES, real_order

TITLE = "whole runs of all nine algorithms vs the Lean run state machine"
RULE = ("case = (algorithm class, cone/order incl. N>m facets and the bundled orders, K ≤ 8 designs, batch size "
        "1…4 or larger than the active set, costs/budget, oracle stream: per-round Boolean tables drawn from "
        "density profiles, or real geometry on shrinking scripted / empirical / fixed-GP posteriors); every "
        "prefix of the run is compared. non-trivial = at least two active calls and (the run finished and was "
        "stepped 2–3 times more, or a crash was reported); distinct by the case dict")
ASSUMPTIONS = [
    "oracle Booleans stand for the geometry predicates (C09/C10/C11 tie them to the regions); in stream B they "
    "are the answers the algorithm itself received from the real predicates",
    "VOGP_AD is run with batch_size 1 (its constructor rejects every other value)",
    "Auer's inline comparisons are replayed exactly on the exported floats; rounds whose margin is below 1e-9 are "
    "counted as borderline and the rest of that run is checked with relation (R) only",
]
MAX_JOBS = 14

CAP = 12  # active calls per run
STEP_SECONDS = 240  # wall-clock budget of one constructor / run_one_step() call (unchanged tree: well below 1 s)


class StepTimeout(Exception):
    pass


class BadAttribute(Exception):
    """an attribute the property speaks about cannot be read as a finite number (e.g. total_cost = nan)"""


@contextlib.contextmanager
def time_limit(seconds):
    """SIGALRM-based budget for one call (main thread only; a no-op elsewhere): a call that does not
    return is a recorded disagreement, not a hang of the check."""
    def handler(signum, frame):
        raise StepTimeout(f"call exceeded {seconds} s")

    try:
        old = signal.signal(signal.SIGALRM, handler)
    except ValueError:  # not in the main thread
        yield
        return
    signal.alarm(int(seconds))
    try:
        yield
    finally:
        signal.alarm(0)
        signal.signal(signal.SIGALRM, old)
ALG_TAG = {"PaVeBa": "paveba", "PaVeBaGP-IH": "pavebagp", "PaVeBaGP-DE": "pavebagp",
           "PaVeBaPartialGP-rect": "pavebapartial", "PaVeBaPartialGP-ell": "pavebapartial", "VOGP": "vogp",
           "EpsilonPAL": "epal", "VOGP_AD": "vogpad", "Auer": "auer", "NaiveElimination": "naive",
           "DecoupledGP": "decoupled"}
TABLE_ALGS = list(stubs.PAVEBA_FAMILY) + list(stubs.PESSIMISTIC_FAMILY)
BATCHED = ("PaVeBaGP-IH", "PaVeBaGP-DE", "PaVeBaPartialGP-rect", "PaVeBaPartialGP-ell", "VOGP", "EpsilonPAL",
           "DecoupledGP")
DECOUPLED = ("PaVeBaPartialGP-rect", "PaVeBaPartialGP-ell", "DecoupledGP")
EVAL_ALL = ("PaVeBa", "Auer", "NaiveElimination")
CONES_2D = ["orthant2", "acute2", "obtuse2", "skew2", "redundant2", "threefacet2"]
CONES_3D = ["orthant3", "acute3", "obtuse3", "fourfacet3", "pyramid3"]
BUNDLED = [["theta2", 45], ["theta2", 90], ["theta2", 120], ["cone3d", "acute"], ["cone3d", "right"],
           ["cone3d", "obtuse"], ["icecream", 90, 4], ["icecream", 60, 6]]


# --------------------------------------------------------------------------------------------
# construction
# --------------------------------------------------------------------------------------------
_order_cache: dict = {}


def make_order(spec):
    """order spec: name in EXACT_CONES, or ["theta2", deg] / ["cone3d", type] / ["icecream", deg, k]"""
    key = repr(spec)
    if key in _order_cache:
        return _order_cache[key]
    if isinstance(spec, str):
        o = real_order(EXACT_CONES[spec][0])
    else:
        from vopy import order as O

        if spec[0] == "theta2":
            o = O.ConeTheta2DOrder(spec[1])
        elif spec[0] == "cone3d":
            o = O.ConeOrder3D(spec[1])
        elif spec[0] == "icecream":
            o = O.ConeOrder3DIceCream(spec[1], spec[2])
        elif spec[0] == "comp":
            o = O.ComponentwiseOrder(spec[1])
        else:
            raise ValueError(f"unknown order spec {spec!r}")
    _order_cache[key] = o
    return o


def order_dim(spec) -> int:
    if isinstance(spec, str):
        return len(EXACT_CONES[spec][0][0])
    return {"theta2": 2, "cone3d": 3, "icecream": 3}.get(spec[0], spec[1] if spec[0] == "comp" else 2)


def design_inputs(n):
    return np.array([[i / 8.0, ((i * 5) % 8) / 8.0] for i in range(max(n, 1))])


def shrinking_script(Y, var0, shrink, steps):
    """posterior tables installed by successive `update()` calls: fixed means, shrinking variances"""
    Y = np.array(Y, dtype=float)
    return [(Y, np.full(Y.shape, var0 * shrink ** k)) for k in range(1, steps + 1)]


_scaled_counter = [0]


def register_scaled_dataset(X_raw, Y_raw):
    """A dataset class that goes through the REAL `Dataset.__init__` (min-max scaling of the inputs,
    standardisation of the outputs) exactly like the bundled ones: the subclass sets `in_data` /
    `out_data` and calls `super().__init__()`.  Registered by name in `vopy.datasets.dataset`;
    removed again with `stubs.unregister_dataset`."""
    import vopy.datasets.dataset as D

    _scaled_counter[0] += 1
    name = f"VerifScaled{_scaled_counter[0]}"
    X_raw, Y_raw = np.array(X_raw), np.array(Y_raw)

    def __init__(self):
        self.in_data = X_raw.copy()
        self.out_data = Y_raw.copy()
        D.Dataset.__init__(self)

    cls = type(name, (D.Dataset,), {"__init__": __init__, "_in_dim": X_raw.shape[1], "_out_dim": Y_raw.shape[1],
                                    "_cardinality": len(X_raw), "_verif_synthetic": True,
                                    "__doc__": "synthetic verification dataset (real scaling path)"})
    D.__dict__[name] = cls
    return name, cls


def construct_scaled(case, name, kw, order, eps, delta, nv):
    """algorithm on a dataset built by the real `Dataset` constructor; `alg._c06_X` = the scaled inputs"""
    dt = int if case.get("int_dtype") else float
    dsname, cls = register_scaled_dataset(np.array(case["X_raw"], dtype=dt), np.array(case["Y_raw"], dtype=dt))
    try:
        inst = cls()
        X, Y = np.array(inst.in_data, dtype=float), np.array(inst.out_data, dtype=float)
        mk = case.get("model", "scripted")
        args = dict(dataset_name=dsname, epsilon=eps, delta=delta, noise_var=nv, **kw)
        if name not in ("PaVeBa", "Auer", "NaiveElimination"):
            if mk == "fixed":
                args["model"] = "fixed"
            else:
                mcls = stubs.ScriptedModelList if name in DECOUPLED else stubs.ScriptedModel
                v0, sh = case.get("var0", 0.25), case.get("shrink", 0.5)
                args["model"] = mcls(X, Y, np.full(Y.shape, v0), script=shrinking_script(Y, v0, sh, 4 * CAP),
                                     seed=case.get("seed", 0))
        if order is not None:
            args["order"] = order
        if name == "DecoupledGP":
            args["out_data"] = Y  # only read for the objective count of the default costs
        a = stubs.build(name, **args)
        a._c06_X = X
        return a
    finally:
        stubs.unregister_dataset(dsname)


def construct(case):
    """real algorithm object through the real constructor (may raise: caller reports the crash)"""
    name = case["alg"]
    eps, delta, nv = case.get("eps", 0.25), case.get("delta", 0.05), case.get("noise_var", 0.015625)
    kw = {}
    if name in BATCHED:
        kw["batch_size"] = case.get("batch", 1)
    if name.startswith("PaVeBaPartialGP"):
        if case.get("costs") is not None:
            kw["costs"] = list(case["costs"])
        if case.get("budget") is not None:
            kw["cost_budget"] = case["budget"]
    if name == "DecoupledGP":
        kw["costs"] = list(case["costs"])
        kw["cost_budget"] = case["budget"]
    if name == "Auer":
        kw["use_empirical_beta"] = bool(case.get("empirical_beta", False))
    if name == "NaiveElimination":
        kw["L"] = case.get("L")
    if "conf_contraction" in case and name not in ("NaiveElimination", "DecoupledGP"):
        kw["conf_contraction"] = case["conf_contraction"]
    order = None if name in ("EpsilonPAL", "Auer") else make_order(case["cone"])
    m = case["m"]
    if name == "VOGP_AD":
        coef = np.array(case.get("coef", [[1.0] * m]), dtype=float)  # in_dim × m

        def fn(x, coef=coef):
            return np.asarray(x, dtype=float) @ coef

        in_dim = coef.shape[0]
        pr = stubs.SyntheticContinuousProblem(fn, in_dim, m, nv, depth_max=case.get("depth_max", 3))
        if case.get("model", "scripted") == "fixed":
            mdl = "fixed"
        else:
            holder = {}
            v0, sh = case.get("var0", 0.25), case.get("shrink", 0.5)

            hi_above = case.get("var_hi_above")

            def fallback(x, holder=holder):
                k = holder["m"].update_calls if "m" in holder else 0
                v = v0 * sh ** k
                if hi_above is not None and float(np.asarray(x).reshape(-1)[0]) > hi_above:
                    v = v * 64.0
                return fn(np.asarray(x, dtype=float)[None, :])[0], np.full(m, v)

            mdl = stubs.ScriptedModel(np.zeros((0, in_dim)), np.zeros((0, m)), np.zeros((0, m, m)),
                                      fallback=fallback, lengthscales=[case.get("ls", 0.5)] * m)
            holder["m"] = mdl
        a = stubs.build(name, problem=pr, order=order, epsilon=eps, delta=delta, noise_var=nv, model=mdl, **kw)
        force = case.get("force")
        if force:  # hand-made reachable-by-assignment state (regression shapes the real runs never reach)
            for i in force["refine"]:
                a.design_space.refine_design(i)
            a.S, a.P = set(force["S"]), set(force["P"])
            a.enable_epsilon_covering = bool(force.get("latch", False))
        return a
    if case.get("dataset") == "scaled":
        return construct_scaled(case, name, kw, order, eps, delta, nv)
    n = case["K"]
    X, Y = design_inputs(n)[:n], np.array(case["Y"], dtype=float)
    mk = case.get("model", "scripted")
    if name in ("PaVeBa", "Auer", "NaiveElimination"):
        mdl = None
    elif mk == "fixed":
        mdl = "fixed"
    else:
        cls = stubs.ScriptedModelList if name in DECOUPLED else stubs.ScriptedModel
        v0, sh = case.get("var0", 0.25), case.get("shrink", 0.5)
        mdl = cls(X, Y, np.full(Y.shape, v0), script=shrinking_script(Y, v0, sh, 4 * CAP), seed=case.get("seed", 0))
    args = dict(in_data=X, out_data=Y, epsilon=eps, delta=delta, noise_var=nv, **kw)
    if mdl is not None:
        args["model"] = mdl
    if order is not None:
        args["order"] = order
    return stubs.build(name, **args)


# --------------------------------------------------------------------------------------------
# observation of the real object
# --------------------------------------------------------------------------------------------
def sset(s):
    return sorted(int(i) for i in s)


def snapshot(alg, name):
    has_S = name not in ("NaiveElimination", "DecoupledGP")
    if hasattr(alg, "total_cost"):
        tc = alg.total_cost
        if not np.isfinite(float(tc)):
            raise BadAttribute(f"total_cost is {float(tc)!r}")
    snap = {
        "S": sset(alg.S) if has_S else [],
        "P": sset(alg.P) if name != "NaiveElimination" else [],
        "U": sset(alg.U) if hasattr(alg, "U") else [],
        "round": int(alg.round),
        "sc": int(alg.sample_count),
        "cost": core.frac(alg.total_cost) if hasattr(alg, "total_cost") else Fraction(0),
        "latch": bool(getattr(alg, "enable_epsilon_covering", False)),
        "depths": [int(d) for d in alg.design_space.point_depths] if name == "VOGP_AD" else [],
    }
    return snap


def state_str(s, parent):
    return ":".join([core.nats(s["S"]), core.nats(s["P"]), core.nats(s["U"]), str(s["round"]), str(s["sc"]),
                     core.q(s["cost"]), "1" if s["latch"] else "0", core.nats(s["depths"]), core.nats(parent)])


def req_str(reqs):
    return ",".join(f"{d}" if o is None else f"{d}.{o}" for d, o in reqs) if reqs else "_"


def out_str(done, reqs, refined):
    return ":".join(["1" if done else "0", req_str(reqs), "-" if refined is None else str(refined), "0"])


def cfg_str(case, alg):
    """configuration of the model, read from the CASE (what was handed to the constructor), not from the
    attributes the constructor derived from it — so that a constructor that mangles a parameter
    (`cost_budget or np.inf`, a clamped batch size, …) disagrees with the model instead of configuring it.
    Only NaiveElimination's default `L` (formula of C08) is read from the object."""
    name = case["alg"]
    K = 0 if name == "VOGP_AD" else case["K"]
    batch = int(case.get("batch", 1)) if name in BATCHED else 1
    costs = case.get("costs") if name in DECOUPLED else None
    budget = case.get("budget") if name in DECOUPLED else None
    if name == "NaiveElimination":
        L = int(case["L"]) if case.get("L") is not None else int(alg.L)
    else:
        L = 0
    eps = core.q(float(case.get("eps", 0.25))) if name == "Auer" else "0"
    md = int(case.get("depth_max", 3)) if name == "VOGP_AD" else 0
    br = 2 ** len(case.get("coef", [[0]])) if name == "VOGP_AD" else 0
    return ":".join([
        ALG_TAG[name], str(K), str(case["m"]), str(batch),
        "none" if costs is None else core.qvec([float(x) for x in costs]),
        "inf" if budget is None else core.q(float(budget)),
        str(L), eps, str(md), str(br)])


class RecOracle:
    """Real predicates, recorded: (kind, i, j) -> answer.  Installed with `stubs.patch_geometry`."""

    def __init__(self, alg):
        self.index = stubs.RegionIndex(alg.design_space)
        self.real = stubs.real_geometry()
        self.ans = {}

    def _ij(self, r1, r2):
        i, j = self.index.of(r1), self.index.of(r2)
        if i < 0 or j < 0:
            raise AssertionError("geometry predicate called with an unknown region object")
        return i, j

    def is_dominated(self, order, r1, r2, slack):
        i, j = self._ij(r1, r2)
        a = bool(self.real[0](order, r1, r2, slack))
        self.ans[("dom", i, j)] = a
        return a

    def is_covered(self, order, r1, r2, slack):
        i, j = self._ij(r1, r2)
        a = bool(self.real[1](order, r1, r2, slack))
        self.ans[("cov", i, j)] = a
        return a

    def check_dominates(self, order, r1, r2):
        i, j = self._ij(r1, r2)
        a = bool(self.real[2](order, r1, r2))
        self.ans[("pess", i, j)] = a
        return a

    def patches(self):
        return {"is_dominated": self.is_dominated, "is_covered": self.is_covered,
                "check_dominates": self.check_dominates}

    def tables(self, n):
        t = {k: np.zeros((n, n), dtype=bool) for k in ("dom", "cov", "pess")}
        for (k, i, j), a in self.ans.items():
            if i < n and j < n:
                t[k][i, j] = a
        return t


def round_tables(case, r, n):
    """stream A: the Boolean tables of round `r` (0-based) for `n` regions — a pure function of the case"""
    prof = case["profile"]
    if "script" in prof:  # explicit tables per round (the last entry repeats): "all" / "none" / list of (i, j)
        ent = prof["script"][min(r, len(prof["script"]) - 1)]
        out = {}
        for k in ("dom", "cov", "pess"):
            v = ent.get(k, "none")
            t = np.zeros((n, n), dtype=bool)
            if v == "all":
                t[:] = True
            elif v != "none":
                for i, j in v:
                    if i < n and j < n:
                        t[i, j] = True
            out[k] = t
        return out
    h = hashlib.sha256(f"{case['seed']}:{r}".encode()).digest()
    rs = np.random.RandomState(int.from_bytes(h[:4], "little"))
    dec = prof.get("decay", 1.0) ** r
    pd, pc, pp = prof["dom"], prof["cov"] * dec, prof["pess"]
    dom, cov, pess = rs.rand(n, n) < pd, rs.rand(n, n) < pc, rs.rand(n, n) < pp
    if prof.get("diag"):  # self-comparisons answer True: only the `pt' == pt` guards keep runs alive
        for t in (dom, cov, pess):
            np.fill_diagonal(t, True)
    if prof.get("late_dom") is not None and r < prof["late_dom"]:
        dom[:] = False
    return {"dom": dom, "cov": cov, "pess": pess}


def bits(t):
    t = np.asarray(t, dtype=bool)
    return core.bools(t.reshape(-1)) if t.size else "_"


def env_str(n, tabs, centres, rows, picks, refine, pareto):
    pk = ";".join(f"{d},{o}" for d, o in picks) if picks else "_"
    return ":".join([str(n), bits(tabs["dom"]) if tabs else "_", bits(tabs["cov"]) if tabs else "_",
                     bits(tabs["pess"]) if tabs else "_", core.qmat(centres) if centres is not None else "_",
                     core.qmat(rows) if rows is not None else "_", pk, "1" if refine else "0", core.nats(pareto)])


def crash_key(e, case, exceeds_flag):
    tb = traceback.extract_tb(e.__traceback__)
    frames = [(fr.filename.rsplit("/", 1)[-1], fr.name) for fr in tb]
    name = case["alg"]
    if isinstance(e, StepTimeout):
        return f"hang:{name}"
    if exceeds_flag and any(f[1] == "optimize_acqf_discrete" for f in frames) and name in BATCHED:
        return "crash:batch-exceeds-active"
    if (isinstance(e, ValueError) and name in ("PaVeBaGP-IH", "PaVeBaPartialGP-rect")
            and frames and frames[-1] == ("confidence_region.py", "is_covered")
            and str(e).startswith("Slackness must be") and case.get("N") != case["m"]):
        return "crash:rect-slack-length-N-ne-m"
    return f"crash:{core.exc_key(e)}:{name}"


def parse_step(s):
    f = s.split(":")
    if len(f) != 14:
        raise RuntimeError(f"unexpected trajectory entry {s!r}")
    reqs = []
    if f[10] != "_":
        for t in f[10].split(","):
            d, _, o = t.partition(".")
            reqs.append((int(d), int(o) if o else None))
    return {"S": core.parse_nats(f[0]), "P": core.parse_nats(f[1]), "U": core.parse_nats(f[2]), "round": int(f[3]),
            "sc": int(f[4]), "cost": Fraction(f[5]), "latch": f[6] == "1", "depths": core.parse_nats(f[7]),
            "parent": core.parse_nats(f[8]), "done": f[9] == "1", "req": reqs,
            "refined": None if f[11] == "-" else int(f[11]), "exceeds": f[12] == "1", "cap": int(f[13])}


def auer_margin(alg, S_pre, centres, rows):
    """smallest |lhs − rhs| over the comparisons Auer's two phases can make this round (`rows[i]` is the
    width row of design `i`)"""
    eps = alg.epsilon
    best = np.inf
    for i in S_pre:
        for j in S_pre:
            if i == j:
                continue
            b = rows[i] + rows[j]
            sm = max(0, np.min(centres[j] - centres[i]))
            bm = max(0, np.max((centres[i] + eps) - centres[j]))
            best = min(best, float(np.min(np.abs(sm - b))), float(np.min(np.abs(bm - b))))
    return best


# --------------------------------------------------------------------------------------------
# generators
# --------------------------------------------------------------------------------------------
PROFILES = [
    {"name": "quick-finish", "dom": 0.1, "cov": 0.3, "pess": 0.1, "decay": 0.6},
    {"name": "slow-cover", "dom": 0.05, "cov": 0.9, "pess": 0.1, "decay": 0.8},
    {"name": "discard-heavy", "dom": 0.4, "cov": 0.6, "pess": 0.05, "decay": 0.7},
    {"name": "no-discard", "dom": 0.0, "cov": 0.7, "pess": 0.0, "decay": 0.7},
    {"name": "stuck", "dom": 0.0, "cov": 1.0, "pess": 0.3, "decay": 1.0},
    {"name": "diag", "dom": 0.05, "cov": 0.5, "pess": 0.1, "decay": 0.7, "diag": True},
    {"name": "late-dom", "dom": 0.5, "cov": 0.95, "pess": 0.0, "decay": 0.9, "late_dom": 2},
    {"name": "pess-heavy", "dom": 0.5, "cov": 0.7, "pess": 0.6, "decay": 0.8},
]


def pick_cone(rng, name, m=None):
    if name in ("EpsilonPAL", "Auer"):
        m = m or rng.choice([2, 2, 3])
        return ["comp", m]
    r = rng.random()
    if r < 0.25:
        return rng.choice(BUNDLED)
    return rng.choice(CONES_2D + CONES_3D)


def facets(spec):
    return int(make_order(spec).ordering_cone.W.shape[0])


def base_case(rng, kind, name):
    cone = pick_cone(rng, name)
    m = order_dim(cone)
    K = rng.randint(1, 8) if rng.random() < 0.85 else rng.choice([1, 2])
    spread = rng.choice([2, 4, 8])
    Y = [[core.dyadic(rng, -4 * spread, 4 * spread, 3) for _ in range(m)] for _ in range(K)]
    if K >= 2 and rng.random() < 0.2:
        Y[1] = list(Y[0])
    case = {"kind": kind, "alg": name, "cone": cone, "m": m, "K": K, "Y": Y,
            "eps": rng.choice([0.125, 0.25, 0.5, 1.0, 1.0 / 1024, 1.0 / 2 ** 20]), "delta": 0.05,
            "noise_var": 0.015625, "seed": rng.randrange(10 ** 6), "extra": rng.choice([2, 3])}
    if name in BATCHED:
        bmode = rng.choice(["one", "small", "small", "all", "exceed", "exceed-later"])
        if bmode == "one":
            b = 1
        elif bmode == "all":
            b = max(1, K)
        elif bmode == "small":
            b = rng.randint(1, max(1, min(4, K)))
        elif bmode == "exceed":
            b = K + rng.randint(1, 2)
        else:
            b = max(1, K - rng.randint(0, 1))
        case["batch"], case["batch_mode"] = b, bmode
    if name in DECOUPLED:
        # degenerate-but-supported values on purpose: falsy budgets (0 and 0.0 mean "finished at once", not
        # "no budget"), a budget below one evaluation, budgets hit exactly after 1 / k batches, equal costs,
        # a zero cost entry, a budget without costs (PaVeBaPartialGP: total_cost then never moves)
        modes = ["mixed", "mixed", "exact-one-batch", "exact-k-batches", "zero-int", "zero-float", "tiny", "zero-cost-entry"]
        if name != "DecoupledGP":
            modes += ["none", "costs-only", "budget-no-costs", "zero-no-costs"]
        cmode = rng.choice(modes)
        b = case.get("batch", 1)
        equal = [rng.choice([0.5, 1.0, 2.0])] * m
        mixed = [rng.choice([0.5, 1.0, 2.0]) for _ in range(m)]
        if cmode == "mixed":
            case["costs"], case["budget"] = mixed, rng.choice([1.0, 2.5, 4.0, 7.0])
        elif cmode == "exact-one-batch":
            case["costs"], case["budget"] = equal, equal[0] * b
        elif cmode == "exact-k-batches":
            case["costs"], case["budget"] = equal, equal[0] * b * rng.randint(2, 4)
        elif cmode == "zero-int":
            case["costs"], case["budget"] = rng.choice([equal, mixed]), 0
        elif cmode == "zero-float":
            case["costs"], case["budget"] = rng.choice([equal, mixed]), 0.0
        elif cmode == "tiny":
            case["costs"], case["budget"] = mixed, 1.0 / 2 ** 20
        elif cmode == "zero-cost-entry":
            z = list(mixed)
            z[rng.randrange(m)] = 0.0
            case["costs"], case["budget"] = z, rng.choice([0.5, 2.0, 4.0])
        elif cmode == "costs-only":
            case["costs"] = mixed
        elif cmode == "budget-no-costs":
            case["budget"] = rng.choice([1.0, 4.0])
        elif cmode == "zero-no-costs":
            case["budget"] = rng.choice([0, 0.0])
        if name == "DecoupledGP" and "costs" not in case:
            case["costs"] = equal
        case["cost_mode"] = cmode
    if name == "VOGP_AD":
        in_dim = rng.choice([1, 1, 2])
        case.update({"K": 0, "Y": [], "depth_max": rng.randint(1, 4 if in_dim == 1 else 3),
                     "coef": [[core.dyadic(rng, -8, 8, 2) for _ in range(m)] for _ in range(in_dim)],
                     "ls": rng.choice([0.05, 0.2, 0.5, 2.0, 50.0]), "var0": rng.choice([0.0625, 0.25, 1.0]),
                     "shrink": rng.choice([0.25, 0.5, 0.8])})
    return case


def gen_table_case(rng, name=None):
    name = name or rng.choice(TABLE_ALGS)
    case = base_case(rng, "table", name)
    case["profile"] = dict(rng.choice(PROFILES))
    return case


REAL_ALGS = ["PaVeBa", "PaVeBa", "PaVeBaGP-IH", "PaVeBaGP-DE", "PaVeBaPartialGP-rect", "PaVeBaPartialGP-ell", "VOGP",
             "EpsilonPAL", "VOGP_AD", "Auer", "Auer", "Auer", "NaiveElimination", "DecoupledGP", "DecoupledGP"]


def gen_real_case(rng, name=None, tier="quick"):
    name = name or rng.choice(REAL_ALGS)
    case = base_case(rng, "real", name)
    case["K"] = min(case["K"], 6) if name != "VOGP_AD" else 0
    case["Y"] = case["Y"][: case["K"]]
    if "batch" in case and case["batch_mode"] == "exceed":
        case["batch"] = case["K"] + 1
    case["var0"], case["shrink"] = rng.choice([0.0625, 0.25, 1.0]), rng.choice([0.25, 0.5])
    case["conf_contraction"] = rng.choice([2, 4, 8, 16, 32]) if name in ("PaVeBa", "Auer") else rng.choice([1, 4, 32])
    if name == "Auer":
        case["empirical_beta"] = rng.random() < 0.5
    if name == "NaiveElimination":
        lm = rng.choice(["zero", "one", "small", "small", "default"])
        case["L"] = {"zero": 0, "one": 1, "small": rng.randint(1, 6), "default": None}[lm]
        if lm == "default":
            case["cone"] = ["theta2", rng.choice([45, 90, 120])]
            case["m"] = 2
            case["Y"] = [y[:2] + [0.0] * (2 - len(y[:2])) for y in case["Y"]]
            case["eps"], case["noise_var"] = rng.choice([0.5, 1.0]), 0.015625
    if name not in ("PaVeBa", "Auer", "NaiveElimination") and rng.random() < (0.25 if tier == "thorough" else 0.1):
        case["model"] = "fixed"
    return case


SCALED_SHAPES = ["plain", "const-feature", "const-feature", "single", "single", "identical-2", "identical-k",
                 "int", "int-const-feature", "const-objective", "all-const-objectives", "two-close"]
SCALED_ALGS = ["PaVeBa", "PaVeBa", "PaVeBa", "Auer", "Auer", "Auer", "NaiveElimination", "NaiveElimination",
               "VOGP", "EpsilonPAL", "PaVeBaGP-DE", "PaVeBaPartialGP-ell", "DecoupledGP"]


def scaled_data(rng, shape, m):
    """raw (unscaled) inputs / outputs of an awkward-but-ordinary tabular dataset"""
    d = rng.choice([1, 2, 3])
    K = rng.randint(2, 6)
    if shape == "single":
        K = 1
    elif shape == "identical-2":
        K = 2
    integer = shape.startswith("int")
    def num():
        return rng.randint(-9, 9) if integer else core.dyadic(rng, -40, 40, 3)
    X = [[num() for _ in range(d)] for _ in range(K)]
    for i in range(K):  # distinct rows unless the shape asks otherwise
        X[i][0] = (3 * i + 1) if integer else (i * 1.25 + 0.5)
    Y = [[num() for _ in range(m)] for _ in range(K)]
    if shape in ("const-feature", "int-const-feature"):
        if d == 1:
            X = [r + [0] for r in X] if integer else [r + [0.0] for r in X]
            d = 2
        j = rng.randrange(1, d)
        for r in X:
            r[j] = X[0][j]
    elif shape in ("identical-2", "identical-k"):
        X = [list(X[0]) for _ in range(K)]
    elif shape == "const-objective":
        j = rng.randrange(m)
        for r in Y:
            r[j] = Y[0][j]
    elif shape == "all-const-objectives":
        Y = [list(Y[0]) for _ in range(K)]
    elif shape == "two-close" and K >= 2:
        X[1] = [x + (0 if integer else 2.0 ** -20) for x in X[0]]
    return X, Y, integer


def gen_scaled_case(rng, name=None, shape=None):
    """datasets that go through the REAL `Dataset.__init__` scaling path"""
    shape = shape or rng.choice(SCALED_SHAPES)
    name = name or rng.choice(SCALED_ALGS)
    if shape in ("identical-2", "identical-k") and name not in EVAL_ALL:
        name = rng.choice(EVAL_ALL)  # picks of duplicate designs cannot be told apart from the evaluated rows
    case = base_case(rng, "real", name)
    m = case["m"]
    X, Y, integer = scaled_data(rng, shape, m)
    case.update({"dataset": "scaled", "shape": shape, "X_raw": X, "Y_raw": Y, "int_dtype": integer, "K": len(X),
                 "Y": [], "eps": rng.choice([0.125, 0.25, 0.5]), "var0": rng.choice([0.0625, 0.25]),
                 "shrink": rng.choice([0.25, 0.5])})
    if name in ("PaVeBa", "Auer"):
        case["conf_contraction"] = rng.choice([4, 8, 16, 32])
    if name == "Auer":
        case["empirical_beta"] = rng.random() < 0.5
    if name == "NaiveElimination":
        case["L"] = rng.choice([0, 1, 2, 3])
    if name in BATCHED:
        case["batch"] = rng.randint(1, max(1, len(X)))
    if name in TABLE_ALGS and rng.random() < 0.3:
        case["kind"] = "table"
        case["profile"] = dict(rng.choice(PROFILES))
    return case


def structured_cases():
    """hand-picked shapes that must be present in every run of the check"""
    out = []
    Y2 = [[1.0, 0.0], [0.5, 0.5], [0.0, 1.0], [0.25, 0.25], [0.625, 0.125]]
    prof = dict(PROFILES[0])
    for name in TABLE_ALGS:
        if name == "VOGP_AD":
            out.append({"kind": "table", "alg": name, "cone": "threefacet2", "m": 2, "K": 0, "Y": [], "eps": 0.25,
                        "delta": 0.05, "noise_var": 0.015625, "seed": 11, "extra": 3, "depth_max": 3,
                        "coef": [[1.0, -1.0]], "ls": 0.5, "var0": 0.25, "shrink": 0.5, "profile": prof})
            continue
        cone = ["comp", 2] if name == "EpsilonPAL" else "threefacet2"
        c = {"kind": "table", "alg": name, "cone": cone, "m": 2, "K": 5, "Y": Y2, "eps": 0.25, "delta": 0.05,
             "noise_var": 0.015625, "seed": 7, "extra": 3, "profile": prof}
        if name in BATCHED:
            c["batch"] = 2
        out.append(c)
        if name in BATCHED:
            c2 = dict(c)
            c2["batch"], c2["batch_mode"] = 6, "exceed"
            out.append(c2)
    # falsy / boundary budgets: 0 and 0.0 are budgets that are reached before the first sample
    for name in ("PaVeBaPartialGP-rect", "PaVeBaPartialGP-ell", "DecoupledGP"):
        for kind in ("table", "real"):
            if kind == "table" and name == "DecoupledGP":
                continue
            for budget in (0, 0.0, 1.0 / 2 ** 20, 2.0):
                c = {"kind": kind, "alg": name, "cone": "orthant2", "m": 2, "K": 4, "Y": Y2[:4], "eps": 0.25,
                     "delta": 0.05, "noise_var": 0.015625, "seed": 13, "extra": 3, "batch": 2, "costs": [1.0, 1.0],
                     "budget": budget, "var0": 0.25, "shrink": 0.5, "profile": dict(PROFILES[4])}
                out.append(c)
    out.append({"kind": "real", "alg": "PaVeBaPartialGP-ell", "cone": "orthant2", "m": 2, "K": 3, "Y": Y2[:3],
                "eps": 0.25, "delta": 0.05, "noise_var": 0.015625, "seed": 14, "extra": 3, "batch": 1, "budget": 0,
                "var0": 0.25, "shrink": 0.5})
    for L in (0, 1):
        out.append({"kind": "real", "alg": "NaiveElimination", "cone": "orthant2", "m": 2, "K": 1, "Y": Y2[:1],
                    "eps": 1.0 / 1024, "delta": 0.05, "noise_var": 0.015625, "seed": 15, "extra": 3, "L": L})
    # datasets through the real `Dataset.__init__` (min-max / standard scaling): a constant input feature, a
    # single design, duplicate designs, integer data, a constant objective
    Xc = [[0.0, 2.0, 1.0], [1.0, 2.0, 0.5], [2.0, 2.0, 4.0], [3.0, 2.0, 3.0], [4.0, 2.0, 2.5], [5.0, 2.0, 0.0]]
    Yc = [[0.0, 5.0], [1.0, 4.0], [2.0, 4.5], [0.5, 1.0], [4.0, 0.0], [3.0, 2.0]]
    shapes = [("const-feature", Xc, Yc, False), ("single", [[0.3, 0.7]], [[1.0, -1.0]], False),
              ("identical-2", [[1.0, 2.0], [1.0, 2.0]], [[0.0, 1.0], [1.0, 0.0]], False),
              ("int", [[1, 5], [2, 3], [4, 4], [7, 0]], [[0, 3], [2, 2], [3, 0], [1, 1]], True),
              ("const-objective", [[0.0], [1.0], [2.5]], [[1.0, 7.0], [2.0, 7.0], [0.5, 7.0]], False)]
    for shape, Xr, Yr, integer in shapes:
        for name in ("PaVeBa", "Auer", "NaiveElimination"):
            c = {"kind": "real", "alg": name, "cone": ["comp", 2] if name == "Auer" else "orthant2", "m": 2,
                 "K": len(Xr), "Y": [], "dataset": "scaled", "shape": shape, "X_raw": Xr, "Y_raw": Yr,
                 "int_dtype": integer, "eps": 0.25, "delta": 0.05, "noise_var": 0.015625, "seed": 21, "extra": 2,
                 "conf_contraction": 16}
            if name == "NaiveElimination":
                c["L"] = 2
            out.append(c)
    out.append({"kind": "real", "alg": "VOGP", "cone": "orthant2", "m": 2, "K": len(Xc), "Y": [], "dataset": "scaled",
                "shape": "const-feature", "X_raw": Xc, "Y_raw": Yc, "int_dtype": False, "eps": 0.25, "delta": 0.05,
                "noise_var": 0.015625, "seed": 22, "extra": 2, "batch": 2, "var0": 0.25, "shrink": 0.5})
    # decoupled batch selection vs the number of (design, objective) pairs on offer: batch sizes beyond m·K
    # from the first call on, and batch sizes that exceed m·|active| only after a scripted elimination round
    # (K=4, m=2, batch 6: two calls with 4 active designs, then designs 2 and 3 are discarded and the third call
    # has 2·2 = 4 pairs for a batch of 6) — with and without costs, stepped to termination
    K4, m2 = 4, 2
    elim = {"name": "scripted-elimination",
            "script": [{"cov": "all"}, {"cov": "all", "dom": [[2, 0], [3, 0]]}, {"cov": "all"}, {"cov": "all"},
                       {"cov": "none"}]}
    keep = {"name": "scripted-keep", "script": [{"cov": "all"}, {"cov": "all"}, {"cov": "none"}]}
    for name in ("PaVeBaPartialGP-rect", "PaVeBaPartialGP-ell"):
        for costs, budget in ((None, None), ([1.0, 0.5], None), ([1.0, 1.0], 64.0)):
            for b in (m2 * K4 + 1, m2 * K4 + 3, 2 * m2 * K4):
                c = {"kind": "table", "alg": name, "cone": "orthant2", "m": m2, "K": K4, "Y": Y2[:K4], "eps": 0.25,
                     "delta": 0.05, "noise_var": 0.015625, "seed": 31, "extra": 2, "batch": b, "var0": 0.25,
                     "shrink": 0.5, "profile": keep}
                if costs is not None:
                    c["costs"] = costs
                if budget is not None:
                    c["budget"] = budget
                out.append(c)
            for b in (5, 6, 7):
                c = {"kind": "table", "alg": name, "cone": "orthant2", "m": m2, "K": K4, "Y": Y2[:K4], "eps": 0.25,
                     "delta": 0.05, "noise_var": 0.015625, "seed": 32, "extra": 2, "batch": b, "var0": 0.25,
                     "shrink": 0.5, "profile": elim}
                if costs is not None:
                    c["costs"] = costs
                if budget is not None:
                    c["budget"] = budget
                out.append(c)
        for b in (6, m2 * K4 + 1, 2 * m2 * K4):  # real geometry: the active set shrinks by itself
            out.append({"kind": "real", "alg": name, "cone": "orthant2", "m": m2, "K": K4, "Y": Y2[:K4], "eps": 0.25,
                        "delta": 0.05, "noise_var": 0.015625, "seed": 33, "extra": 2, "batch": b, "costs": [1.0, 0.5],
                        "var0": 0.25, "shrink": 0.5, "conf_contraction": 4})
    for costs in ([1.0, 1.0], [1.0, 0.5]):
        for b in (m2 * K4 + 1, m2 * K4 + 3, 2 * m2 * K4):
            out.append({"kind": "real", "alg": "DecoupledGP", "cone": "orthant2", "m": m2, "K": K4, "Y": Y2[:K4],
                        "eps": 0.25, "delta": 0.05, "noise_var": 0.015625, "seed": 34, "extra": 2, "batch": b,
                        "costs": costs, "budget": 20.0, "var0": 0.25, "shrink": 0.5})
    out.append({"kind": "real", "alg": "DecoupledGP", "cone": "orthant2", "m": m2, "K": 1, "Y": Y2[:1], "eps": 0.25,
                "delta": 0.05, "noise_var": 0.015625, "seed": 35, "extra": 2, "batch": 3, "costs": [1.0, 1.0],
                "budget": 5.0, "var0": 0.25, "shrink": 0.5})
    # VOGP_AD: a member of P below the maximum depth gets refined (unreachable from the constructor:
    # P only receives nodes of maximal depth) — children must replace it in P
    for seed in (1, 2):
        out.append({"kind": "table", "alg": "VOGP_AD", "cone": "orthant2", "m": 2, "K": 0, "Y": [], "eps": 0.25,
                    "delta": 0.05, "noise_var": 0.015625, "seed": seed, "extra": 2, "depth_max": 4,
                    "coef": [[1.0, -1.0]], "ls": 0.05, "var0": 0.25, "shrink": 0.5, "var_hi_above": 0.5,
                    "profile": {"name": "stuck", "dom": 0.0, "cov": 1.0, "pess": 0.0, "decay": 1.0},
                    "force": {"refine": [0], "S": [1], "P": [2], "latch": False, "parent": [0, 0, 0]}})
    # real geometry: the two suspected crashes, and plain runs
    for name in ("PaVeBaGP-IH", "PaVeBaPartialGP-rect"):
        out.append({"kind": "real", "alg": name, "cone": "threefacet2", "m": 2, "K": 5, "Y": Y2, "eps": 0.25,
                    "delta": 0.05, "noise_var": 0.015625, "seed": 3, "extra": 2, "batch": 1, "var0": 0.25,
                    "shrink": 0.5, "conf_contraction": 4})
    # VOGP_AD on a real (fixed hyper-parameter) GP over a 1-D input: `calculate_design_vh` indexes the ARD
    # lengthscale vector (one entry per INPUT dimension, squeezed to 0-d here) by OBJECTIVE
    out.append({"kind": "real", "alg": "VOGP_AD", "cone": "orthant2", "m": 2, "K": 0, "Y": [], "eps": 0.25,
                "delta": 0.05, "noise_var": 0.015625, "seed": 4, "extra": 2, "depth_max": 3,
                "coef": [[1.0, -1.0]], "model": "fixed"})
    # NaiveElimination, default L, a single design: the union bound over K(K-1) ordered pairs divides by zero
    out.append({"kind": "real", "alg": "NaiveElimination", "cone": ["theta2", 90], "m": 2, "K": 1, "Y": [[1.0, 2.0]],
                "eps": 0.5, "delta": 0.05, "noise_var": 0.015625, "seed": 6, "extra": 2, "L": None})
    out.append({"kind": "real", "alg": "NaiveElimination", "cone": "orthant2", "m": 2, "K": 3, "Y": Y2[:3],
                "eps": 0.25, "delta": 0.05, "noise_var": 0.015625, "seed": 5, "extra": 3, "L": 3})
    out.append({"kind": "real", "alg": "DecoupledGP", "cone": "acute2", "m": 2, "K": 4, "Y": Y2[:4], "eps": 0.25,
                "delta": 0.05, "noise_var": 0.015625, "seed": 5, "extra": 3, "batch": 2, "costs": [1.0, 1.0],
                "budget": 6.0, "var0": 0.25, "shrink": 0.5})
    out.append({"kind": "real", "alg": "Auer", "cone": ["comp", 2], "m": 2, "K": 5, "Y": Y2, "eps": 0.125,
                "delta": 0.05, "noise_var": 0.015625, "seed": 9, "extra": 3, "conf_contraction": 4,
                "empirical_beta": False})
    out.append({"kind": "real", "alg": "PaVeBa", "cone": "redundant2", "m": 2, "K": 5, "Y": Y2, "eps": 0.125,
                "delta": 0.05, "noise_var": 0.015625, "seed": 9, "extra": 3, "conf_contraction": 4})
    return out


def gen(ctx):
    rng = ctx.rng
    if ctx.worker == 0:
        for c in structured_cases():
            yield c
    # every algorithm at least once per stream, then random
    first = ctx.worker == 0
    n_table = ctx.n(260, 6000)
    n_real = ctx.n(200, 4000)
    names_t = list(TABLE_ALGS) if first else []
    for k in range(n_table):
        yield gen_table_case(rng, names_t[k] if k < len(names_t) else None)
    names_r = sorted(set(REAL_ALGS)) if first else []
    for k in range(n_real):
        yield gen_real_case(rng, names_r[k] if k < len(names_r) else None, ctx.tier)
    for k in range(ctx.n(60, 1500)):
        yield gen_scaled_case(rng)


# --------------------------------------------------------------------------------------------
# one case
# --------------------------------------------------------------------------------------------
def viol(ctx, key, what, case, kind="R", detail=None):
    """one record per key and worker (the first input that showed it); repeats are only counted, so that
    a frequent finding cannot crowd a new one out of the bounded violation list"""
    seen = ctx.__dict__.setdefault("_c06_seen", set())
    if key in seen:
        ctx.count("repeat_" + key.split(":")[0] + ":" + key.split(":")[1][:40])
        return
    seen.add(key)
    ctx.violation(key, what, case, kind=kind, detail=detail)


def run_case(ctx, case):
    name = case["alg"]
    kind = case["kind"]
    case = dict(case)
    ctx.count(f"stream_{kind}")
    ctx.count(f"alg_{name}")
    if case.get("dataset") == "scaled":
        ctx.count("dataset_scaled_" + case.get("shape", "?"))
    try:
        if name not in ("EpsilonPAL", "Auer"):
            case["N"] = facets(case["cone"])
        else:
            case["N"] = case["m"]
    except Exception as e:  # the order itself cannot be built: not this property's subject
        ctx.count("order_construction_failed_info")
        ctx.info(f"order {case['cone']!r} could not be built: {type(e).__name__}")
        ctx.case_done(case, False)
        return
    ctx.count("cone_N%s_m" % ("=" if case["N"] == case["m"] else (">" if case["N"] > case["m"] else "<")))
    seed = int(case.get("seed", 0))
    with stubs.seeded_noise(seed), stubs.dyadic_noise(seed, p=4, span=8):
        _run(ctx, case, name, kind)


def _run(ctx, case, name, kind):
    pub = {k: v for k, v in case.items() if k != "N"}
    # ---- constructor
    try:
        with time_limit(STEP_SECONDS):
            alg = construct(case)
    except Exception as e:
        viol(ctx, crash_key(e, case, False) + ":constructor",
                      f"{name} constructor raised {type(e).__name__}: {e}", pub,
                      detail={"traceback": traceback.format_exc()[-3000:]})
        ctx.case_done(pub, True)
        return
    rec = stubs.RecordingProblem.attach(alg)
    if name == "NaiveElimination" and case.get("L") is None:
        # the default number of rounds is the one parameter read from the object: it must at least BE a count
        # (a negative or non-integral value — ceil(-inf).astype(int) — means `round == L` can never become true)
        try:
            Lobj = alg.L
            bad_L = (not np.isfinite(float(Lobj))) or float(Lobj) < 0 or float(Lobj) != int(Lobj)
        except Exception:
            bad_L = True
        if bad_L:
            viol(ctx, "naive-default-L-not-a-count", f"NaiveElimination's default number of sampling rounds is "
                 f"{getattr(alg, 'L', None)!r}: not a non-negative integer, so no run_one_step() can ever report that "
                 "the fixed number of rounds is used up (the run never terminates)", pub,
                 detail={"K": case.get("K"), "L": repr(getattr(alg, "L", None))})
            ctx.case_done(pub, True)
            return
    cfg = cfg_str(case, alg)
    init_model = ctx.ask("init", cfg)
    parent = [0] if name == "VOGP_AD" else []
    forced = bool(case.get("force"))
    if forced:
        parent = list(case["force"]["parent"])
    try:
        prev = snapshot(alg, name)
    except BadAttribute as e:
        viol(ctx, f"total-cost-nonfinite:{name}", f"{name}: right after the constructor {e} — the reported total "
             "cost must equal the summed costs of the evaluations requested (none yet)", pub)
        ctx.case_done(pub, True)
        return
    start_state = state_str(prev, parent)
    if not forced and init_model != state_str(prev, parent):
        viol(ctx, f"init-state:{name}", "state right after the constructor differs from the model's initial state",
                      pub, kind="F", detail={"impl": state_str(prev, parent), "model": init_model})
    table_stream = kind == "table" and name in TABLE_ALGS
    if table_stream:
        orc = stubs.TableOracle(stubs.RegionIndex(alg.design_space), slack=stubs.expected_slack(alg),
                                order=alg.order)
    elif name in TABLE_ALGS:
        orc = RecOracle(alg)
    else:
        orc = None
    # VOGP_AD: spy on the refinement test and on refine_design
    ad_log = []
    if name == "VOGP_AD":
        ds = alg.design_space
        real_should, real_refine = ds.should_refine_design, ds.refine_design

        def spy_should(model, idx, scale):
            d = int(ds.point_depths[idx])
            r = bool(real_should(model, idx, scale))
            ad_log.append(["should", int(idx), r, d])
            return r

        def spy_refine(idx):
            kids = real_refine(idx)
            ad_log.append(["refine", int(idx), [int(k) for k in kids]])
            return kids

        ds.should_refine_design, ds.refine_design = spy_should, spy_refine
    if name == "VOGP_AD":
        X = None
    else:
        X = getattr(alg, "_c06_X", None)
        if X is None:
            X = design_inputs(case["K"])[: case["K"]]
    xkey = {}
    if X is not None:
        for i in range(len(X)):
            xkey.setdefault(np.ascontiguousarray(X[i], dtype=float).tobytes(), []).append(i)

    def decode(calls, prefer=()):
        """design (and objective) of every evaluated row; identical input rows (duplicate designs) are told
        apart by taking, among the designs with that row, first an unused one of the active set"""
        reqs = []
        for c in calls:
            xs = np.atleast_2d(c["x"])
            objs = None
            used = set()
            if name in DECOUPLED:
                objs = [int(o) for o in np.atleast_1d(c["args"][0] if c["args"] else c["kwargs"].get("evaluation_index"))]
            for k, x in enumerate(xs):
                if name == "VOGP_AD":
                    hit = np.where(np.all(alg.design_space.points == x, axis=1))[0]
                    d = int(hit[0]) if len(hit) else -1
                else:
                    cand = xkey.get(np.ascontiguousarray(x[: X.shape[1]], dtype=float).tobytes(), [])
                    if len(cand) > 1 and name not in DECOUPLED:
                        free = [i for i in cand if i not in used]
                        pref = [i for i in free if i in prefer]
                        cand = pref or free or cand
                    d = cand[0] if cand else -1
                    used.add(d)
                reqs.append((d, objs[k] if objs is not None else None))
        return reqs

    steps, envs = [], []
    crashed = None
    left_S = set()
    finished_at = None
    active_calls = 0
    borderline_from = None
    total_reqs = []
    r = 0
    while True:
        if finished_at is not None and r >= finished_at + case.get("extra", 2):
            break
        if finished_at is None and active_calls >= CAP:
            break
        ncalls = len(rec.calls)
        del ad_log[:]
        n_before = len(alg.design_space.points) if name == "VOGP_AD" else case["K"]
        tabs = None
        if table_stream:
            tabs = round_tables(case, r, n_before)
            orc.dom, orc.cov, orc.pess = tabs["dom"], tabs["cov"], tabs["pess"] if name in stubs.PESSIMISTIC_FAMILY else None
            del orc.calls[:]
        elif orc is not None:
            orc.ans = {}
        exc = None
        try:
            with time_limit(STEP_SECONDS):
                if orc is not None:
                    with stubs.patch_geometry(alg, **orc.patches()):
                        done = alg.run_one_step()
                else:
                    done = alg.run_one_step()
        except Exception as e:
            exc = e
        # ---- environment of this call, as far as it was observed
        reqs = decode(rec.calls[ncalls:], prefer=set(prev["S"]) | set(prev["U"]))
        if orc is not None and not table_stream:
            tabs = orc.tables(n_before)
        centres = rows = None
        if name == "Auer" and exc is None and prev["S"]:
            centres = np.zeros((case["K"], case["m"]))
            rows = np.zeros((case["K"], case["m"]))
            for i in prev["S"]:
                centres[i] = alg.design_space.confidence_regions[i].center
            # widths: through the shared helper (the internal store `beta_t` may be a dict by design, a positional
            # array or a table by design); if its form is not recognised, use what the property talks about —
            # the half-widths of the displayed boxes
            try:
                wd = stubs.auer_get_widths(alg, list(prev["S"]))
            except (stubs.AuerWidthFormUnknown, ValueError):
                wd = stubs.auer_displayed_widths(alg, prev["S"])
            for i in prev["S"]:
                if i in wd:
                    rows[int(i)] = np.asarray(wd[i], dtype=float)
            if not (np.all(np.isfinite(centres)) and np.all(np.isfinite(rows))):
                centres = rows = None
        picks, refine_ans, refined = [], False, None
        if name == "VOGP_AD":
            for ev in ad_log:
                if ev[0] == "should":
                    picks = [(ev[1], 0)]
                    refine_ans = ev[2] if ev[3] < alg.max_discretization_depth else True
                elif ev[0] == "refine":
                    refined = ev[1]
                    while len(parent) < len(alg.design_space.points):
                        parent.append(ev[1])
            if not picks and reqs:
                picks = [(reqs[0][0], 0)]
        elif name not in EVAL_ALL:
            picks = [(d, 0 if o is None else o) for d, o in reqs]
        pareto = sset(alg.P) if name == "DecoupledGP" and exc is None else []
        envs.append(env_str(n_before, tabs, centres, rows, picks, refine_ans, pareto))
        if exc is not None:
            crashed = (r, exc)
            break
        if table_stream and orc.problems:
            viol(ctx, f"oracle-args:{name}", f"{name}: geometry predicate called irregularly: {orc.problems[0]}",
                          {k: v for k, v in case.items() if k != "N"}, kind="F", detail={"problems": orc.problems[:5]})
            del orc.problems[:]
        try:
            cur = snapshot(alg, name)
        except BadAttribute as e:
            viol(ctx, f"total-cost-nonfinite:{name}", f"{name}: after call {r + 1} {e} — the reported total cost "
                 "must equal the summed per-objective costs of the evaluations requested", pub,
                 detail={"call": r + 1, "requested": reqs})
            envs.pop()
            break
        was_done = finished_at is not None
        if name == "Auer" and centres is not None and borderline_from is None and len(prev["S"]) > 1:
            if auer_margin(alg, prev["S"], centres, rows) < 1e-9:
                borderline_from = r
                ctx.count("auer_borderline_round_info")
        steps.append({"prev": prev, "cur": cur, "done": bool(done), "req": reqs, "refined": refined,
                      "parent_prev": list(parent[: len(prev["depths"])]) if name == "VOGP_AD" else [],
                      "parent_cur": list(parent) if name == "VOGP_AD" else []})
        total_reqs += reqs
        if not was_done:
            active_calls += 1  # calls made while the run had not reported completion (bounded by CAP)
        if bool(done) and finished_at is None:
            finished_at = r
        # whole-run (R): a design that left S never returns
        back = left_S & set(cur["S"])
        if back:
            viol(ctx, f"returned-to-S:{name}", f"design(s) {sorted(back)} had left S and are candidates again",
                          pub, detail={"round": r, "S": cur["S"]})
        left_S |= set(prev["S"]) - set(cur["S"])
        prev = cur
        r += 1
    if name == "VOGP_AD":
        del alg.design_space.should_refine_design, alg.design_space.refine_design

    # ---- (R) per call: the Lean relation on the real states
    for k, st in enumerate(steps):
        a = ctx.ask("spec", cfg, state_str(st["prev"], st["parent_prev"]), state_str(st["cur"], st["parent_cur"]),
                    out_str(st["done"], st["req"], st["refined"]))
        if a != "ok":
            viol(ctx, f"spec:{a}:{name}", f"{name}: call {k + 1} violates the run relation ({a})", pub,
                          detail={"call": k + 1, "before": st["prev"], "after": st["cur"], "returned": st["done"],
                                  "requested": st["req"], "refined": st["refined"]})
            break
    # ---- (R) whole run: accounting against the recording proxy
    if steps:
        last = steps[-1]["cur"]
        if last["sc"] != len(total_reqs):
            viol(ctx, f"sample-count-total:{name}", f"sample_count {last['sc']} but {len(total_reqs)} evaluations "
                          "were requested from the problem", pub)
        costs = case.get("costs") if name in DECOUPLED else None
        if costs is not None and hasattr(alg, "total_cost"):
            want = sum((core.frac(costs[o]) for _, o in total_reqs if o is not None), Fraction(0))
            if want != last["cost"]:
                viol(ctx, f"total-cost-total:{name}", f"total_cost {float(last['cost'])} but the requested "
                              f"evaluations cost {float(want)}", pub)
    # ---- (F) the model's trajectory on the recorded environment
    if forced:
        ans = ctx.ask("runfrom", cfg, start_state, *envs) if envs else "_"
    else:
        ans = ctx.ask("run", cfg, *envs) if envs else "_"
    if ans == "bad-op":
        raise RuntimeError("Lean driver rejected the run request: " + " ".join([cfg] + envs)[:400])
    model = [parse_step(s) for s in ans.split("|")] if ans != "_" else []
    exceeds_flag = bool(model and crashed is not None and model[len(steps)]["exceeds"]) if len(model) > len(steps) else False
    limit = len(steps) if borderline_from is None else min(len(steps), borderline_from)
    for k in range(limit):
        st, mo = steps[k], model[k]
        diffs = []
        for f in ("S", "P", "U", "round", "sc", "cost", "latch", "depths"):
            if st["cur"][f] != mo[f]:
                diffs.append(f)
        if st["done"] != mo["done"]:
            diffs.append("done")
        if st["refined"] != mo["refined"]:
            diffs.append("refined")
        if name in EVAL_ALL:
            if sorted(st["req"], key=lambda t: t[0]) != sorted(mo["req"], key=lambda t: t[0]):
                diffs.append("req")
        elif st["req"] != mo["req"]:
            diffs.append("req")
        if name != "VOGP_AD" and len(st["req"]) != mo["cap"]:
            # a batch is `batch_size` evaluations clamped to what the active set offers — no fewer
            diffs.append("batch-count")
        if mo["exceeds"]:
            ctx.count("batch_exceeds_active_calls")
            if st["req"] == mo["req"]:
                ctx.count("batch_exceeds_active_handled_info")
        if diffs:
            viol(ctx, f"traj:{'+'.join(diffs)}:{name}", f"{name}: call {k + 1} differs from the model in {diffs}",
                          pub, kind="F", detail={"call": k + 1, "impl": {**st["cur"], "done": st["done"],
                                                                          "req": st["req"], "refined": st["refined"]},
                                                 "model": mo})
            break
    # ---- crash
    if crashed is not None:
        rr, e = crashed
        key = crash_key(e, case, exceeds_flag)
        ctx.count("crash_" + key.split(":")[1])
        viol(ctx, key, f"{name}.run_one_step() call {rr + 1} raised {type(e).__name__}: {e}", pub,
                      detail={"call": rr + 1, "traceback": "".join(traceback.format_exception(type(e), e, e.__traceback__))[-3000:],
                              "state_before": steps[-1]["cur"] if steps else None})
    elif finished_at is None:
        ctx.count("no_termination_within_cap")
        if model and model[-1]["done"] and borderline_from is None:
            pass  # already reported by the trajectory comparison
    else:
        ctx.count("finished_runs")
        if active_calls >= 3:
            ctx.count(f"finished_after_3plus_calls_{name}")
        ctx.count("finished_after_%d_calls" % min(finished_at + 1, 13))
    if name in BATCHED and case.get("batch", 1) > 1:
        ctx.count("batch_gt_1")
    ctx.count("active_calls", active_calls)
    nontrivial = active_calls >= 2 and (finished_at is not None or crashed is not None)
    ctx.case_done(pub, nontrivial)
