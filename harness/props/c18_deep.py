"""C18 extension families (imported by c18.py; helpers of c18.py are imported lazily to avoid a cycle).

* ``deepchain`` — real `AdaptivelyDiscretizedDesignSpace` with max_depth 18…26 refined along one chain
  that follows a fixed corner / face direction (towards 1 in every coordinate, towards 0, a fixed mixed
  corner, alternating, random), d = 1, 2, 3.  All cell ends and centres stay exact dyadics (2^-26 is
  exact in binary64 and in `Rat`).  Every refinement is checked exactly (R): `refine_design` returns
  exactly the 2^d NEW indices, children have half the side, centre points, depth+1, parent's region,
  tile the parent; at the end the leaves tile the cube and the arrays equal the model replay (F).
  Sees anything that identifies nodes by approximately-equal coordinates (tolerances bite from depth
  ≈ 16 near the upper faces of the cube).
* ``round`` — scripted whole rounds of the real `VOGP_AD.run_one_step()` with a table-driven `GPModel`
  (posterior looked up by the position of the query point): every node inside a chosen "victim" cell
  has by far the widest confidence box (so the acquisition would pick it, and `should_refine_design`
  says True) but lies far below every other node, so `discarding()` removes it in the same round.
  Observed with the same recorder and (R)/(F) checks as the ``run`` family: the refined node must have
  been active when `evaluate_refine` started, its children land in its set, discarded designs are never
  refined or reactivated, active + discarded leaves tile the cube.
"""
import numpy as np

from harness import core

DEEP_PATTERNS = ["ones", "zeros", "corner", "alternate", "random"]


# ------------------------------------------------------------------------------------------ deep chains
def gen_deep(ctx, rng, j):
    d = [2, 1, 3, 2, 2, 1, 3][j % 7]
    pattern = DEEP_PATTERNS[j % len(DEEP_PATTERNS)]
    md = rng.randint(18, 26) if d < 3 else rng.randint(18, 22)
    guarded = rng.random() < 0.5
    steps = md - 1
    if pattern == "ones":
        dirs = [[1] * d for _ in range(steps)]
    elif pattern == "zeros":
        dirs = [[0] * d for _ in range(steps)]
    elif pattern == "corner":
        c = [rng.randint(0, 1) for _ in range(d)]
        if d > 1 and len(set(c)) == 1:
            c[0] = 1 - c[0]
        dirs = [list(c) for _ in range(steps)]
    elif pattern == "alternate":
        # first step away from the centre, afterwards towards the upper faces with an occasional step back
        dirs = [[1] * d if k % 5 else [rng.randint(0, 1) for _ in range(d)] for k in range(steps)]
    else:
        dirs = [[rng.randint(0, 1) for _ in range(d)] for _ in range(steps)]
    return {"kind": "deepchain", "d": d, "m": 2, "max_depth": md, "dirs": dirs, "guarded": int(guarded),
            "pattern": pattern}


def run_deep(ctx, case):
    from harness.props import c18
    from vopy.design_space import AdaptivelyDiscretizedDesignSpace

    d, m, md = case["d"], case["m"], case["max_depth"]
    ctx.count("deep_pattern_" + case["pattern"])
    ctx.count(f"deep_d{d}")
    ds = AdaptivelyDiscretizedDesignSpace(d, m, c18.DELTA, md)
    stub = c18.scripted_gp_class()(d, m)
    scale = np.ones(m)
    tokens, answers, refined = [], [], []
    cur, viol = 0, None
    for bits in case["dirs"]:
        try:
            if case["guarded"]:
                stub.forced_std = 0.0
                ans = bool(ds.should_refine_design(stub, cur, scale))
                stub.forced_std = None
                answers.append(ans)
                tokens.append(f"Q:{cur}:1")
                if not ans:
                    break
            else:
                tokens.append(f"R:{cur}")
            before = len(ds.points)
            kids = [int(k) for k in ds.refine_design(cur)]
        except Exception as e:
            viol = ("space-crash:" + core.exc_key(e), f"refining node {cur} (depth {ds.point_depths[cur]}) raised "
                    f"{type(e).__name__}: {e}")
            break
        refined.append(cur)
        if kids != list(range(before, before + 2 ** d)) or len(ds.points) != before + 2 ** d:
            viol = ("child-indices", f"refine_design({cur}) at depth {ds.point_depths[cur]} returned {kids}; the arrays "
                    f"grew from {before} to {len(ds.points)} entries instead of by 2^{d} new nodes")
            break
        try:
            snap = c18.snapshot(ds)
        except Exception as e:
            viol = ("arrays-out-of-step", f"design-space arrays cannot be read: {type(e).__name__}: {e}")
            break
        viol = c18.check_arrays(snap, d) or c18.check_children(snap, cur, kids, d)
        if viol:
            break
        off = 0
        for b in bits:
            off = 2 * off + int(b)
        cur = kids[off]
    if viol is None:
        snap = c18.snapshot(ds)
        n = len(snap["points"])
        rset = set(refined)
        leaves = [j for j in range(n) if j not in rset]
        viol = c18.check_arrays(snap, d) or c18.check_tiling(snap, leaves, d)
        if viol is None and case["guarded"] and max(snap["depths"]) > md:
            viol = ("depth-exceeds-max", f"a node has depth {max(snap['depths'])} > max_depth {md}")
        if viol is None and len({tuple(p) for p in snap["points"]}) != n:
            viol = ("points-not-distinct", "two nodes of the tree share a point")
    if viol:
        ctx.violation(viol[0], viol[1], case, kind="R")
        ctx.case_done(case, True)
        return
    ans = ctx.ask("space", str(d), str(m), str(md), ";".join(tokens) if tokens else "_")
    if not ans.startswith("ok "):
        ctx.violation("space-model-undefined", f"model answers {ans!r} on an operation sequence the code executed",
                      case, kind="F")
    else:
        f = ans.split(" ")[1:]
        where = c18.diff_space(snap, c18.parse_space(f))
        if where:
            ctx.violation("space-arrays", f"design-space arrays differ from the model replay at {where}", case, kind="F")
        elif core.parse_bools(f[5]) != answers:
            ctx.violation("space-should-refine", "should_refine_design answers differ from the model", case, kind="F")
        elif core.parse_nats(f[6]) != leaves or f[7] != "1":
            ctx.violation("space-leaves", "leaf set differs from the model", case, kind="F")
    ctx.count("deep_maxdepth_reached_%d" % max(snap["depths"]))
    ctx.case_done(case, len(refined) >= 2)


# ------------------------------------------------------------------------------------------ scripted rounds
_table_cls = {}


def table_gp_class():
    if "c" in _table_cls:
        return _table_cls["c"]
    from vopy.models.model import GPModel

    class TableGP(GPModel):
        """Posterior by position: points strictly inside `victim` (a box) are far below everything and very
        uncertain; all other points get pairwise incomparable means (g, -g, …) and a small std."""

        def __init__(self, in_dim, out_dim, victim, std, victim_std):
            super().__init__()
            self.in_dim, self.out_dim = in_dim, out_dim
            self.victim = victim
            self.std, self.victim_std = std, victim_std
            self.n = 1

        def add_sample(self, X_t, Y_t):
            self.n += len(X_t)

        def update(self):
            pass

        def train(self):
            pass

        def predict(self, test_X):
            X = np.asarray(test_X, dtype=float)[:, : self.in_dim]
            mus, covs = [], []
            for x in X:
                inside = all(lo < xi < hi for xi, (lo, hi) in zip(x, self.victim))
                if inside:
                    mu, sd = np.full(self.out_dim, -1048576.0), self.victim_std
                else:
                    g = 0.0
                    for xi in x:            # injective on the dyadic grid down to 2^-6
                        g = 64.0 * g + 64.0 * xi
                    mu = np.array([g if k % 2 == 0 else -g for k in range(self.out_dim)])
                    sd = self.std
                mus.append(mu)
                covs.append(np.eye(self.out_dim) * sd ** 2)
            return np.array(mus), np.array(covs)

        def evaluate_kernel(self, X=None):
            return np.eye(self.n)

        def get_lengthscale_and_var(self):
            return np.ones(self.out_dim), np.ones(self.out_dim)

        def get_kernel_type(self):
            return "RBF"

    _table_cls["c"] = TableGP
    return TableGP


def gen_round(ctx, rng, j):
    d = [2, 1, 2][j % 3]
    depth_max = rng.choice([2, 3, 3, 4] if d == 2 else [3, 4, 5])
    # victim cell: a grid cell of depth 2 or 3 (a child or grandchild of the root)
    k = rng.choice([2, 2, 2, 3]) if depth_max >= 3 else 2
    side = 1.0 / 2 ** (k - 1)
    victim = []
    for _ in range(d):
        a = rng.randrange(2 ** (k - 1))
        victim.append([a * side, (a + 1) * side])
    return {"kind": "round", "d": d, "depth_max": depth_max, "victim": victim,
            "std": rng.choice([0.125, 0.25, 0.5]), "victim_std": rng.choice([2.0, 4.0, 8.0]),
            "eps": rng.choice([0.01, 0.1]), "contraction": rng.choice([4, 32]), "rounds": 8, "seed": rng.randrange(10 ** 6)}


def run_round(ctx, case):
    from harness.props import c18
    import vopy.algorithms.vogp_ad as vad

    d, dmax = case["d"], case["depth_max"]
    np.random.seed(case["seed"])
    spec = {"name": "quad", "noise_var": 0.01, "depth_max": dmax,
            "A": [[1.0] * d, [2.0] * d], "T": [[0.25] * d, [0.75] * d], "C": [0.0, 0.0]}
    gp = table_gp_class()(d, 2, [tuple(b) for b in case["victim"]], case["std"], case["victim_std"])
    saved = vad.get_gpytorch_model_w_known_hyperparams
    vad.get_gpytorch_model_w_known_hyperparams = lambda *a, **k: gp
    try:
        problem = c18.make_problem(spec)
        alg = vad.VOGP_AD(case["eps"], c18.DELTA, problem, c18.make_order("comp:2"), 0.01,
                          conf_contraction=case["contraction"])
    finally:
        vad.get_gpytorch_model_w_known_hyperparams = saved
    victim = [tuple(b) for b in case["victim"]]

    def after(rec):
        ds = alg.design_space
        hit = [i for i in rec.dropped
               if all(lo < float(x) < hi for x, (lo, hi) in zip(ds.points[i], victim))]
        if hit:
            ctx.count("round_victim_discarded")
        else:
            ctx.count("round_victim_never_discarded")

    c18._observe_run(ctx, case, alg, problem, dmax, "scripted-round", "table", after=after)
