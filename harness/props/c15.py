"""C15 — GP models return the exact posterior of exactly the data they hold.

Real wrappers `IndependentExactGPyTorchModel`, `CorrelatedExactGPyTorchModel`,
`GPyTorchModelListExactModel` (built directly, hyper-parameters fixed by the harness, no training)
and the two train-and-freeze helpers (training step patched to "set these hyper-parameters") are
driven through add/update/clear/predict histories.  The Lean driver runs the same history through
the wrapper state machine `GPWrap.run` and answers every `predict` with the exact rational GP
posterior of the samples *conditioned on at the last update*, computed from Gram tables that the
harness exports exactly (float64 → num/den) from the model's own kernel modules.
"""
from __future__ import annotations

import numpy as np
import torch

from harness import core

TITLE = "GP wrappers vs exact rational posterior of the data held at the last update"
RULE = ("cases: (class ∈ {independent, correlated, model list}, input dim 1–3, objectives 2–3, scalar or "
        "full-matrix noise, fixed hyper-parameters, lattice inputs with repeats, an add/update/clear/predict "
        "history) or a train-and-freeze helper call with 0 / ≥1 initial samples; shapes: basic, stale "
        "(add without update), forget (clear+update), swap (clear, then as many other samples), eqcount_* (after a "
        "clear every objective is re-filled with exactly its previous count: other inputs / same inputs other values "
        "/ equal count for some objectives only / one sample replaced / twice; helpers with as many initial samples "
        "as training samples), streaming_* (samples handed over as torch tensors / one re-used buffer pair that the caller "
        "overwrites afterwards; every add op of every history uses one of the containers numpy f64/f32/int, torch "
        "f64/f32, re-used buffer, and the harness scribbles over its containers after add_sample and after update), "
        "stale_by_design (predict after clear / add WITHOUT update = posterior of the data "
        "at the last update), task-noise matrices full / diagonal with unequal entries / block diagonal / s·I, requery (getters queried before and after the hyper-parameters change by a train() "
        "with patched fit or by setting them, predictions under the current kernel; also on helper models), grow (variance monotone), empty, random, big "
        "(25–50 samples), single test point, perm (same multiset, other order/batching), local (model list: "
        "extra observations of one objective); non-trivial = at least one prediction compared against a "
        "posterior with ≥ 1 conditioned sample, or a helper call; distinct by the whole case")
ASSUMPTIONS = [
    "hyper-parameters in a well-conditioned range (noise ≥ 0.01, outputscale ≤ 2.5, ≤ 50 samples); values are "
    "compared at 1e-6 (relative to max(1,|value|)) only when the exact minimum pivot is ≥ 1e-7·max diagonal",
    "kernel values are taken from the model's own kernel modules (evaluate_kernel / covar_module calls in "
    "float64) and exported exactly; the kernel formula itself (exp) is not re-derived",
]
MAX_JOBS = 14

TOL = 1e-6
CLASSES = {"indep": "IndependentExactGPyTorchModel", "corr": "CorrelatedExactGPyTorchModel",
           "mlist": "GPyTorchModelListExactModel"}


def _viol(ctx, key, what, case, kind="R", detail=None):
    """one record per failure class and worker (core keeps only the first 20 records of a run, and the
    single-test-point shape defect fires on a large share of the cases); repeats are counted"""
    seen = ctx.__dict__.setdefault("_c15_seen", set())
    ctx.count("violation_hits:" + key)
    if key in seen:
        return
    seen.add(key)
    ctx.violation(key, what, case, kind=kind, detail=detail)


# ----------------------------------------------------------------------------- generation
def _rf(rng, lo, hi):
    return lo + (hi - lo) * rng.random()


def _hyp(rng, cls, d, m):
    if cls == "corr":
        return {"ls": [_rf(rng, 0.3, 1.5) for _ in range(d)],
                "B": [[_rf(rng, -1.0, 1.0) for _ in range(m)] for _ in range(m)],
                "tv": [_rf(rng, 0.1, 0.6) for _ in range(m)]}
    h = {"ls": [[_rf(rng, 0.3, 1.5) for _ in range(d)] for _ in range(m)],
         "v": [_rf(rng, 0.5, 2.5) for _ in range(m)]}
    if cls == "mlist":
        h["c"] = [_rf(rng, -1.5, 1.5) if rng.random() < 0.85 else 0.0 for _ in range(m)]
    return h


def _noise(rng, cls, m, kind=None):
    """scalar noise variance, or an m×m task-noise matrix: full (all off-diagonals non-zero), diag (diagonal with
    UNEQUAL entries — not a multiple of I), block (block diagonal: one correlated pair, the rest uncorrelated;
    for m = 2 the same as diag), sI (the matrix s·I)"""
    if cls == "mlist":
        return _rf(rng, 0.01, 0.3)
    if kind is None:
        r = rng.random()
        kind = "scalar" if r < 0.45 else "full" if r < 0.7 else "diag" if r < 0.85 else "block" if r < 0.95 else "sI"
    if kind == "scalar":
        return _rf(rng, 0.01, 0.3)
    if kind == "sI":
        sv = _rf(rng, 0.01, 0.3)
        return [[sv if i == j else 0.0 for j in range(m)] for i in range(m)]
    if kind == "diag" or (kind == "block" and m == 2):
        dg = [_rf(rng, 0.01, 0.06)] + [_rf(rng, 0.1, 0.4) for _ in range(m - 1)]   # clearly unequal
        rng.shuffle(dg)
        return [[dg[i] if i == j else 0.0 for j in range(m)] for i in range(m)]
    if kind == "block":
        a, b = rng.sample(range(m), 2)
        S = [[(_rf(rng, 0.02, 0.4) if i == j else 0.0) for j in range(m)] for i in range(m)]
        c = rng.choice([-1, 1]) * 0.6 * (S[a][a] * S[b][b]) ** 0.5
        S[a][b] = S[b][a] = c
        return S
    L = [[(_rf(rng, -0.3, 0.3) if j < i else (_rf(rng, 0.1, 0.5) if i == j else 0.0)) for j in range(m)]
         for i in range(m)]
    S = [[sum(L[i][k] * L[j][k] for k in range(m)) + (0.02 if i == j else 0.0) for j in range(m)] for i in range(m)]
    return S


def _stale_by_design_case(rng, tier, cls=None, noise_kind=None):
    """`predict` after `clear_data()` / `add_sample()` that were NOT followed by `update()`: the prediction must
    still be the posterior of the samples held at the last update (never the prior, never the pending store)."""
    cls = cls or rng.choice(["indep", "corr", "corr", "mlist"])
    d = rng.choice([1, 2, 2, 3])
    m = rng.choice([2, 2, 3])
    n1, n2 = rng.randint(1, 6), rng.randint(1, 4)
    T = rng.choice([1, 2, 3])
    n = n1 + n2
    P = _points(rng, d, n, rng.choice([3, 4])) + _points(rng, d, T, 5)
    test = list(range(n, n + T))
    samples = [([s, _val(rng), rng.randrange(m)] if cls == "mlist" else [s] + [_val(rng) for _ in range(m)])
               for s in range(n)]
    g1, g2 = list(range(n1)), list(range(n1, n))
    case = {"kind": "direct", "cls": cls, "d": d, "m": m, "noise": _noise(rng, cls, m, noise_kind),
            "hyp": _hyp(rng, cls, d, m), "P": P, "samples": samples, "shape": "stale_by_design",
            "xcol": rng.random() < 0.3, "mono": False}
    A = lambda sub: _add_ops(rng, cls, samples, sub)  # noqa: E731
    pred = [3] + test
    ops = A(g1) + [[2], pred, [1], pred]                      # cleared but not updated: still the posterior of g1
    v = rng.choice(["readd", "addonly", "both"])
    if v in ("readd", "both"):
        ops += A(g2) + [pred, [2], pred]                      # pending g2 invisible until the update
    if v in ("addonly", "both"):
        ops += A(g1[:1]) + [pred, [1], pred]                  # add without update, then clear without update
    case["ops"] = ops
    return case


def _points(rng, d, n, p):
    return [[core.dyadic(rng, 0, 2 ** p, p) for _ in range(d)] for _ in range(n)]


def _batches(rng, ids):
    """split a list of sample ids into consecutive batches (possibly empty ones)"""
    out, i = [], 0
    while i < len(ids):
        k = rng.choice([1, 1, 2, 3, 5, 8, len(ids)])
        out.append(ids[i:i + k])
        i += k
    if rng.random() < 0.15:
        out.insert(rng.randrange(len(out) + 1), [])
    return out


def _add_ops(rng, cls, samples, ids):
    """add ops for the given sample ids (model list: list routing, or int routing per objective)"""
    ops = []
    if cls != "mlist":
        return [[0] + b for b in _batches(rng, ids)]
    if rng.random() < 0.4:
        # integer dim_index: one objective per batch
        for b in _batches(rng, ids):
            objs = sorted({samples[s][2] for s in b})
            if not objs:
                ops.append([0])
            for j in objs:
                ops.append([4, j] + [s for s in b if samples[s][2] == j])
    else:
        ops = [[0] + b for b in _batches(rng, ids)]
    return ops


def _val(rng):
    return core.dyadic(rng, -24, 24, 3) if rng.random() < 0.5 else rng.gauss(0, 1.5)


def _eqcount_case(rng, tier, cls=None, variant=None):
    """The data change while the counts stay equal: after `clear_data()` (or by clear + re-add with one sample
    replaced) every objective / the wrapper holds exactly as many samples as it was last conditioned on.
    variants: newpts (other inputs and values), samepts (same inputs, other values), mixed (model list: equal
    count for some objectives, other counts for the rest; multi-output: some rows kept, some replaced),
    replace1 (exactly one sample replaced), twice (two successive equal-count replacements)."""
    cls = cls or rng.choice(["indep", "corr", "mlist", "mlist"])
    variant = variant or rng.choice(["newpts", "samepts", "mixed", "replace1", "twice"])
    d = rng.choice([1, 2, 2, 3])
    m = rng.choice([2, 2, 3])
    k = rng.randint(1, 6)
    T = rng.choice([1, 2, 3])
    npts = 2 * k + 2
    P = _points(rng, d, npts, rng.choice([3, 4])) + _points(rng, d, T, 5)
    test = list(range(npts, npts + T))
    samples = []

    def new_sample(pid, obj):
        samples.append([pid, _val(rng), obj] if cls == "mlist" else [pid] + [_val(rng) for _ in range(m)])
        return len(samples) - 1

    def other_value(s):
        """a sample at the same input (and objective) whose value(s) differ"""
        t = list(samples[s])
        if cls == "mlist":
            t[1] = t[1] + rng.choice([-2.0, -0.75, 0.5, 1.25])
        else:
            t[1:] = [v + rng.choice([-2.0, -0.75, 0.5, 1.25]) for v in t[1:]]
        samples.append(t)
        return len(samples) - 1

    objs = [rng.randrange(m) for _ in range(k)]
    if cls == "mlist" and variant == "mixed" and len(set(objs)) < 2 and k >= 1:
        objs.append((objs[0] + 1) % m)
    g1 = [new_sample(i % npts, objs[i]) for i in range(len(objs))]

    def replacement(group, var):
        if var == "newpts":
            return [new_sample((samples[s][0] + k + 1) % npts, samples[s][2] if cls == "mlist" else 0) for s in group]
        if var == "samepts":
            return [other_value(s) for s in group]
        if var == "replace1":
            r = rng.randrange(len(group))
            return [other_value(s) if i == r else s for i, s in enumerate(group)]
        # mixed
        if cls == "mlist":
            keep = samples[group[0]][2]          # this objective keeps its count, the others change theirs
            out = [other_value(s) for s in group if samples[s][2] == keep]
            rest = [s for s in group if samples[s][2] != keep]
            out += [other_value(s) for s in rest[1:]]                     # one fewer …
            if rng.random() < 0.5:
                out += [new_sample(rng.randrange(npts), samples[rest[0]][2]) for _ in range(2)]  # … or one more
            return out
        return [other_value(s) if rng.random() < 0.6 else s for s in group[:-1]] + [other_value(group[-1])]

    case = {"kind": "direct", "cls": cls, "d": d, "m": m, "noise": _noise(rng, cls, m), "hyp": _hyp(rng, cls, d, m),
            "P": P, "samples": samples, "shape": "eqcount_" + variant, "xcol": rng.random() < 0.3, "mono": False}
    A = lambda sub: _add_ops(rng, cls, samples, sub)  # noqa: E731
    pred = [3] + test
    g2 = replacement(g1, "newpts" if variant == "twice" else variant)
    if rng.random() < 0.5:
        rng.shuffle(g2)
    ops = A(g1) + [[2], pred, [1]] + A(g2) + [[2], pred]
    if variant == "twice":
        g3 = replacement(g2, "samepts")
        ops += [[1]] + A(g3) + [[2], pred]
    case["ops"] = ops
    return case


def _requery_case(rng, tier, cls=None):
    """getters queried repeatedly with state changes in between: update → query → other hyper-parameters (a real
    train() with the patched fit `[7, i]`, or set on the kernel modules `[6, i]` followed by update) → query →
    add/update → query …; `[5]` = query get_lengthscale_and_var / get_kernel_type / evaluate_kernel.  Every
    prediction is compared with the exact posterior under the kernel current at that moment."""
    cls = cls or rng.choice(["indep", "corr", "mlist"])
    d = rng.choice([1, 2, 2, 3])
    m = rng.choice([2, 2, 3])
    n = rng.randint(2, 8)
    T = rng.choice([1, 2, 3])
    P = _points(rng, d, n, rng.choice([3, 4])) + _points(rng, d, T, 5)
    test = list(range(n, n + T))
    samples = [([s % n, _val(rng), rng.randrange(m)] if cls == "mlist" else [s % n] + [_val(rng) for _ in range(m)])
               for s in range(n)]
    ids = list(range(n))
    case = {"kind": "direct", "cls": cls, "d": d, "m": m, "noise": _noise(rng, cls, m), "hyp": _hyp(rng, cls, d, m),
            "hyps": [_hyp(rng, cls, d, m) for _ in range(3)], "P": P, "samples": samples, "shape": "requery",
            "xcol": rng.random() < 0.3, "mono": False}
    A = lambda sub: _add_ops(rng, cls, samples, sub)  # noqa: E731
    pred = [3] + test
    change = lambda i: ([[7, i]] if rng.random() < 0.5 else [[6, i], [2]])  # noqa: E731
    k = rng.randint(0, n)
    ops = A(ids[:k]) + [[2], [5]] + ([pred] if rng.random() < 0.7 else []) + change(0) + [[5], pred]
    ops += A(ids[k:]) + [[2], [5], pred]
    if rng.random() < 0.6:
        ops += change(1) + [[5], pred]
    if rng.random() < 0.4:
        ops += [[1], [2], [5]] + change(2) + [[5], pred]
    case["ops"] = ops
    return case


def _assign_conts(rng, case):
    """one container kind per add op (numpy float64 / float32 / int targets, torch float64 / float32, re-used
    streaming buffers); values of batches that go through 32-bit or integer containers are rounded in the log so
    that the container holds them exactly"""
    if "conts" in case:
        return case
    adds = [op for op in case["ops"] if op[0] in (0, 4)]
    conts = [rng.choice(["np64", "np64", "t64", "t64", "t64", "buf64", "buf64", "t32", "np32", "buf32", "npintY"])
             for _ in adds] or ["np64"]
    mlist = case["cls"] == "mlist"
    for kinds, rnd in ((("npintY",), lambda v: float(round(v))),
                       (("np32", "t32", "buf32"), lambda v: float(np.float32(v)))):
        for op, kd in zip(adds, conts):
            if kd in kinds:
                for sid in (op[1:] if op[0] == 0 else op[2:]):
                    smp = case["samples"][sid]
                    if mlist:
                        smp[1] = rnd(smp[1])
                    else:
                        smp[1:] = [rnd(v) for v in smp[1:]]
    case["conts"] = conts
    return case


def _streaming_case(rng, tier, cls, variant):
    """The caller hands its samples over as torch tensors it keeps using:
    buffer — three equal-size batches through ONE pre-allocated X / Y tensor pair (first batches of that objective /
    of the wrapper; model list: integer dim_index), compared with the same samples added in one fresh batch;
    empty_update — update() without samples, then the first observations as torch tensors, update, the caller
    rescales its tensors, predict at one point; after_clear — the same for the first batch after clear_data()."""
    d = rng.choice([1, 2, 2, 3])
    m = rng.choice([2, 2, 3])
    k = rng.randint(2, 4)
    n0 = rng.randint(1, 4)
    T = 1 if variant == "empty_update" else rng.choice([1, 2, 3])
    n = n0 + 3 * k
    P = _points(rng, d, n, 4) + _points(rng, d, T, 5)
    test = list(range(n, n + T))
    j1 = rng.randrange(m)
    j0 = (j1 + 1) % m
    samples = []
    for sid in range(n):
        if cls == "mlist":
            samples.append([sid, _val(rng), j0 if sid < n0 else j1])
        else:
            samples.append([sid] + [_val(rng) for _ in range(m)])
    first = list(range(n0))
    B = [list(range(n0 + i * k, n0 + (i + 1) * k)) for i in range(3)]
    add = (lambda j, b: [4, j] + b) if cls == "mlist" else (lambda j, b: [0] + b)
    pred = [3] + test
    case = {"kind": "direct", "cls": cls, "d": d, "m": m, "noise": _noise(rng, cls, m), "hyp": _hyp(rng, cls, d, m),
            "P": P, "samples": samples, "shape": "streaming_" + variant, "xcol": rng.random() < 0.3, "mono": False}
    buf = rng.choice(["buf64", "buf64", "buf32"])
    ten = rng.choice(["t64", "t64", "t32"])
    if buf == "buf32" or ten == "t32":
        for smp in samples:
            smp[1:2 if cls == "mlist" else None] = [float(np.float32(v)) for v in smp[1:2 if cls == "mlist" else None]]
    if variant == "buffer":
        if cls == "mlist":
            case["ops"] = [add(j0, first)] + [add(j1, b) for b in B] + [[2], pred]
            case["conts"] = [ten, buf, buf, buf]
            case["alt_ops"] = [add(j0, first), add(j1, B[0] + B[1] + B[2]), [2], pred]
        else:
            case["ops"] = [add(0, b) for b in B] + [add(0, first), [2], pred]
            case["conts"] = [buf, buf, buf, ten]
            case["alt_ops"] = [add(0, B[0] + B[1] + B[2] + first), [2], pred]
    elif variant == "empty_update":
        case["ops"] = [[2], pred, add(j1, B[0] + B[1]), [2], pred, add(j1, B[2]), [2], pred]
        case["conts"] = [ten, buf]
    else:  # after_clear
        case["ops"] = [add(j0, first), add(j1, B[0]), [2], pred, [1], add(j1, B[1]), add(j1, B[2]), [2], pred]
        case["conts"] = ["np64", "np64", ten, buf]
    return case


def _direct_case(rng, tier, shape=None, cls=None, noise_kind=None, m=None):
    if shape is not None and shape.startswith("streaming"):
        return _streaming_case(rng, tier, cls or rng.choice(["indep", "corr", "mlist"]), shape.split("_", 1)[1])
    return _assign_conts(rng, _direct_case0(rng, tier, shape=shape, cls=cls, noise_kind=noise_kind, m=m))


def _direct_case0(rng, tier, shape=None, cls=None, noise_kind=None, m=None):
    if shape == "stale_by_design":
        return _stale_by_design_case(rng, tier, cls=cls, noise_kind=noise_kind)
    if shape == "requery":
        return _requery_case(rng, tier, cls=cls)
    if shape is not None and shape.startswith("eqcount"):
        return _eqcount_case(rng, tier, cls=cls, variant=shape.split("_", 1)[1] if "_" in shape else None)
    cls = cls or rng.choice(["indep", "indep", "corr", "corr", "mlist", "mlist"])
    d = rng.choice([1, 2, 2, 3])
    m = m or rng.choice([2, 2, 3])
    shape = shape or rng.choice(["basic", "stale", "forget", "grow", "empty", "random", "big", "single", "perm",
                                 "local", "repeat", "swap", "eqcount", "eqcount", "requery", "stale_by_design",
                                 "streaming"])
    if shape == "streaming":
        return _streaming_case(rng, tier, cls, rng.choice(["buffer", "empty_update", "after_clear"]))
    if shape == "stale_by_design":
        return _stale_by_design_case(rng, tier, cls=cls)
    if shape == "eqcount":
        return _eqcount_case(rng, tier, cls=cls)
    if shape == "requery":
        return _requery_case(rng, tier, cls=cls)
    if shape == "local" and cls != "mlist":
        shape = "perm"
    lat = rng.choice([2, 3, 4])
    if shape == "big":
        n = rng.randint(25, 50)
        if cls == "corr" or True:
            # joint systems (correlated; independent with a noise matrix) are n·m unknowns: keep most
            # of them moderate, the 50-sample ones rarer
            if rng.random() < (0.7 if tier == "quick" else 0.4):
                n = rng.randint(25, 34)
    elif shape == "empty":
        n = rng.randint(0, 3)
    else:
        n = rng.randint(1, 12)
    T = 1 if shape == "single" else rng.choice([1, 2, 3, 4])
    npts = max(1, n if shape != "repeat" else max(1, n // 2))
    P = _points(rng, d, npts, lat) + _points(rng, d, T, 5)
    test = list(range(npts, npts + T))
    samples = []
    for s in range(n):
        pid = rng.randrange(npts) if shape == "repeat" or rng.random() < 0.15 else s % npts
        if cls == "mlist":
            samples.append([pid, core.dyadic(rng, -24, 24, 3) if rng.random() < 0.5 else rng.gauss(0, 1.5),
                            rng.randrange(m)])
        else:
            samples.append([pid] + [core.dyadic(rng, -24, 24, 3) if rng.random() < 0.5 else rng.gauss(0, 1.5)
                                    for _ in range(m)])
    ids = list(range(n))
    case = {"kind": "direct", "cls": cls, "d": d, "m": m, "noise": _noise(rng, cls, m, noise_kind),
            "hyp": _hyp(rng, cls, d, m), "P": P, "samples": samples, "shape": shape, "xcol": rng.random() < 0.3,
            "mono": False}
    A = lambda sub: _add_ops(rng, cls, samples, sub)  # noqa: E731
    pred = [3] + test
    if shape in ("basic", "big", "single", "repeat"):
        ops = A(ids) + [[2], pred]
    elif shape == "stale":
        k = rng.randint(0, n)
        ops = A(ids[:k]) + [[2]] + A(ids[k:]) + [pred, [2], pred]
    elif shape == "forget":
        k = rng.randint(0, n)
        ops = A(ids[:k]) + [[2], pred, [1]] + ([pred] if rng.random() < 0.5 else []) + [[2], pred] + A(ids[k:]) + [[2], pred]
    elif shape == "grow":
        cuts = sorted(rng.randint(0, n) for _ in range(rng.randint(1, 3)))
        ops, lo = [[2], pred], 0
        for c in cuts + [n]:
            ops += A(ids[lo:c]) + [[2], pred]
            lo = c
        case["mono"] = True
    elif shape == "swap":
        # replace the data by as many other samples (same size, other values / inputs)
        h = n // 2
        ops = A(ids[:h]) + [[2], pred, [1]] + A(ids[h:2 * h]) + [[2], pred] + A(ids[2 * h:]) + [[2], pred]
    elif shape == "empty":
        ops = [[2], pred] + A(ids) + [[1], [2], pred]
    elif shape == "random":
        ops, pool, started = [], list(ids), False
        for _ in range(rng.randint(3, 10)):
            r = rng.random()
            if r < 0.4 and pool:
                k = rng.randint(1, min(4, len(pool)))
                ops += A(pool[:k])
                pool = pool[k:]
            elif r < 0.65:
                ops.append([2])
                started = True
            elif r < 0.75:
                ops.append([1])
            elif started:
                ops.append(pred)
        ops += [[2], pred]
    elif shape == "perm":
        ops = A(ids) + [[2], pred]
        sh = list(ids)
        rng.shuffle(sh)
        case["alt_ops"] = A(sh) + [[2], pred]
    elif shape == "local":
        j = rng.randrange(m)
        extra = [s for s in ids if samples[s][2] == j and rng.random() < 0.6]
        if not extra:
            samples.append([rng.randrange(npts), rng.gauss(0, 1.0), j])
            extra = [len(samples) - 1]
        base = [s for s in ids if s not in extra]
        ops = A(base) + [[2], pred]
        case["alt_ops"] = A(base) + [[2]] + A(extra) + [[2], pred]
        case["local_obj"] = j
    case["ops"] = ops
    return case


def _helper_case(rng, tier, helper=None, k=None, eqcount=False):
    helper = helper or rng.choice(["mo", "mo", "mlist"])
    cls = "mlist" if helper == "mlist" else rng.choice(["indep", "corr"])
    d = rng.choice([1, 2, 3])
    m = rng.choice([2, 3])
    n = rng.randint(2, 5) if eqcount else rng.randint(3, 14)
    T = rng.choice([1, 2, 3])
    k = rng.choice([0, 0, 1, 2, 5]) if k is None else k
    X = _points(rng, d, n, 3)
    Y = [[core.dyadic(rng, -24, 24, 3) for _ in range(m)] for _ in range(n)]
    np_seed = rng.randrange(2 ** 31)
    shape = "helper"
    if eqcount:
        # the initial samples number exactly what the hyper-parameters were trained on: the whole wrapper (k = n,
        # multi-output helper) or at least one objective of the model list (k = n·m and a numpy seed under which the
        # helper's own `np.random.choice(n·m, k)` gives some objective exactly n picks — the generator only steers
        # the seed; run_case reads the initial samples from the returned model)
        shape = "helper_eqcount"
        if helper == "mlist":
            k = n * m
            for _ in range(200):
                np.random.seed(np_seed)
                picks = np.random.choice(n * m, k) % m
                if any(int((picks == j).sum()) == n for j in range(m)):
                    break
                np_seed = rng.randrange(2 ** 31)
        else:
            k = n
    return {"kind": "helper", "helper": helper, "cls": cls, "d": d, "m": m, "noise": _noise(rng, cls, m),
            "hyp": _hyp(rng, cls, d, m), "X": X, "Y": Y, "test": _points(rng, d, T, 5), "k": k,
            "np_seed": np_seed, "shape": shape, "hyp2": _hyp(rng, cls, d, m),
            "rechange": rng.choice(["train", "train", "set"])}


def gen(ctx):
    rng = ctx.rng
    # structured first: every (class, shape) once, every helper with 0 and ≥ 1 initial samples
    structured = []
    for cls in ["indep", "corr", "mlist"]:
        for shape in ["basic", "single", "stale", "forget", "grow", "empty", "perm", "repeat", "random", "swap"]:
            structured.append(("d", cls, shape))
        structured.append(("d", cls, "local" if cls == "mlist" else "perm"))
        for variant in ["newpts", "samepts", "mixed", "replace1", "twice"]:
            structured.append(("d", cls, "eqcount_" + variant))
        structured.append(("d", cls, "requery"))
        structured.append(("d", cls, "requery"))
        structured.append(("d", cls, "stale_by_design"))
        structured.append(("d", cls, "stale_by_design"))
        for variant in ["buffer", "empty_update", "after_clear"]:
            structured.append(("d", cls, "streaming_" + variant))
        if cls != "mlist":
            # task-noise matrices without / with only some off-diagonal entries
            for nk, mm, sh in [("diag", 2, "basic"), ("diag", 3, "grow"), ("block", 3, "stale"), ("sI", 2, "swap")]:
                structured.append(("dn", cls, sh, nk, mm))
            structured.append(("dn", cls, "stale_by_design", "diag", None))
    for h in ["mo", "mo", "mlist"]:
        for k in [0, 3]:
            structured.append(("h", h, k))
    for h in ["mo", "mlist", "mlist"]:
        structured.append(("h", h, "eq"))
    big = [("d", cls, "big") for cls in ["indep", "corr", "mlist"]]
    k = 0
    for item in structured + big:
        k += 1
        if k % ctx.nworkers != ctx.worker:
            continue
        if item[0] == "d":
            yield _direct_case(rng, ctx.tier, shape=item[2], cls=item[1])
        elif item[0] == "dn":
            yield _direct_case(rng, ctx.tier, shape=item[2], cls=item[1], noise_kind=item[3], m=item[4])
        else:
            if item[2] == "eq":
                yield _helper_case(rng, ctx.tier, helper=item[1], eqcount=True)
            else:
                yield _helper_case(rng, ctx.tier, helper=item[1], k=item[2])
    for _ in range(ctx.n(110, 4000)):
        if rng.random() < 0.2:
            yield _helper_case(rng, ctx.tier, eqcount=rng.random() < 0.25)
        else:
            yield _direct_case(rng, ctx.tier)


# ----------------------------------------------------------------------------- real code plumbing
def _vg():
    from vopy.models import gpytorch as vg
    return vg


def _set_hyp_gp(gp, cls, hyp, d, m):
    """fix the hyper-parameters of a gpytorch model object (ExactGP or IndependentModelList)"""
    t = lambda a: torch.tensor(a, dtype=torch.float64)  # noqa: E731
    if cls == "indep":
        gp.covar_module.base_kernel.lengthscale = t(hyp["ls"]).reshape(m, 1, d)
        gp.covar_module.outputscale = t(hyp["v"])
    elif cls == "corr":
        gp.covar_module.data_covar_module.lengthscale = t(hyp["ls"]).reshape(1, d)
        gp.covar_module.task_covar_module.covar_factor.data = t(hyp["B"])
        gp.covar_module.task_covar_module.var = t(hyp["tv"])
    else:
        for j, g in enumerate(gp.models):
            g.covar_module.base_kernel.lengthscale = t(hyp["ls"][j]).reshape(1, d)
            g.covar_module.outputscale = t(hyp["v"][j])
            if hasattr(g.mean_module, "constant"):
                g.mean_module.constant = t(hyp["c"][j])


def _consts(model, cls, m):
    """the model's own mean constants (zero-mean modules for the multi-output wrappers)"""
    if cls != "mlist":
        return [0.0] * m
    out = []
    for g in model.model.models:
        c = getattr(g.mean_module, "constant", None)
        out.append(float(c.detach().reshape(-1)[0]) if c is not None else 0.0)
    return out


def _tables(model, cls, P, m):
    """Gram tables over the point list P from the model's own kernel modules (exact export)"""
    Pt = np.asarray(P, dtype=float)
    with torch.no_grad():
        if cls == "indep":
            K = np.asarray(model.evaluate_kernel(Pt))  # (m, P, P)
            return [K[j] for j in range(m)]
        if cls == "corr":
            return [np.asarray(model.evaluate_kernel(Pt))]  # (P·m, P·m), index pid·m + task
        Xt = torch.tensor(Pt, dtype=torch.float64)
        return [g.covar_module(Xt, Xt).to_dense().numpy(force=True) for g in model.model.models]


def _with_xcol(X, xcol):
    X = np.asarray(X, dtype=float).reshape(len(X), -1)
    if xcol:
        X = np.hstack([X, np.arange(len(X), dtype=float).reshape(-1, 1) + 7.0])
    return X


CONTAINERS = ["np64", "np32", "npintY", "t64", "t32", "buf64", "buf32"]


def _exact32(a):
    a = np.asarray(a, dtype=np.float64)
    return bool(np.array_equal(a.astype(np.float32).astype(np.float64), a))


def _scribble(c):
    """the caller re-uses / edits its own container in place after handing it to the model"""
    if isinstance(c, torch.Tensor):
        if c.numel():
            c.mul_(-7).add_(3)
    elif c.size:
        np.multiply(c, -7, out=c)
        np.add(c, 3, out=c)


def _np_view(c):
    return c.detach().numpy() if isinstance(c, torch.Tensor) else c


def _stores(model, cls):
    """every array the wrapper or its gpytorch model keeps as training data (numpy views, no copies)"""
    out = []
    if cls == "mlist":
        out += [t for t in model.train_inputs] + [t for t in model.train_targets]
        if model.model is not None:
            for g in model.model.models:
                out += list(g.train_inputs or []) + ([g.train_targets] if g.train_targets is not None else [])
    else:
        out += [model.train_inputs, model.train_targets]
        if model.model is not None:
            out += list(model.model.train_inputs or []) + \
                ([model.model.train_targets] if model.model.train_targets is not None else [])
    return [_np_view(t) for t in out if isinstance(t, torch.Tensor)]


def _check_alias(ctx, case, model, cls, handed, when):
    """(F) the model's store must be the model's own memory, not the caller's container"""
    for st in _stores(model, cls):
        if st.size == 0:
            continue
        for c in handed:
            v = _np_view(c)
            if v.size and np.may_share_memory(st, v):
                _viol(ctx, f"store-aliases-caller-buffer:{CLASSES[cls]}",
                      f"after {when} the training data kept by {CLASSES[cls]} share memory with a container the caller "
                      "passed to add_sample (the samples change when the caller re-uses or edits its buffer)", case, kind="F")
                return


class _Run:
    """one real model driven through a history"""

    def __init__(self, case, ctx=None):
        vg = _vg()
        cls, d, m = case["cls"], case["d"], case["m"]
        self.case, self.cls, self.d, self.m, self.ctx = case, cls, d, m, ctx
        noise = case["noise"]
        nz = np.asarray(noise, dtype=float) if isinstance(noise, list) else float(noise)
        self.model = getattr(vg, CLASSES[cls])(d, m, nz)
        self.hyp_set = False
        self.preds = []
        self.pred_phase = []     # kernel phase of every predict op
        self.phases = []         # (tables, consts) after every change of the hyper-parameters
        self.reports = []        # earlier answers of get_lengthscale_and_var
        self.handed = []         # every container handed to add_sample (the caller keeps them and writes to them)
        self.bufs = {}           # streaming buffers: one pre-allocated X / Y tensor per (kind, shape), re-used
        self.n_add = 0

    def _containers(self, X, Y):
        """X, Y (float64 numpy, the harness's own log) in the container kind of this add op.  Kinds that cannot hold
        the values exactly fall back to 64 bit, so the log stays the truth."""
        conts = self.case.get("conts") or ["np64"]
        kind = conts[self.n_add % len(conts)]
        self.n_add += 1
        if kind in ("np32", "t32", "buf32") and not (_exact32(X) and _exact32(Y)):
            kind = {"np32": "np64", "t32": "t64", "buf32": "buf64"}[kind]
        if kind == "npintY" and not np.array_equal(np.round(Y), Y):
            kind = "np64"
        if self.ctx is not None:
            self.ctx.count("container_" + kind)
        if kind == "np64":
            return X.copy(), Y.copy(), False
        if kind == "np32":
            return X.astype(np.float32), Y.astype(np.float32), False
        if kind == "npintY":
            return X.copy(), Y.astype(np.int64), False
        dt = torch.float32 if kind.endswith("32") else torch.float64
        if kind.startswith("t"):
            return torch.tensor(X, dtype=dt), torch.tensor(Y, dtype=dt), False
        key = (kind, X.shape, Y.shape)
        if key not in self.bufs:
            self.bufs[key] = (torch.empty(X.shape, dtype=dt), torch.empty(Y.shape, dtype=dt))
        bx, by = self.bufs[key]
        bx.copy_(torch.tensor(X, dtype=dt))      # overwrites the previous batch that went through this buffer
        by.copy_(torch.tensor(Y, dtype=dt))
        return bx, by, True

    def _new_phase(self, P):
        self.phases.append((_tables(self.model, self.cls, P, self.m), _consts(self.model, self.cls, self.m)))

    def apply(self, op, P, samples, xcol):
        cls, d, m = self.cls, self.d, self.m
        if op[0] in (0, 4):
            ss = op[1:] if op[0] == 0 else op[2:]
            X = _with_xcol([P[samples[s][0]] for s in ss], xcol) if ss else np.zeros((0, d + (1 if xcol else 0)))
            if cls == "mlist":
                Y = np.array([samples[s][1] for s in ss], dtype=float)
                idx = [int(samples[s][2]) for s in ss] if op[0] == 0 else int(op[1])
                Xc, Yc, is_buf = self._containers(X, Y)
                self.model.add_sample(Xc, Yc, idx)
            else:
                Y = np.array([samples[s][1:] for s in ss], dtype=float).reshape(len(ss), m)
                Xc, Yc, is_buf = self._containers(X, Y)
                self.model.add_sample(Xc, Yc)
            if not any(Xc is h for h in self.handed):
                self.handed += [Xc, Yc]
            if self.ctx is not None:
                _check_alias(self.ctx, self.case, self.model, cls, self.handed, "add_sample")
            if not is_buf:          # a streaming buffer is overwritten by its next batch (and after update())
                _scribble(Xc)
                _scribble(Yc)
        elif op[0] == 1:
            self.model.clear_data()
        elif op[0] == 2:
            self.model.update()
            if self.ctx is not None:
                _check_alias(self.ctx, self.case, self.model, cls, self.handed, "update")
            for c in self.handed:   # … and the caller edits all its containers again after the update
                _scribble(c)
            if not self.hyp_set:
                _set_hyp_gp(self.model.model, cls, self.case["hyp"], d, m)
                self.hyp_set = True
                self._new_phase(P)
        elif op[0] == 3:
            Xt = _with_xcol([P[p] for p in op[1:]], xcol and cls != "mlist")
            self.pred_phase.append(len(self.phases) - 1)
            try:
                mu, var = self.model.predict(Xt)
                self.preds.append(("ok", np.asarray(mu), np.asarray(var)))
            except Exception as e:  # noqa: BLE001
                self.preds.append(("exc", e, None))
        elif op[0] == 5:
            # query every getter; each answer must describe the kernel as it is NOW
            _check_getters(self.ctx, self.case, self.model, CLASSES[cls], P, self.reports)
        elif op[0] == 6:
            # the user sets other hyper-parameters on the kernel modules (an update() follows in the history:
            # gpytorch itself caches the prediction strategy until set_train_data / train())
            _set_hyp_gp(self.model.model, cls, self.case["hyps"][op[1]], d, m)
            self._new_phase(P)
        elif op[0] == 7:
            # a real `train()` whose optimiser step is "the optimum is at these hyper-parameters"
            vg = _vg()
            hyp = self.case["hyps"][op[1]]
            saved = vg.fit_gpytorch_mll

            def fake_fit(mll, *a, **kw):
                _set_hyp_gp(mll.model, cls, hyp, d, m)
                return mll
            vg.fit_gpytorch_mll = fake_fit
            try:
                self.model.train()
            finally:
                vg.fit_gpytorch_mll = saved
            self._new_phase(P)


def _ops_str(ops):
    return ";".join(",".join(str(int(x)) for x in op) for op in ops) if ops else "_"


def _lean_hist(ctx, kind, case, m, noise, consts, tables, P_ids, samples, ops):
    cls = case["cls"]
    nz = core.qmat(noise) if isinstance(noise, list) else core.qmat([[noise]])
    pts = core.nats([s[0] for s in samples])
    if cls == "mlist":
        Y = core.qvec([s[1] for s in samples])
        obj = core.nats([s[2] for s in samples])
    else:
        Y = core.qmat([s[1:] for s in samples])
        obj = "_"
    return ctx.ask("hist", kind, str(m), nz, core.qvec(consts), core.qmats(tables), pts, Y, obj, _ops_str(ops))


def _parse_pred(ans, T):
    """`means|cov…|minpiv` → (means T×m floats, covs T×m×m floats, minpiv float or None)"""
    parts = ans.split("|")
    means = np.array([[float(x) for x in r] for r in core.parse_qmat(parts[0])])
    covs = np.array([[[float(x) for x in r] for r in core.parse_qmat(c)] for c in parts[1:1 + T]])
    mp = None if parts[-1] == "_" else float(core.parse_q(parts[-1]))
    return means, covs, mp


def _close(a, b):
    a, b = np.asarray(a, dtype=float), np.asarray(b, dtype=float)
    return a.shape == b.shape and bool(np.all(np.abs(a - b) <= TOL * np.maximum(1.0, np.abs(b))))


def _maxdiag(tables, noise):
    t = max(float(np.max(np.abs(np.diag(np.asarray(T))))) for T in tables)
    nz = float(np.max(np.abs(np.asarray(noise, dtype=float))))
    return max(1.0, t + nz)


def _check_pred(ctx, case, tag, cname, pred, lean_ans, T, m, tables, what=""):
    """compare one real predict() result with the Lean answer; returns (compared?, reshaped mean, var)"""
    cls = case["cls"]
    if lean_ans == "E":
        ctx.count("corr_no_data_exempt")
        return False, None, None
    if lean_ans in ("U", "X") or lean_ans.startswith("bad"):
        raise RuntimeError(f"Lean driver could not evaluate a prediction ({lean_ans[:40]}) for {tag}")
    if pred[0] == "exc":
        e = pred[1]
        if cls == "indep" and isinstance(case["noise"], list) and lean_ans.endswith("|_"):
            # no conditioned sample (no pivot in the exact solve): the property demands the prior
            _viol(ctx, f"predict-empty-crash-matrix-noise:{cname}",
                  f"{cname} with a full noise matrix and no samples raises {type(e).__name__} in predict instead of "
                  f"returning its prior: {str(e)[:120]}", case)
            return False, None, None
        _viol(ctx, f"predict-crash:{cname}:{core.exc_key(e)}",
                      f"{cname}.predict raised {type(e).__name__}: {str(e)[:160]} on an initialised model{what}", case)
        return False, None, None
    _, mu, var = pred
    ok_shape = mu.shape == (T, m) and var.shape == (T, m, m)
    if not ok_shape:
        if T == 1 and mu.shape == (m,) and var.shape == (1, m, m):
            _viol(ctx, f"predict-shape-single-point:{cname}",
                          f"{cname}.predict on one test point returns mean of shape {mu.shape}, not (1, {m}) "
                          "(the mean is squeeze()d)", case, detail={"mean_shape": list(mu.shape), "var_shape": list(var.shape)})
        else:
            _viol(ctx, f"predict-shape:{cname}", f"{cname}.predict returns shapes {mu.shape}, {var.shape} for N={T}, m={m}",
                          case, detail={"mean_shape": list(mu.shape), "var_shape": list(var.shape)})
        if mu.size != T * m or var.size != T * m * m:
            return False, None, None
        mu, var = mu.reshape(T, m), var.reshape(T, m, m)
    emu, ecov, mp = _parse_pred(lean_ans, T)
    if mp is not None and mp < 1e-7 * _maxdiag(tables, case["noise"]):
        ctx.count("illconditioned_skipped")
        return False, mu, var
    if not _close(mu, emu):
        _viol(ctx, f"predict-mean:{cname}", f"{cname}.predict mean differs from the exact posterior mean{what}", case,
                      detail={"tag": tag, "impl": mu.tolist(), "exact": emu.tolist()})
    dg = np.einsum("kii->ki", var)
    edg = np.einsum("kii->ki", ecov)
    if not _close(dg, edg):
        _viol(ctx, f"predict-var:{cname}", f"{cname}.predict variances differ from the exact posterior variances{what}",
                      case, detail={"tag": tag, "impl": dg.tolist(), "exact": edg.tolist()})
    full_noise = isinstance(case["noise"], list)
    if cls == "indep" and full_noise:
        # gpytorch conditions jointly (off-diagonal posterior covariance exists); the wrapper reports the
        # marginal variances only — the cross-covariances are not compared
        ctx.count("indep_fullnoise_offdiag_not_reported_info")
        if not _close(var, np.einsum("ki,ij->kij", dg, np.eye(m))):
            _viol(ctx, f"predict-cov:{cname}", "reported covariance is not diagonal", case)
    elif not _close(var, ecov):
        _viol(ctx, f"predict-cov:{cname}", f"{cname}.predict covariance matrices differ from the exact posterior{what}",
                      case, detail={"tag": tag, "impl": var.tolist(), "exact": ecov.tolist()})
    if np.min(dg) < -1e-9:
        _viol(ctx, f"variance-negative:{cname}", "a reported posterior variance is negative", case,
                      detail={"min": float(np.min(dg))})
    return True, mu, var


def _check_getters(ctx, case, model, cname, P, reports):
    """get_lengthscale_and_var, get_kernel_type and evaluate_kernel against the kernel modules' CURRENT state"""
    cls, m = case["cls"], case["m"]
    _check_lsvar(ctx, case, model, cname, reports)
    # get_kernel_type / evaluate_kernel are not named by the property: a crash or an unexpected kernel name is
    # recorded as information only (observed: the model list's get_kernel_type raises AttributeError, its
    # `self.model` being an IndependentModelList without `covar_module`); evaluate_kernel is the source of the
    # exported Gram tables, so an answer that differs from the kernel module evaluated NOW is a broken
    # correspondence (F)
    try:
        if model.get_kernel_type() != "RBF":
            ctx.count("kernel_type_not_rbf_info")
    except Exception as e:  # noqa: BLE001
        ctx.count(f"getter_crash_info:get_kernel_type:{type(e).__name__}")
    try:
        Pt = np.asarray(P, dtype=float)
        Xt = torch.tensor(Pt, dtype=torch.float64)
        with torch.no_grad():
            if cls == "mlist":
                K = np.asarray(model.evaluate_kernel(Xt))
                Ks = [g.covar_module(Xt, Xt).to_dense().numpy(force=True) for g in model.model.models]
                n = len(Pt)
                ref = np.stack(Ks)[:, :, None, :].repeat(m, axis=2).reshape(m * n, m * n)
            else:
                K = np.asarray(model.evaluate_kernel(Pt))
                ref = model.model.covar_module(Xt, Xt).to_dense().numpy(force=True)
        if K.shape != ref.shape or not np.array_equal(K, ref):
            _viol(ctx, f"evaluate-kernel-stale:{cname}", "evaluate_kernel(X) differs from the kernel module evaluated now",
                  case, kind="F")
    except Exception as e:  # noqa: BLE001
        ctx.count(f"getter_crash_info:evaluate_kernel:{type(e).__name__}")
    ctx.count("getter_queries")


def _check_lsvar(ctx, case, model, cname, reports=None):
    cls, d, m = case["cls"], case["d"], case["m"]
    try:
        ls, var = model.get_lengthscale_and_var()
    except Exception as e:  # noqa: BLE001
        if cls == "mlist" and isinstance(e, IndexError) and d < m:
            _viol(ctx, "modellist-variances-sized-by-input-dim",
                          f"GPyTorchModelListExactModel.get_lengthscale_and_var raises IndexError for input_dim={d} < "
                          f"output_dim={m}: `variances = np.zeros(self.input_dim)`", case)
        else:
            _viol(ctx, f"lsvar-crash:{cname}:{core.exc_key(e)}", f"get_lengthscale_and_var raised {type(e).__name__}", case)
        return
    ls, var = np.asarray(ls), np.asarray(var)
    gp = model.model
    with torch.no_grad():
        if cls == "indep":
            kls = gp.covar_module.base_kernel.lengthscale.numpy(force=True).reshape(m, d)
            kv = gp.covar_module.outputscale.numpy(force=True).reshape(m)
        elif cls == "corr":
            kls = gp.covar_module.data_covar_module.lengthscale.numpy(force=True).reshape(d)
            kv = gp.covar_module.task_covar_module.var.numpy(force=True).reshape(m)
        else:
            kls = np.stack([g.covar_module.base_kernel.lengthscale.numpy(force=True).reshape(d) for g in gp.models])
            kv = np.array([float(g.covar_module.outputscale) for g in gp.models])
    if var.shape != (m,):
        if cls == "mlist" and var.shape == (d,):
            _viol(ctx, "modellist-variances-sized-by-input-dim",
                          f"GPyTorchModelListExactModel.get_lengthscale_and_var returns {var.shape[0]} variances for "
                          f"{m} objectives (sized by input_dim={d})", case, detail={"variances": var.tolist()})
        else:
            _viol(ctx, f"lsvar-shape:{cname}", f"variances have shape {var.shape}, expected ({m},)", case)
    elif not np.allclose(var, kv, rtol=1e-12, atol=0):
        stale = any(v.shape == var.shape and np.array_equal(v, var) for _, v in (reports or []))
        _viol(ctx, (f"lengthscale-report-stale:{cname}" if stale else f"lsvar-values:{cname}"),
              "reported variances differ from the kernel's current ones"
              + (" and repeat an earlier report (the hyper-parameters changed since)" if stale else ""), case,
              detail={"reported": var.tolist(), "kernel": kv.tolist()})
    if cls != "corr" and (ls.ndim == 0 or ls.shape[0] != m):
        _viol(ctx, f"lsvar-shape:{cname}", f"lengthscales have shape {ls.shape}: not one entry per objective", case)
    elif np.squeeze(ls).shape != np.squeeze(kls).shape or not np.allclose(np.squeeze(ls), np.squeeze(kls), rtol=1e-12, atol=0):
        stale = any(l.shape == ls.shape and np.array_equal(l, ls) for l, _ in (reports or []))
        _viol(ctx, (f"lengthscale-report-stale:{cname}" if stale else f"lsvar-values:{cname}"),
              "reported lengthscales differ from the kernel's current ones"
              + (" and repeat an earlier report (the hyper-parameters changed since)" if stale else ""), case,
              detail={"reported": ls.tolist(), "kernel": kls.tolist()})
    if reports is not None:
        reports.append((ls.copy(), var.copy()))
    ctx.count("lsvar_checked")


def _held_rows(model, cls):
    """(inputs, targets) the wrapper reports; model list: per objective"""
    if cls == "mlist":
        return [(x.numpy(force=True), y.numpy(force=True)) for x, y in zip(model.train_inputs, model.train_targets)]
    return [(model.train_inputs.numpy(force=True), model.train_targets.numpy(force=True))]


def _cond_rows(model, cls):
    """(inputs, targets) the gpytorch model is conditioned on"""
    if model.model is None:
        return None
    if cls == "mlist":
        return [(g.train_inputs[0].numpy(force=True), g.train_targets.numpy(force=True)) for g in model.model.models]
    return [(model.model.train_inputs[0].numpy(force=True), model.model.train_targets.numpy(force=True))]


def _rows_of(ids_rows, P, samples, cls, d, m):
    """expected (inputs, targets) arrays for Lean's sample-id lists"""
    out = []
    for ids in ids_rows:
        X = np.array([P[samples[s][0]] for s in ids], dtype=float).reshape(len(ids), d)
        if cls == "mlist":
            Y = np.array([samples[s][1] for s in ids], dtype=float)
        else:
            Y = np.array([samples[s][1:] for s in ids], dtype=float).reshape(len(ids), m)
        out.append((X, Y))
    return out


def _same_rows(a, b):
    """same multiset of (input row, target row) per container (the order of the rows is not determined by
    the property, so it is not compared)"""
    def canon(x, y):
        x, y = np.asarray(x, dtype=float), np.asarray(y, dtype=float)
        return sorted(tuple(map(float, x[i].reshape(-1))) + tuple(map(float, y[i].reshape(-1))) for i in range(len(x)))
    return len(a) == len(b) and all(len(x1) == len(y1) and len(x2) == len(y2) and x1.shape[1:] == x2.shape[1:]
                                    and y1.shape[1:] == y2.shape[1:] and canon(x1, y1) == canon(x2, y2)
                                    for (x1, y1), (x2, y2) in zip(a, b))


def _lean_state(ctx, case, ops):
    cls, m, samples = case["cls"], case["m"], case["samples"]
    if cls == "mlist":
        ans = ctx.ask("state", "mlist", str(m), core.nats([s[2] for s in samples]), _ops_str(ops))
        h, c, ini, utd = ans.split("|")
        f = lambda s: [core.parse_nats(r) for r in s.split(";")]  # noqa: E731
        return f(h), f(c), ini == "1", utd == "1"
    ans = ctx.ask("state", "mo", str(m), "_", _ops_str(ops))
    h, c, ini, utd = ans.split("|")
    return [core.parse_nats(h)], [core.parse_nats(c)], ini == "1", utd == "1"


# ----------------------------------------------------------------------------- run_case
def run_case(ctx, case):
    torch.set_default_dtype(torch.float64)
    torch.manual_seed(0)
    np.random.seed(int(case.get("np_seed", 0)))
    ctx.count("kind_" + case["kind"])
    ctx.count("cls_" + case["cls"])
    ctx.count("shape_" + case["shape"])
    ctx.count("dims_d%d_m%d" % (case["d"], case["m"]))
    ctx.count("noise_" + ("matrix" if isinstance(case["noise"], list) else "scalar"))
    if isinstance(case["noise"], list):
        Sn = np.asarray(case["noise"], dtype=float)
        off = Sn - np.diag(np.diag(Sn))
        ctx.count("noise_matrix_" + ("full" if np.all(off[~np.eye(len(Sn), dtype=bool)] != 0) else
                                     "block" if np.any(off != 0) else
                                     "sI" if np.all(np.diag(Sn) == Sn[0, 0]) else "diag_unequal"))
    if case["kind"] == "helper":
        return _run_helper(ctx, case)
    return _run_direct(ctx, case)


def _lean_ops(ops):
    """the ops the Lean state machine knows (add / clear / update / predict); getter queries and changes of the
    hyper-parameters (codes 5, 6, 7) concern the kernel only"""
    return [op for op in ops if op[0] < 5]


def _run_history(ctx, case, ops, tag):
    """real model + Lean on one history; returns (run, list of (T, lean answer), tables) or None on crash"""
    cls, m = case["cls"], case["m"]
    cname = CLASSES[cls]
    P, samples, xcol = case["P"], case["samples"], case.get("xcol", False)
    run = _Run(case, ctx)
    for i, op in enumerate(ops):
        try:
            run.apply(op, P, samples, xcol)
        except Exception as e:  # noqa: BLE001
            _viol(ctx, f"op-crash:{cname}:{core.exc_key(e)}",
                          f"{cname}: op {op[:2]} of the history raised {type(e).__name__}: {str(e)[:160]}", case,
                          detail={"tag": tag, "op_index": i})
            return None
    if run.model.model is None:
        return run, [], None
    lops = _lean_ops(ops)
    pred_ops = [op for op in lops if op[0] == 3]
    if len(run.preds) != len(pred_ops) or len(run.pred_phase) != len(pred_ops):
        raise RuntimeError("prediction count mismatch")
    # one exact evaluation of the history per kernel phase that has predictions: every prediction is compared
    # with the posterior under the kernel as it was when predict() ran
    per_phase = {}
    for ph in sorted(set(run.pred_phase)):
        tables, consts = run.phases[ph]
        ans = _lean_hist(ctx, cls, case, m, case["noise"], consts, tables, None, samples, lops)
        if ans.startswith("bad"):
            raise RuntimeError("Lean driver rejected the history: " + ans)
        answers = [] if ans == "_" else ans.split("#")
        if len(answers) != len(pred_ops):
            raise RuntimeError("prediction count mismatch")
        per_phase[ph] = answers
    out = [(len(op) - 1, per_phase[ph][k], run.phases[ph][0]) for k, (op, ph) in enumerate(zip(pred_ops, run.pred_phase))]
    return run, out, (run.phases[-1][0] if len(run.phases) == 1 else None)


def _run_direct(ctx, case):
    cls, d, m = case["cls"], case["d"], case["m"]
    cname = CLASSES[cls]
    ops = case["ops"]
    res = _run_history(ctx, case, ops, "main")
    if res is None:
        ctx.case_done(case, False)
        return
    run, answers, tables = res
    compared, nontrivial = 0, False
    outs = []
    for k, ((T, a, tb), pred) in enumerate(zip(answers, run.preds)):
        ok, mu, var = _check_pred(ctx, case, f"main#{k}", cname, pred, a, T, m, tb)
        outs.append((ok, mu, var))
        if ok:
            compared += 1
            ctx.count("predictions_compared")
            ctx.count("testpoints_%s" % ("1" if T == 1 else "many"))
    # state localisation (F): reported data vs Lean `held`, gpytorch data vs Lean `conditioned`
    held, cond, ini, _ = _lean_state(ctx, case, _lean_ops(ops))
    if any(len(c) > 0 for c in cond) and compared:
        nontrivial = True
    ctx.count("conditioned_size_%s" % _bucket(sum(len(c) for c in cond)))
    if not _same_rows(_held_rows(run.model, cls), _rows_of(held, case["P"], case["samples"], cls, d, m)):
        _viol(ctx, f"state-held:{cname}", "train_inputs/train_targets differ from the model's `held` after the history",
                      case, kind="F")
    cr = _cond_rows(run.model, cls)
    if (cr is not None) != ini:
        _viol(ctx, f"state-init:{cname}", "`self.model is None` disagrees with the model's `initialised`", case, kind="F")
    elif cr is not None and not _same_rows(cr, _rows_of(cond, case["P"], case["samples"], cls, d, m)):
        _viol(ctx, f"state-conditioned:{cname}", "the gpytorch model's train data differ from the model's `conditioned`",
                      case, kind="F")
    if run.model.model is not None:
        _check_getters(ctx, case, run.model, cname, case["P"], run.reports)
    # variance never grows with more data (no clear between the predictions)
    if case.get("mono") and not any(op[0] == 1 for op in ops):
        prev = None
        for ok, mu, var in outs:
            if var is None:
                prev = None
                continue
            dg = np.einsum("kii->ki", var)
            if prev is not None and prev.shape == dg.shape and np.any(dg > prev + TOL * np.maximum(1.0, prev)):
                _viol(ctx, f"variance-grows:{cname}", "a posterior variance increased after adding samples and updating",
                              case, detail={"before": prev.tolist(), "after": dg.tolist()})
            prev = dg
            ctx.count("monotone_pairs_checked")
    # Lean-internal: per-objective posterior = joint posterior for scalar noise (small cases)
    if cls == "indep" and not isinstance(case["noise"], list) and sum(len(c) for c in cond) * m <= 24 and tables is not None:
        a1 = _lean_hist(ctx, "indep", case, m, case["noise"], [0.0] * m, tables, None, case["samples"], _lean_ops(ops))
        a2 = _lean_hist(ctx, "indepj", case, m, case["noise"], [0.0] * m, tables, None, case["samples"], _lean_ops(ops))
        strip = lambda s: "#".join("|".join(x.split("|")[:-1]) for x in s.split("#"))  # noqa: E731  (drop min pivots)
        if strip(a1) != strip(a2):
            _viol(ctx, "lean-indep-joint-vs-per-objective", "Lean: joint and per-objective exact posteriors differ",
                          case, kind="F")
        ctx.count("lean_joint_vs_perobjective_checked")
    # order / batching independence and model-list locality on the real models
    if "alt_ops" in case:
        res2 = _run_history(ctx, case, case["alt_ops"], "alt")
        if res2 is not None:
            run2, answers2, tables2 = res2
            for k, ((T, a, tb), pred) in enumerate(zip(answers2, run2.preds)):
                _check_pred(ctx, case, f"alt#{k}", cname, pred, a, T, m, tb)
            p1, p2 = run.preds[-1], run2.preds[-1]
            if p1[0] == "ok" and p2[0] == "ok":
                mu1, var1, mu2, var2 = p1[1], p1[2], p2[1], p2[2]
                if case["shape"] in ("perm", "streaming_buffer"):
                    _, c2, _, _ = _lean_state(ctx, case, _lean_ops(case["alt_ops"]))
                    if sorted(map(sorted, cond)) == sorted(map(sorted, c2)):
                        if not (_close(mu1, mu2) and _close(var1, var2)):
                            _viol(ctx, f"order-dependence:{cname}",
                                          "two histories holding the same multiset of samples predict differently", case)
                        ctx.count("perm_pairs_checked")
                elif case["shape"] == "local" and mu1.shape == mu2.shape and mu1.ndim == 2:
                    j = case["local_obj"]
                    keep = [i for i in range(m) if i != j]
                    same = np.allclose(mu1[:, keep], mu2[:, keep], rtol=0, atol=1e-12) and \
                        np.allclose(var1[:, keep][:, :, keep], var2[:, keep][:, :, keep], rtol=0, atol=1e-12)
                    if not same:
                        _viol(ctx, "modellist-locality", f"observations of objective {j} changed another objective's "
                                      "prediction", case)
                    ctx.count("locality_pairs_checked")
    ctx.case_done(case, nontrivial)


def _bucket(n):
    return "0" if n == 0 else "1-5" if n <= 5 else "6-12" if n <= 12 else "13-24" if n <= 24 else "25-50"


class _StubProblem:
    """`problem` argument of the model-list helper: fresh evaluations = table value + 1/8"""

    def __init__(self, X, Y):
        self.X, self.Y = np.asarray(X, dtype=float), np.asarray(Y, dtype=float)
        self.in_dim, self.out_dim = self.X.shape[1], self.Y.shape[1]

    def evaluate(self, pts, evaluation_index=None):
        pts = np.asarray(pts, dtype=float).reshape(-1, self.in_dim)
        idx = [int(np.flatnonzero((self.X == p).all(axis=1))[0]) for p in pts]
        return self.Y[idx] + 0.125


def _run_helper(ctx, case):
    vg = _vg()
    cls, d, m, k = case["cls"], case["d"], case["m"], case["k"]
    cname = CLASSES[cls]
    hname = "get_gpytorch_modellist_w_known_hyperparams" if case["helper"] == "mlist" else \
        "get_gpytorch_model_w_known_hyperparams"
    X, Y = np.array(case["X"], dtype=float), np.array(case["Y"], dtype=float)
    n = len(X)
    noise = case["noise"]
    nz = np.asarray(noise, dtype=float) if isinstance(noise, list) else float(noise)
    ctx.count("helper_%s_k%s" % (case["helper"], "0" if k == 0 else "pos"))

    def fake_fit(mll, *a, **kw):  # the training step: "the optimiser found these hyper-parameters"
        _set_hyp_gp(mll.model, cls, case["hyp"], d, m)
        return mll

    saved = vg.fit_gpytorch_mll
    vg.fit_gpytorch_mll = fake_fit
    Xc, Yc = X.copy(), Y.copy()      # the caller's arrays (edited below, after the helper returned)
    try:
        try:
            if case["helper"] == "mlist":
                model = vg.get_gpytorch_modellist_w_known_hyperparams(_StubProblem(X, Y), nz, k, X=Xc, Y=Yc)
            else:
                model = vg.get_gpytorch_model_w_known_hyperparams(getattr(vg, CLASSES[cls]), _StubProblem(X, Y), nz, k,
                                                                  X=Xc, Y=Yc)
        except Exception as e:  # noqa: BLE001
            _viol(ctx, f"helper-crash:{hname}:{core.exc_key(e)}", f"{hname} raised {type(e).__name__}: {str(e)[:160]}", case)
            ctx.case_done(case, True)
            return
    finally:
        vg.fit_gpytorch_mll = saved
    # reported data → samples (copied), then the caller edits its own arrays
    held = [(np.array(hx, copy=True), np.array(hy, copy=True)) for hx, hy in _held_rows(model, cls)]
    _check_alias(ctx, case, model, cls, [Xc, Yc], hname)
    _scribble(Xc)
    _scribble(Yc)
    if not _same_rows(_held_rows(model, cls), held):
        _viol(ctx, f"store-aliases-caller-buffer:{cname}", f"the data reported by the model {hname} returned changed when "
              "the caller edited the X / Y arrays it had passed in", case, kind="F")
    test = case["test"]
    P = [list(map(float, r)) for r in X]
    samples, init_ids, train_batches = [], [], []
    if cls == "mlist":
        for j in range(m):
            train_batches.append([j] + list(range(len(samples), len(samples) + n)))
            samples += [[i, float(Y[i, j]), j] for i in range(n)]
        for j, (hx, hy) in enumerate(held):
            for r in range(len(hx)):
                P.append([float(v) for v in hx[r]])
                samples.append([len(P) - 1, float(hy[r]), j])
                init_ids.append(len(samples) - 1)
    else:
        train_batches.append(list(range(n)))
        samples += [[i] + [float(v) for v in Y[i]] for i in range(n)]
        hx, hy = held[0]
        for r in range(len(hx)):
            P.append([float(v) for v in hx[r]])
            samples.append([len(P) - 1] + [float(v) for v in hy[r]])
            init_ids.append(len(samples) - 1)
    tids = list(range(len(P), len(P) + len(test)))
    P = P + [list(map(float, r)) for r in test]
    T = len(test)
    hcase = dict(case, P=P, samples=samples)
    reported = sum(len(hx) for hx, _ in held)
    ctx.count("helper_reported_%s" % ("0" if reported == 0 else "pos"))
    if reported != k:
        _viol(ctx, f"helper-sample-count:{hname}", f"{hname} reports {reported} held samples for initial_sample_cnt={k}", case)
    # two op sequences from the Lean model: `helperOps` (what the helpers do: update unconditionally after the
    # clear) = the specification, and `helperOpsConditional` (the pre-fix code: update only with initial
    # samples), used only to say in the violation detail whether a stale model matches that regression
    tb = ";".join(",".join(map(str, b)) for b in train_batches)
    hasinit = "1" if k > 0 else "0"
    if cls == "mlist":
        obj = core.nats([s[2] for s in samples])
        code_ops = ctx.ask("helperops", "mlist", str(m), obj, "0", tb, hasinit, core.nats(init_ids))
        spec_ops = ctx.ask("helperops", "mlist", str(m), obj, "1", tb, hasinit, core.nats(init_ids))
    else:
        code_ops = ctx.ask("helperops", "mo", "0", tb, hasinit, core.nats(init_ids))
        spec_ops = ctx.ask("helperops", "mo", "1", tb, hasinit, core.nats(init_ids))
    if code_ops.startswith("bad") or spec_ops.startswith("bad"):
        raise RuntimeError("Lean driver rejected helperops")
    parse_ops = lambda s: [[int(x) for x in op.split(",")] for op in s.split(";")]  # noqa: E731
    code_ops, spec_ops = parse_ops(code_ops), parse_ops(spec_ops)
    key = (f"helper-stale-after-clear:{hname}" if k == 0 else f"helper-not-up-to-date:{hname}")
    # (1) state: the gpytorch model must be conditioned on exactly the reported data
    cr = _cond_rows(model, cls)
    stale_state = cr is None or not _same_rows(cr, held)
    # (2) behaviour: predictions = exact posterior of the reported data
    tables = _tables(model, cls, P, m)
    consts = _consts(model, cls, m)
    reports = []
    _check_getters(ctx, case, model, cname, P, reports)      # first query, on the model as returned
    try:
        mu, var = model.predict(np.array(test, dtype=float))
        pred = ("ok", np.asarray(mu), np.asarray(var))
    except Exception as e:  # noqa: BLE001
        pred = ("exc", e, None)
    spec = _lean_hist(ctx, cls, hcase, m, noise, consts, tables, None, samples, spec_ops + [[3] + tids])
    code = _lean_hist(ctx, cls, hcase, m, noise, consts, tables, None, samples, code_ops + [[3] + tids])
    if spec.startswith("bad") or code.startswith("bad"):
        raise RuntimeError("Lean driver rejected the helper history")
    stale_pred = False
    if spec != "E" and pred[0] == "ok" and pred[1].size == T * m and pred[2].size == T * m * m:
        emu, ecov, _ = _parse_pred(spec, T)
        pm, pv = pred[1].reshape(T, m), pred[2].reshape(T, m, m)
        stale_pred = not (_close(pm, emu) and _close(np.einsum("kii->ki", pv), np.einsum("kii->ki", ecov)))
    if stale_state or stale_pred:
        what = (f"{hname}(initial_sample_cnt={k}) returns a model that reports {reported} held samples but is conditioned on "
                f"{sum(len(x) for x, _ in cr) if cr is not None else 'no'} samples"
                + (" (update() is skipped after clear_data() when initial_sample_cnt = 0)" if k == 0 else ""))
        detail = {"stale_state": bool(stale_state), "stale_prediction": bool(stale_pred)}
        if pred[0] == "ok" and code not in ("E",) and pred[1].size == T * m:
            cmu, ccov, _ = _parse_pred(code, T)
            detail["matches_conditional_update_sequence"] = bool(_close(pred[1].reshape(T, m), cmu))
        _viol(ctx, key, what, case, detail=detail)
    else:
        # up to date: the usual comparison (shape, mean, covariance) against the exact posterior
        _check_pred(ctx, case, "helper", cname, pred, spec, T, m, tables, what=f" (model returned by {hname})")
        # the returned model is used further: other hyper-parameters (a real train() with the patched fit, or set
        # on the kernel modules and update()), then every getter and predict() again — under the CURRENT kernel
        if "hyp2" in case:
            try:
                if case.get("rechange", "train") == "train":
                    def fake_fit2(mll, *a, **kw):
                        _set_hyp_gp(mll.model, cls, case["hyp2"], d, m)
                        return mll
                    saved2 = vg.fit_gpytorch_mll
                    vg.fit_gpytorch_mll = fake_fit2
                    try:
                        model.train()
                    finally:
                        vg.fit_gpytorch_mll = saved2
                else:
                    _set_hyp_gp(model.model, cls, case["hyp2"], d, m)
                    model.update()
            except Exception as e:  # noqa: BLE001
                _viol(ctx, f"op-crash:{cname}:{core.exc_key(e)}", f"{cname}: train()/update() of a helper model raised "
                      f"{type(e).__name__}: {str(e)[:160]}", case)
                ctx.case_done(case, True)
                return
            tables2, consts2 = _tables(model, cls, P, m), _consts(model, cls, m)
            _check_getters(ctx, case, model, cname, P, reports)
            try:
                mu, var = model.predict(np.array(test, dtype=float))
                pred2 = ("ok", np.asarray(mu), np.asarray(var))
            except Exception as e:  # noqa: BLE001
                pred2 = ("exc", e, None)
            spec2 = _lean_hist(ctx, cls, hcase, m, noise, consts2, tables2, None, samples, spec_ops + [[3] + tids])
            if spec2.startswith("bad"):
                raise RuntimeError("Lean driver rejected the helper history")
            _check_pred(ctx, case, "helper2", cname, pred2, spec2, T, m, tables2,
                        what=f" (model returned by {hname}, after its hyper-parameters changed)")
            ctx.count("helper_requery")
    ctx.case_done(case, True)
