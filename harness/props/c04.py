"""C04 — at contraction 1 the confidence schedules are valid with probability >= 1 - delta.

Three kinds of cases, all against the REAL methods of /repo called as unbound methods on
lightweight objects (`object.__new__(Cls)` plus the attributes the method reads):

* ``sched``   one schedule value: `PaVeBa.compute_radius`, `PaVeBaGP.compute_alpha`,
              `PaVeBaPartialGP.compute_alpha`, `VOGP.compute_beta`, `EpsilonPAL.compute_beta`,
              `Auer.compute_beta` (original and empirical branch) vs the `Float` instance of the same
              `RealLike` term the theorems are about (Lean driver), relative tolerance 1e-9.  (F)
* ``region``  the real `modeling()` of the algorithm on a real `FixedPointsDesignSpace` with a stub
              model of known (mean, covariance): the regions of the active designs vs the model's
              `rectUpdate` / `ellUpdate` fed the returned scale (centre/covariance exact, bounds at
              1e-12), inactive designs untouched.  (F)
* ``sum``     standing numeric cross-check and failing-input search (a TEST, not a proof): the
              union-bound sum over designs, objectives and rounds with the CODE's scale at contraction
              1 and exact tails (`scipy.special.erfc`, `scipy.stats.chi2.sf`) for t <= T, plus dyadic
              blocks up to T*2^60 bracketed under the assumption that the code's scale is monotone in
              the round (checked at the sampled rounds).  lower bound of the sum > delta  =>  (R)
              violation with that (algorithm, K, m, delta) as the replay.
"""
import math
import os
import struct

os.environ.setdefault("OMP_NUM_THREADS", "1")  # many tiny cvxpy/numpy calls: threads only add contention
from types import SimpleNamespace

import numpy as np

from harness import core

TITLE = "confidence schedules / region construction vs Lean RealLike terms; numeric union-bound sums"
RULE = ("sched: structured grid then random over (algorithm, K, m, delta, round, noise_var, contraction[, v_hat]); "
        "every case is non-trivial (the value is determined by the arguments), distinct by argument tuple. "
        "region: (algorithm, region type, K<=5 designs, m, known means/covariances, active set); non-trivial = "
        "at least one active and one inactive design or a non-identity covariance. "
        "sum: (algorithm/region type, K in 1..1e4, m in 2..6, delta in 1e-6..0.999); non-trivial = partial sum > 0; "
        "distinct by (algorithm, K, m, delta). "
        "ctor: (algorithm through its real constructor, K, m, requested delta incl. 1e-12…1-1e-9, round, noise_var, "
        "contraction); always non-trivial. history: (K, m, design, number of samples 4097…16384, batch pattern); "
        "always non-trivial. "
        "monitor: (PaVeBa | Auer, dataset values, cone, epsilon, delta, noise_var, noise seed, round budget); "
        "non-trivial = PaVeBa: at least one round refreshed a design that is already in P (U non-empty); "
        "Auer: at least 2 rounds; distinct by the whole case")
ASSUMPTIONS = [
    "schedule values are compared at relative tolerance 1e-9 (libm log/sqrt/pow vs Lean Float), region bounds at 1e-12",
    "numeric sums: scipy erfc / chi2.sf taken as exact tails; tail blocks beyond T bracketed assuming the code's "
    "scale is monotone in the round between sampled rounds (a test, labelled as such)",
    "Auer: per-sample noise variance 1 (the worst case the property allows)",
]

RTOL_SCHED = 1e-9
RTOL_REGION = 1e-12

SCHED_ALGS = ["paveba", "pavebagp", "partialgp", "vogp", "epal", "auer", "aueremp"]
# (algorithm, region type) pairs whose union bound is summed
SUM_ALGS = ["paveba", "pavebagp_rect", "pavebagp_ell", "partialgp_rect", "partialgp_ell", "vogp", "epal", "auer"]

_CLS = {}


def classes():
    if not _CLS:
        from vopy.algorithms import Auer, EpsilonPAL, PaVeBa, PaVeBaGP, PaVeBaPartialGP, VOGP

        _CLS.update(paveba=PaVeBa, pavebagp=PaVeBaGP, partialgp=PaVeBaPartialGP, vogp=VOGP, epal=EpsilonPAL,
                    auer=Auer, aueremp=Auer)
    return _CLS


class StubModel:
    """predict() returns the scripted means/covariances of the requested designs; the index of a
    design is the last column of its point (as in PaVeBa/Auer) — all stub points carry it."""

    def __init__(self, means, covs, variances=None):
        self.means = np.asarray(means, dtype=float)
        self.covs = np.asarray(covs, dtype=float)
        self.variances = None if variances is None else np.asarray(variances, dtype=float)
        self.track_variances = False
        self.calls = 0

    def predict(self, X):
        self.calls += 1
        idx = np.asarray(X)[..., -1].astype(int)
        if self.variances is not None and self.track_variances:
            return self.means[idx], self.variances[idx]
        return self.means[idx], self.covs[idx]


def make(alg, K, m, delta, rnd, nv, c):
    o = object.__new__(classes()[alg])
    o.m = m
    o.round = rnd
    o.delta = delta
    o.conf_contraction = c
    o.noise_var = nv
    o.design_space = SimpleNamespace(cardinality=K)
    if alg in ("auer", "aueremp"):
        o._use_empirical_beta = alg == "aueremp"
        o.S = {0}
    return o


def real_scale(alg, K, m, delta, rnd, nv, c, vhat=None):
    """the real compute_* for one round; returns a float"""
    o = make(alg, K, m, delta, rnd, nv, c)
    if alg == "paveba":
        return float(type(o).compute_radius(o))
    if alg in ("pavebagp", "partialgp"):
        return float(type(o).compute_alpha(o))
    if alg in ("vogp", "epal"):
        return float(type(o).compute_beta(o))
    if alg == "auer":
        b = np.asarray(type(o).compute_beta(o), dtype=float)
        if b.shape != (1, m) or not np.all(b == b.flat[0]) and not np.all(np.isnan(b)):
            raise ValueError(f"Auer beta shape/value pattern unexpected: {b.shape}")
        return float(b.flat[0])
    if alg == "aueremp":
        o.design_space = SimpleNamespace(cardinality=K, points=np.array([[0.0, 0.0]]))
        var = np.array([np.diag([vhat] * m)])
        o.model = StubModel(np.zeros((1, m)), np.array([np.eye(m)]), variances=var)
        o.model.track_variances = True
        b = np.asarray(type(o).compute_beta(o), dtype=float)
        if b.shape != (1, m) or not np.all(b == b.flat[0]) and not np.all(np.isnan(b)):
            raise ValueError(f"Auer empirical beta shape/value pattern unexpected: {b.shape}")
        return float(b.flat[0])
    raise KeyError(alg)


def bits_to_float(s):
    if s == "nan":
        return float("nan")
    return struct.unpack("<d", struct.pack("<Q", int(s)))[0]


def model_scale(ctx, alg, K, m, delta, rnd, nv, c, vhat=None):
    q = core.q
    if alg == "paveba":
        a = ctx.ask("paveba", q(nv), str(rnd), str(m), str(K), q(delta), q(c))
    elif alg == "partialgp":
        a = ctx.ask("partialgp", str(rnd), str(K), q(delta), q(c))
    elif alg == "aueremp":
        a = ctx.ask("aueremp", str(rnd), str(m), str(K), q(delta), q(c), q(vhat))
    else:
        a = ctx.ask(alg, str(rnd), str(m), str(K), q(delta), q(c))
    if a == "bad-op":
        raise RuntimeError(f"driver rejected {alg} request")
    return bits_to_float(a)


def close(a, b, rtol):
    if math.isnan(a) or math.isnan(b):
        return math.isnan(a) and math.isnan(b)
    if a == b:
        return True
    return abs(a - b) <= rtol * max(abs(a), abs(b))


# ------------------------------------------------------------------------------------- generation
K_GRID = [1, 2, 3, 5, 10, 32, 100, 1000, 10000, 123457]
M_GRID = [1, 2, 3, 4, 5, 6, 8]
D_EXTREME = [1e-12, 1e-9, 1e-7, 1 - 1e-7, 1 - 1e-9]
D_GRID = [1e-6, 1e-3, 0.01, 0.05, 0.1, 0.25, 0.5, 0.9, 0.999] + D_EXTREME
T_GRID = [1, 2, 3, 7, 10, 100, 10 ** 4, 10 ** 6]
NV_GRID = [1e-5, 0.01, 0.1, 1.0, 4.0]
C_GRID = [1.0, 9.0, 32.0, 64.0, 2.5]


def sched_case(rng, alg, structured):
    if structured:
        K, m, d = rng.choice(K_GRID), rng.choice(M_GRID), rng.choice(D_GRID)
        t, nv, c = rng.choice(T_GRID), rng.choice(NV_GRID), rng.choice(C_GRID)
    else:
        K = int(round(10 ** rng.uniform(0, 5)))
        m = rng.randint(1, 8)
        d = min(0.999, 10 ** rng.uniform(-6, 0))
        t = int(round(10 ** rng.uniform(0, 7)))
        nv = 10 ** rng.uniform(-5, 1)
        c = rng.choice([1.0, 1.0, 10 ** rng.uniform(0, 2)])
    if alg in ("vogp", "epal") and rng.random() < 0.3:
        t = 0  # these two use round + 1 and start at round 0
    case = {"kind": "sched", "alg": alg, "K": K, "m": m, "delta": d, "round": t, "noise_var": nv, "c": c}
    if alg == "aueremp":
        case["vhat"] = rng.choice([0.0, 1.0, 10 ** rng.uniform(-4, 1)])
    return case


def region_case(rng, nprng):
    alg, typ = rng.choice([("paveba", "ell"), ("pavebagp", "rect"), ("pavebagp", "ell"), ("partialgp", "rect"),
                           ("partialgp", "ell"), ("vogp", "rect"), ("epal", "rect"), ("auer", "rect"),
                           ("aueremp", "rect")])
    K = rng.randint(1, 5)
    m = rng.randint(2, 4)  # the property quantifies over m = 2..6 (m = 1: np.diag(cov.squeeze()) raises)
    means = [[core.dyadic(rng, -64, 64, 4) for _ in range(m)] for _ in range(K)]
    covs = []
    for _ in range(K):
        if alg in ("paveba", "auer", "aueremp"):
            covs.append(np.eye(m).tolist())  # these models report the identity (variances not tracked)
        else:
            A = nprng.normal(size=(m, m))
            covs.append((A @ A.T + 0.1 * np.eye(m)).tolist())
    active = sorted(rng.sample(range(K), rng.randint(1, K)))
    second = sorted(i for i in range(K) if i not in active and rng.random() < 0.5)
    case = {"kind": "region", "alg": alg, "type": typ, "K": K, "m": m, "delta": rng.choice(D_GRID),
            "round": rng.choice([1, 2, 5, 50]), "noise_var": rng.choice(NV_GRID), "c": rng.choice(C_GRID),
            "means": means, "covs": covs, "S": active, "other": second}
    if alg == "aueremp":
        case["variances"] = [[10 ** rng.uniform(-3, 0.5) for _ in range(m)] for _ in range(K)]
        case["other"] = []
    if alg == "auer":
        case["other"] = []
    return case


def sum_case(rng, structured):
    alg = rng.choice(SUM_ALGS)
    if structured:
        K = rng.choice([1, 2, 3, 10, 100, 1000, 10000])
        d = rng.choice([1e-6, 1e-4, 0.01, 0.1, 0.5, 0.9, 0.99, 0.999, 1e-12, 1e-9, 1 - 1e-9])
    else:
        K = int(round(10 ** rng.uniform(0, 4)))
        d = min(0.999, 10 ** rng.uniform(-6, 0))
    return {"kind": "sum", "alg": alg, "K": K, "m": rng.randint(2, 6), "delta": d, "T": 100000}


MONITOR_FIXED = [
    # (alg, Y, W, epsilon): design 0 enters P early and stays useful (design 1 sits exactly on the
    # epsilon-boundary below it) for ~20 rounds; second: two Pareto designs useful for the whole budget
    ("PaVeBa", [[1, 1], [0.5, 0.5]], [[1, 0], [0, 1]], 0.5),
    ("PaVeBa", [[1, 0.5], [0.5, 1], [0.25, 0.25]], [[1, 0], [0, 1]], 0.5),
    ("PaVeBa", [[1, 1], [1, 1], [0.5, 0.5]], [[1, 0], [0, 1]], 0.5),
    ("PaVeBa", [[1, 1], [0.75, 0.75]], [[1, 0], [0, 1]], 1.0),
    ("PaVeBa", "sparse12", [[1, 0], [0, 1]], 0.5),
    ("PaVeBa", "sparse16", [[1, 0], [0, 1]], 0.5),
    ("Auer", "sparse12auer", None, 0.25),
    ("Auer", [[4, 4], [2, 2], [3.5, 4.25]], None, 0.25),
    ("Auer", [[1, 1], [0.5, 0.5], [0.9, 1.05]], None, 0.25),
]


def sparse_dataset(K, survivors, isolated, bulk=-4.0, top=(1.0, 1.0), gap=0.5, iso=(-2.0, 4.0)):
    """K designs: a far-dominated bulk (discarded in round 1), `survivors[0]` on top, the other survivors
    exactly `gap` (= epsilon: never coverable away, discarded late) below it — the top design enters P and
    stays useful — and `isolated` an incomparable Pareto design that enters P early and is useful to no
    one (P minus U non-empty while S is non-empty).  Survivor indices >= 8 apart iterate non-ascending
    in a CPython set ({3, 8} -> [8, 3], {2, 7, 11} -> [2, 11, 7])."""
    Y = [[bulk - 0.125 * (i % 3), bulk - 0.125 * (i % 2)] for i in range(K)]
    Y[survivors[0]] = list(top)
    for k, i in enumerate(survivors[1:]):
        Y[i] = [top[0] - gap - 0.125 * k, top[1] - gap + 0.125 * k] if k else [top[0] - gap, top[1] - gap]
    if isolated is not None:
        Y[isolated] = list(iso)
    return Y


SPARSE = {
    "sparse12": lambda: sparse_dataset(12, [3, 8], 11),
    "sparse16": lambda: sparse_dataset(16, [2, 7, 11], 15),
    "sparse12auer": lambda: sparse_dataset(12, [3, 8], 11, bulk=-40.0, top=(4.0, 4.0), gap=2.0, iso=(-8.0, 12.0)),
}


def monitor_case(rng, fixed_index=None):
    if fixed_index is not None:
        alg, Y, W, eps = MONITOR_FIXED[fixed_index]
        if isinstance(Y, str):
            Y = SPARSE[Y]()
        delta, nv = 0.1, 1.0 / 64
    else:
        alg = rng.choice(["PaVeBa", "PaVeBa", "Auer"])
        K = rng.randint(2, 4)
        scale = rng.choice([1, 2, 4]) if alg == "Auer" else 1
        Y = [[scale * core.dyadic(rng, 0, 8, 3) for _ in range(2)] for _ in range(K)]
        if rng.random() < 0.6:  # put one design exactly epsilon below another: long useful phase
            eps = rng.choice([0.25, 0.5])
            Y[-1] = [Y[0][0] - eps, Y[0][1] - eps]
        else:
            eps = rng.choice([0.25, 0.5, 1.0])
        W = rng.choice([[[1, 0], [0, 1]], [[1, 0], [0, 1]], [[2, 1], [1, 2]], [[2, -1], [-1, 2]]]) \
            if alg == "PaVeBa" else None
        if rng.random() < 0.35:  # sparse survivors among K = 12..32 designs, isolated Pareto design
            first = rng.randint(0, 7)
            surv = [first, first + rng.randint(5, 9)]
            if rng.random() < 0.5:
                surv.append(surv[-1] + 4)
            K = rng.randint(max(12, surv[-1] + 2), 32)
            iso = rng.choice([i for i in range(K) if i not in surv])
            eps = rng.choice([0.5, 1.0]) if alg == "PaVeBa" else 0.25
            W = [[1, 0], [0, 1]] if alg == "PaVeBa" else None
            if alg == "PaVeBa":
                Y = sparse_dataset(K, surv, iso, gap=eps)
            else:
                Y = sparse_dataset(K, surv, iso, bulk=-40.0, top=(4.0, 4.0), gap=2.0, iso=(-8.0, 12.0))
        delta = rng.choice([0.01, 0.1, 0.5])
        nv = rng.choice([1.0 / 64, 1.0 / 16, 0.25])
    return {"kind": "monitor", "alg": alg, "Y": Y, "W": W, "epsilon": eps, "delta": delta, "noise_var": nv,
            "seed": rng.randint(0, 10 ** 6), "max_rounds": 300 if alg == "Auer" else 30}


CTOR_ALGS = {
    # stubs.build name: (schedule term, union-sum key, method)
    "PaVeBa": ("paveba", "paveba", "compute_radius"),
    "PaVeBaGP-IH": ("pavebagp", "pavebagp_rect", "compute_alpha"),
    "PaVeBaGP-DE": ("pavebagp", "pavebagp_ell", "compute_alpha"),
    "PaVeBaPartialGP-rect": ("partialgp", "partialgp_rect", "compute_alpha"),
    "PaVeBaPartialGP-ell": ("partialgp", "partialgp_ell", "compute_alpha"),
    "VOGP": ("vogp", "vogp", "compute_beta"),
    "EpsilonPAL": ("epal", "epal", "compute_beta"),
    "Auer": ("auer", "auer", "compute_beta"),
}


def ctor_case(rng, name=None, delta=None):
    name = name or rng.choice(sorted(CTOR_ALGS))
    if delta is None:
        delta = rng.choice(D_EXTREME + D_EXTREME + [1e-6, 0.05, 0.5, 0.999, min(0.999, 10 ** rng.uniform(-14, 0))])
    t = rng.choice([1, 2, 10, 1000, 10 ** 5])
    if name in ("VOGP", "EpsilonPAL") and rng.random() < 0.3:
        t = 0
    return {"kind": "ctor", "alg": name, "K": rng.randint(1, 6), "m": rng.choice([2, 2, 3]), "delta": delta,
            "epsilon": rng.choice([0.0, 1e-9, 0.1, 1.0]), "round": t, "noise_var": rng.choice(NV_GRID),
            "c": rng.choice([1.0, 1.0, 32.0]), "seed": rng.randint(0, 10 ** 6)}


def history_case(rng, k=None):
    n = rng.choice([4097, 5000, 8193, 10000, 16384])
    pattern = ["one", "halves", "4096+singles", "singles", "chunks"][k % 5] if k is not None \
        else rng.choice(["one", "halves", "4096+singles", "singles", "chunks"])
    if pattern == "singles":
        n = min(n, 5000)
    K = rng.randint(1, 4)
    return {"kind": "history", "K": K, "m": rng.randint(1, 3), "design": rng.randrange(K), "n": n, "pattern": pattern,
            "noise_var": rng.choice(NV_GRID), "track_variances": rng.random() < 0.5, "seed": rng.randint(0, 10 ** 6)}


def long_monitor_case(rng, alg, jump, rounds):
    """two identical designs and a tiny epsilon: never decided, both stay in S for thousands of rounds.
    `jump` = t0 > 0: the first t0 rounds are replaced by t0 real `evaluating()` calls and `round = t0`
    (the state of a run in which no decision was taken so far)."""
    return {"kind": "monitor", "alg": alg, "Y": [[1, 1], [1, 1]], "W": [[1, 0], [0, 1]] if alg == "PaVeBa" else None,
            "epsilon": 0.001, "delta": 0.05, "noise_var": 1.0 / 64, "seed": rng.randint(0, 10 ** 6),
            "max_rounds": rounds, "jump": jump}


def dsupdate_case(rng, typ=None, empty=None):
    K, m = rng.randint(1, 6), rng.randint(2, 3)
    return {"kind": "dsupdate", "type": typ or rng.choice(["rect", "ell"]),
            "empty": empty or rng.choice(["list", "array", "tuple", "set"]), "K": K, "m": m,
            "means": [[core.dyadic(rng, -64, 64, 4) for _ in range(m)] for _ in range(K)],
            "scale0": rng.choice([0.5, 1.0, 3.0]), "scale1": rng.choice([0.125, 0.25, 7.0]),
            "first": sorted(rng.sample(range(K), rng.randint(0, K)))}


def gen(ctx):
    rng = ctx.rng
    if ctx.worker == 0:
        for typ in ("rect", "ell"):
            for empty in ("list", "array", "tuple", "set"):
                yield dsupdate_case(rng, typ, empty)
        for name in sorted(CTOR_ALGS):
            for d in (1e-12, 1e-9, 1 - 1e-9):
                yield ctor_case(rng, name, d)
        for k in range(5):
            yield history_case(rng, k)
        yield long_monitor_case(rng, "Auer", 4090, 12)
        yield long_monitor_case(rng, "PaVeBa", 4090, 8)
        if ctx.tier == "thorough":
            yield long_monitor_case(rng, "Auer", 0, 5000)
            yield long_monitor_case(rng, "PaVeBa", 0, 4200)
            yield long_monitor_case(rng, "Auer", 8190, 12)
            yield long_monitor_case(rng, "PaVeBa", 8190, 8)
        for k in range(len(MONITOR_FIXED)):
            yield monitor_case(rng, fixed_index=k)
        # more designs than any internal prediction block (1100 > 1024) refreshed by ONE design_space.update call:
        # every region must still be centred on the mean of its OWN observations (the bulk is discarded in round 1)
        yield {"kind": "monitor", "alg": "Auer", "W": None, "epsilon": 0.25, "delta": 0.1, "noise_var": 1.0 / 64,
               "Y": sparse_dataset(1100, [3, 8], 11, bulk=-40.0, top=(4.0, 4.0), gap=2.0, iso=(-8.0, 12.0)),
               "seed": 7, "max_rounds": 2, "shape": "large-K"}
    for _ in range(ctx.n(24, 3000)):
        yield ctor_case(rng)
    for _ in range(ctx.n(3, 300)):
        yield history_case(rng)
    for _ in range(ctx.n(8, 400)):
        yield dsupdate_case(rng)
    for _ in range(ctx.n(4, 280)):
        yield monitor_case(rng)
    # the corner of the parameter space where the union bounds are tightest, always
    if ctx.worker == 0:
        for alg in SUM_ALGS:
            for m in (2, 6):
                yield {"kind": "sum", "alg": alg, "K": 1, "m": m, "delta": 0.999, "T": 100000}
    n_s = ctx.n(700, 60000)
    for i in range(n_s):
        yield sched_case(rng, SCHED_ALGS[i % len(SCHED_ALGS)], structured=(i % 2 == 0))
    for _ in range(ctx.n(150, 6000)):
        yield region_case(rng, ctx.nprng)
    for i in range(ctx.n(120, 6000)):
        yield sum_case(rng, structured=(i % 2 == 0))


# ------------------------------------------------------------------------------------- sched
def run_sched(ctx, case):
    alg = case["alg"]
    args = (alg, case["K"], case["m"], case["delta"], case["round"], case["noise_var"], case["c"])
    vhat = case.get("vhat")
    ctx.count("sched_" + alg)
    ctx.count("sched_contraction_" + ("1" if case["c"] == 1.0 else "other"))
    try:
        real = real_scale(*args, vhat=vhat)
    except Exception as e:  # the schedule is defined for every delta in (0,1), K, m >= 1, round >= 1
        ctx.violation(f"sched-crash:{alg}:" + core.exc_key(e),
                      f"{alg}: the real schedule method raised {type(e).__name__}: {e}", case)
        ctx.case_done(case, True)
        return
    model = model_scale(ctx, *args, vhat=vhat)
    if not close(real, model, RTOL_SCHED):
        ctx.violation(f"sched:{alg}", f"{alg}: schedule value differs from the model term (rel tol {RTOL_SCHED})",
                      case, kind="F", detail={"impl": real, "model": model})
    ctx.case_done(case, True)


# ------------------------------------------------------------------------------------- region
def run_region(ctx, case):
    from vopy.design_space import FixedPointsDesignSpace

    alg, typ, K, m = case["alg"], case["type"], case["K"], case["m"]
    ctx.count(f"region_{alg}_{typ}")
    o = make(alg, K, m, case["delta"], case["round"], case["noise_var"], case["c"])
    pts = np.hstack([np.zeros((K, 1)), np.arange(K)[:, None].astype(float)])
    ds = FixedPointsDesignSpace(pts, m, confidence_type="hyperrectangle" if typ == "rect" else "hyperellipsoid")
    o.design_space = ds
    means, covs = np.array(case["means"], dtype=float), np.array(case["covs"], dtype=float)
    variances = None
    if alg == "aueremp":
        variances = np.array([np.diag(v) for v in case["variances"]])
    o.model = StubModel(means, covs, variances=variances)
    o.model.track_variances = alg == "aueremp"  # as Auer.__init__ / the use_empirical_beta setter leave it
    o.S = set(case["S"])
    if alg in ("vogp", "epal"):
        o.P = set(case["other"])
    elif alg not in ("auer", "aueremp"):
        o.U = set(case["other"])
        o.P = set(case["other"])
    active = sorted(set(case["S"]) | set(case["other"]))
    before = [(np.array(r.lower), np.array(r.upper)) if typ == "rect" else (np.array(r.center), np.array(r.sigma), r.alpha)
              for r in ds.confidence_regions]
    try:
        type(o).modeling(o)
    except Exception as e:
        ctx.violation(f"region-crash:{alg}:" + core.exc_key(e), f"{alg}.modeling raised {type(e).__name__}: {e}", case)
        ctx.case_done(case, True)
        return
    # scale the real code fed into design_space.update
    scale_attr = {"paveba": "r_t", "pavebagp": "alpha_t", "partialgp": "alpha_t", "vogp": "beta", "epal": "beta",
                  "auer": "beta_t", "aueremp": "beta_t"}[alg]
    used_raw = getattr(o, scale_attr)
    S_sorted = list(o.S) if alg in ("auer", "aueremp") else None
    if S_sorted is not None:
        # Auer's width store is an internal representation (dict by design / positional array / table by design …):
        # read it through the shared helper and realign with list(S); an unrecognised form is not guessed — the
        # "code's own scale" sub-check is skipped, the displayed boxes are still compared with the model's schedule
        from harness import stubs

        try:
            w = stubs.auer_get_widths(o, S_sorted)
            used_raw = [w[d] for d in S_sorted]
        except (stubs.AuerWidthFormUnknown, KeyError, ValueError):
            ctx.count("auer_width_store_unreadable_info")
            used_raw = np.full((len(S_sorted), m, 2), np.nan)  # shape no branch below accepts
    used = np.asarray(used_raw, dtype=float)
    bad = None
    for i in range(K):
        reg = ds.confidence_regions[i]
        if i not in active:
            same = (np.array_equal(reg.lower, before[i][0]) and np.array_equal(reg.upper, before[i][1])) if typ == "rect" \
                else (np.array_equal(reg.center, before[i][0]) and np.array_equal(reg.sigma, before[i][1])
                      and reg.alpha == before[i][2])
            if not same:
                bad = f"design {i} is not active but its region changed"
            continue
        # model scale for this design
        if alg == "aueremp":
            msc = [model_scale(ctx, alg, K, m, case["delta"], case["round"], case["noise_var"], case["c"],
                               vhat=case["variances"][i][j]) for j in range(m)]
        else:
            s = model_scale(ctx, alg, K, m, case["delta"], case["round"], case["noise_var"], case["c"])
            msc = [s] * m
        if typ == "rect":
            # region the model builds from the model's scale; and from the code's own scale (isolates update())
            ans = ctx.ask("rect", core.qvec(means[i]), core.qvec(np.diag(covs[i])), core.qvec(msc))
            lo, up = [[bits_to_float(t) for t in part.split(",")] for part in ans.split(";")]
            rl, ru = np.asarray(reg.lower, dtype=float).ravel(), np.asarray(reg.upper, dtype=float).ravel()
            if rl.shape != (m,) or ru.shape != (m,):
                bad = f"design {i}: region bounds have shape {rl.shape}"
                continue
            for j in range(m):
                # compare half-widths and centres (1e-9 through the schedule, 1e-12 through update())
                if not (close(rl[j], lo[j], 1e-9) or abs(rl[j] - lo[j]) <= 1e-9 * abs(up[j] - lo[j])) or \
                        not (close(ru[j], up[j], 1e-9) or abs(ru[j] - up[j]) <= 1e-9 * abs(up[j] - lo[j])):
                    bad = f"design {i} objective {j}: bounds [{rl[j]}, {ru[j]}] vs model [{lo[j]}, {up[j]}]"
            if alg in ("auer", "aueremp"):
                row = S_sorted.index(i)
                csc = used[row] if used.ndim == 2 else (np.repeat(used, m) if used.ndim < 2 else np.zeros(0))
            else:
                csc = np.repeat(np.atleast_1d(used), m)[:m] if used.size == 1 else used.ravel()
            if np.asarray(csc).shape == (m,):
                ans2 = ctx.ask("rect", core.qvec(means[i]), core.qvec(np.diag(covs[i])), core.qvec(csc))
                lo2, up2 = [[bits_to_float(t) for t in part.split(",")] for part in ans2.split(";")]
                for j in range(m):
                    if not close(rl[j], lo2[j], RTOL_REGION) or not close(ru[j], up2[j], RTOL_REGION):
                        bad = (f"design {i} objective {j}: bounds [{rl[j]}, {ru[j]}] are not mean -/+ "
                               f"sqrt(cov_jj)*scale = [{lo2[j]}, {up2[j]}]")
        else:
            ans = ctx.ask("ell", core.qvec(means[i]), core.qmat(covs[i]), core.q(float(used)) if used.size == 1 else "x")
            if ans == "bad-op":
                bad = f"design {i}: scale fed to the ellipsoid is not a scalar"
                continue
            mc, msig, mal = ans.split("|")
            if core.qvec(np.asarray(reg.center, dtype=float).ravel()) != mc or \
                    core.qmat(np.asarray(reg.sigma, dtype=float).reshape(m, m)) != msig or \
                    core.q(float(np.asarray(reg.alpha, dtype=float))) != mal:
                bad = f"design {i}: ellipsoid (centre, sigma, alpha) is not (mean, cov, scale) exactly"
            if not close(float(np.asarray(reg.alpha, dtype=float)), msc[0], RTOL_SCHED):
                bad = f"design {i}: ellipsoid radius {float(np.asarray(reg.alpha))} vs model scale {msc[0]}"
    if bad:
        ctx.violation(f"region:{alg}:{typ}", f"{alg} ({typ}): region built by modeling() differs from the model: {bad}",
                      case, kind="F")
    nontriv = (len(active) < K) or any(not np.array_equal(np.array(c), np.eye(m)) for c in case["covs"])
    ctx.case_done(case, nontriv, canon=[alg, typ, case["means"], case["covs"], case["S"], case["other"],
                                        case["delta"], case["round"], case["c"]])


# ------------------------------------------------------------------------------------- sum
def _alg_of(sum_alg):
    return sum_alg.split("_")[0]


def code_scales(sum_alg, K, m, delta, rounds):
    """the code's scale at contraction 1 for an array of rounds (vectorised call of the real method,
    verified against scalar calls; scalar loop as fall-back).  `rounds` are the values of `self.round`."""
    alg = _alg_of(sum_alg)
    rounds = np.asarray(rounds)
    nv = 1.0
    try:
        if alg == "auer":
            o = make(alg, K, m, delta, rounds.reshape(-1, 1, 1), nv, 1.0)
            v = np.asarray(type(o).compute_beta(o), dtype=float)[:, 0, 0]
        else:
            o = make(alg, K, m, delta, rounds, nv, 1.0)
            meth = {"paveba": "compute_radius", "pavebagp": "compute_alpha", "partialgp": "compute_alpha",
                    "vogp": "compute_beta", "epal": "compute_beta"}[alg]
            v = np.asarray(getattr(type(o), meth)(o), dtype=float)
        if v.shape != rounds.shape:
            raise ValueError("vectorised call returned an unexpected shape")
        for k in {0, len(rounds) // 2, len(rounds) - 1}:
            s = real_scale(alg, K, m, delta, int(rounds[k]), nv, 1.0)
            if not (s == v[k] or (math.isnan(s) and math.isnan(v[k])) or close(s, v[k], 1e-13)):
                raise ValueError("vectorised call disagrees with the scalar call")
        return v, True
    except Exception:
        return np.array([real_scale(alg, K, m, delta, int(t), nv, 1.0) for t in rounds]), False


def tail_terms(sum_alg, K, m, rounds, scales):
    """exact per-round union-bound terms (all designs, all objectives) given the code's scales"""
    from scipy.special import erfc
    from scipy.stats import chi2

    alg = _alg_of(sum_alg)
    rounds = np.asarray(rounds, dtype=float)
    s = np.asarray(scales, dtype=float)
    if sum_alg == "paveba":
        # mean of t samples of N(f, nv I): ||mean - f||^2 * t / nv ~ chi2_m ; nv = 1 in code_scales
        term = K * chi2.sf(np.where(s >= 0, s * s, 0.0) * rounds, m)
    elif sum_alg == "auer":
        term = K * m * erfc(s * np.sqrt(rounds) / math.sqrt(2.0))
    elif sum_alg.endswith("_ell"):
        term = K * chi2.sf(np.where(s >= 0, s * s, 0.0), m)  # {||Sigma^-1/2 (f - mu)|| > scale}
    else:
        term = K * m * erfc(s / math.sqrt(2.0))  # {|f_j - mu_j| > scale * sigma_j}, all j
    return np.where(np.isnan(s), float(K), term)  # a NaN scale gives a NaN region: never contains the truth


def sum_bracket(ctx, sum_alg, K, m, dsched, T):
    """partial sum over T rounds + dyadic tail blocks of the union bound with the code's schedule computed
    for `dsched`; returns dict(partial, lower, upper, monotone, T)."""
    first = 0 if sum_alg in ("vogp", "epal") else 1  # value of self.round in the first round
    rounds = np.arange(first, first + T, dtype=np.int64)
    sc, vec = code_scales(sum_alg, K, m, dsched, rounds)
    if not vec:
        ctx.count("sum_scalar_fallback")
        T = min(T, 3000)
        rounds, sc = rounds[:T], sc[:T]
    terms = tail_terms(sum_alg, K, m, rounds if first == 1 else rounds + 1, sc)
    partial = float(np.sum(terms[::-1]))  # small terms first
    # dyadic blocks beyond T: rounds index n = 1.. (n = round - first + 1)
    ns = [T * 2 ** k for k in range(0, 45)]
    alg = _alg_of(sum_alg)
    bs = [real_scale(alg, K, m, dsched, n - 1 + first, 1.0, 1.0) for n in ns]
    bt = [float(tail_terms(sum_alg, K, m, [n], [b])[0]) for n, b in zip(ns, bs)]
    monotone = all(bt[k + 1] <= bt[k] * (1 + 1e-9) for k in range(len(bt) - 1)) and \
        all(terms[k + 1] <= terms[k] * (1 + 1e-9) + 1e-300 for k in range(0, len(terms) - 1, max(1, len(terms) // 997)))
    lower_tail = sum((ns[k + 1] - ns[k]) * bt[k + 1] for k in range(len(ns) - 1))
    upper_tail = sum((ns[k + 1] - ns[k]) * bt[k] for k in range(len(ns) - 1)) + bt[-1] * ns[-1]
    return {"partial": partial, "lower": partial + (lower_tail if monotone else 0.0), "upper": partial + upper_tail,
            "monotone": monotone, "T": T}


def run_sum(ctx, case):
    sum_alg, K, m, delta, T = case["alg"], case["K"], case["m"], case["delta"], case["T"]
    ctx.count("sum_" + sum_alg)
    try:
        b = sum_bracket(ctx, sum_alg, K, m, delta, T)
    except Exception as e:
        ctx.violation(f"sum-crash:{sum_alg}:" + core.exc_key(e),
                      f"{sum_alg}: the real schedule method raised {type(e).__name__}: {e}", case)
        ctx.case_done(case, True)
        return
    partial, lower, upper, monotone, T = b["partial"], b["lower"], b["upper"], b["monotone"], b["T"]
    ratio = upper / delta
    ctx.count("sum_ratio_%s" % ("<1e-3" if ratio < 1e-3 else "<0.1" if ratio < 0.1 else "<0.5" if ratio < 0.5
                                else "<=1" if ratio <= 1 else ">1"))
    key = None
    if not (lower <= delta * (1 + 1e-12)):  # also catches NaN
        ctx.violation(f"sum:{sum_alg}", f"{sum_alg}: union-bound sum over all designs, objectives and rounds with the "
                      f"code's scale at contraction 1 is >= {lower:.6g} > delta = {delta} (K={K}, m={m})", case,
                      kind="R", detail={"partial_sum_T": partial, "T": T, "lower": lower, "upper": upper})
    elif not monotone or not (upper <= delta * (1 + 1e-12)):
        # no failing input exhibited, but the numeric certificate of 'sum <= delta' is lost
        ctx.violation(f"sum-open:{sum_alg}", f"{sum_alg}: numeric bracket of the union-bound sum no longer certifies "
                      f"<= delta (lower {lower:.6g}, upper {upper:.6g}, delta {delta}, monotone={monotone})", case,
                      kind="F", detail={"partial_sum_T": partial, "T": T, "lower": lower, "upper": upper})
    if ratio > ctx.__dict__.setdefault("_c04_worst", {}).get(sum_alg, (0,))[0]:
        ctx._c04_worst[sum_alg] = (ratio, K, m, delta)
        ctx.infos[:] = [s for s in ctx.infos if not s.startswith(f"worst sum/delta {sum_alg}:")]
        ctx.infos.append(f"worst sum/delta {sum_alg}: {ratio:.4g} at K={K} m={m} delta={delta}")
    ctx.case_done(case, partial > 0, canon=[sum_alg, K, m, delta])


# ------------------------------------------------------------------------------------- ctor
def run_ctor(ctx, case):
    from harness import stubs

    name = case["alg"]
    sched_key, sum_key, meth = CTOR_ALGS[name]
    K, m, delta, eps, t, nv, c = (case["K"], case["m"], case["delta"], case["epsilon"], case["round"],
                                  case["noise_var"], case["c"])
    ctx.count("ctor_" + name)
    ctx.count("ctor_delta_%s" % ("<1e-6" if delta < 1e-6 else ">1-1e-6" if delta > 1 - 1e-6 else "ordinary"))
    rs = np.random.RandomState(case["seed"])
    Y = rs.randint(-16, 17, size=(K, m)) / 8.0
    X = np.arange(K, dtype=float)[:, None]
    kw = dict(in_data=X, out_data=Y, epsilon=eps, delta=delta, noise_var=nv, conf_contraction=c)
    if name not in ("EpsilonPAL", "Auer"):
        kw["W"] = np.eye(m).tolist()
    if name not in ("PaVeBa", "Auer"):
        cls = stubs.ScriptedModelList if "Partial" in name else stubs.ScriptedModel
        kw["model"] = cls(X, Y.copy(), np.array([np.eye(m) * 0.25] * K))
    try:
        a = stubs.build(name, **kw)
        a.round = t
        val = np.asarray(getattr(a, meth)(), dtype=float)
    except Exception as e:  # every delta in (0,1), epsilon >= 0 is an admissible configuration
        ctx.violation(f"ctor-crash:{name}:" + core.exc_key(e),
                      f"{name}: constructor / schedule raised {type(e).__name__}: {e} for an admissible configuration",
                      case)
        ctx.case_done(case, True)
        return
    stored = float(a.delta)
    if stored != delta:
        if stored > delta:
            ctx.violation(f"delta-altered-by-constructor:{name}",
                          f"{name}: requested delta = {delta!r} but the object computes its schedules with delta' = "
                          f"{stored!r} > delta: the confidence it delivers is 1 - delta', weaker than requested",
                          case, kind="R", detail={"requested": delta, "stored": stored})
            # the failing input in numbers: union-bound sum of the delta' schedule against the requested delta
            faithful = False
            try:  # the stub with the stored delta reproduces what the constructed object computes
                faithful = close(float(val.ravel()[0]), real_scale(sched_key, K, m, stored, t, nv, c), 1e-12)
            except Exception:
                pass
            if stored < 1 and faithful:
                try:
                    b = sum_bracket(ctx, sum_key, K, m, stored, 20000)
                    if not (b["lower"] <= delta):
                        ctx.violation(f"sum:{sum_key}",
                                      f"{name}: union-bound sum over all designs, objectives and rounds of the schedule "
                                      f"the constructed object uses (delta' = {stored!r}, contraction 1) is >= "
                                      f"{b['lower']:.6g} > requested delta = {delta!r} (K={K}, m={m})", case, kind="R",
                                      detail=b)
                except Exception:
                    ctx.count("ctor_sum_not_evaluated_info")
        else:
            ctx.violation(f"delta-altered-conservatively:{name}",
                          f"{name}: requested delta = {delta!r} but the object stores delta' = {stored!r} < delta "
                          f"(more conservative schedule; no property violation)", case, kind="F",
                          detail={"requested": delta, "stored": stored})
    if float(a.epsilon) != eps:
        ctx.violation(f"epsilon-altered-by-constructor:{name}", f"{name}: requested epsilon = {eps!r}, stored "
                      f"{float(a.epsilon)!r}", case, kind="F")
    if int(a.design_space.cardinality) != K or int(a.m) != m:
        ctx.violation(f"ctor-attributes:{name}", f"{name}: cardinality/m stored as "
                      f"{a.design_space.cardinality}/{a.m}, expected {K}/{m}", case, kind="F")
    real = float(val.ravel()[0]) if val.size else float("nan")
    if val.size > 1 and not (np.all(val == val.ravel()[0]) or np.all(np.isnan(val))):
        ctx.violation(f"ctor-schedule:{name}", f"{name}: schedule entries differ across designs/objectives", case, kind="F")
    model = model_scale(ctx, sched_key, K, m, delta, t, nv, c)
    if not close(real, model, RTOL_SCHED):
        under = real < model or math.isnan(real)
        ctx.violation(f"ctor-schedule:{name}",
                      f"{name}: the constructed object's {meth}() = {real} at round {t}, but the schedule term at the "
                      f"REQUESTED delta = {delta} is {model}" + (" (region under-sized)" if under else ""), case,
                      kind="R" if (under and stored > delta) else "F", detail={"impl": real, "model": model,
                                                                               "stored_delta": stored})
    ctx.case_done(case, True)


# ------------------------------------------------------------------------------------- dsupdate
def run_dsupdate(ctx, case):
    from vopy.design_space import FixedPointsDesignSpace

    K, m, typ = case["K"], case["m"], case["type"]
    ctx.count("dsupdate_" + case["empty"])
    pts = np.hstack([np.zeros((K, 1)), np.arange(K)[:, None].astype(float)])
    ds = FixedPointsDesignSpace(pts, m, confidence_type="hyperrectangle" if typ == "rect" else "hyperellipsoid")
    model = StubModel(np.array(case["means"], dtype=float), np.array([np.eye(m)] * K))

    def snap():
        if typ == "rect":
            return [(np.array(r.lower, dtype=float).ravel().tolist(), np.array(r.upper, dtype=float).ravel().tolist())
                    for r in ds.confidence_regions]
        return [(np.array(r.center, dtype=float).ravel().tolist(), np.array(r.sigma, dtype=float).ravel().tolist(),
                 float(np.asarray(r.alpha, dtype=float))) for r in ds.confidence_regions]

    empty = {"list": [], "array": np.array([], dtype=int), "tuple": (), "set": set()}[case["empty"]]
    try:
        if case["first"]:
            ds.update(model, np.array(case["scale0"]), list(case["first"]))  # some designs already have a region
        before = snap()
    except Exception as e:
        ctx.violation("dsupdate-crash:" + core.exc_key(e), f"design_space.update raised {type(e).__name__}: {e}", case,
                      kind="F")
        ctx.case_done(case, True)
        return
    try:
        ds.update(model, np.array(case["scale1"]), empty)
    except Exception:
        ctx.count("dsupdate_empty_rejected_info")  # refusing an odd container is fine; updating everything is not
    after = snap()
    moved = [i for i in range(K) if after[i] != before[i]]
    if moved:
        ctx.violation("empty-index-list-updates",
                      f"FixedPointsDesignSpace.update(model, scale, {empty!r}) rebuilt the regions of designs {moved} with "
                      f"scale {case['scale1']}: an empty index collection means 'update nothing' — the bandit radii are "
                      f"valid only for designs sampled in the current round", case, kind="R", detail={"moved": moved})
    ctx.case_done(case, True)


# ------------------------------------------------------------------------------------- history
def run_history(ctx, case):
    from vopy.models import EmpiricalMeanVarModel

    K, m, i, n, pattern = case["K"], case["m"], case["design"], case["n"], case["pattern"]
    ctx.count("history_" + pattern)
    rs = np.random.RandomState(case["seed"])
    data = rs.randint(-64, 65, size=(n, m)) / 16.0  # dyadic: sums are exact
    model = EmpiricalMeanVarModel(1, m, case["noise_var"], K, track_variances=case["track_variances"])
    if pattern == "one":
        batches = [n]
    elif pattern == "halves":
        batches = [n // 2, n - n // 2]
    elif pattern == "4096+singles":
        batches = [4096] + [1] * min(n - 4096, 64)
        batches.append(n - sum(batches))
    elif pattern == "chunks":
        batches = [1000] * (n // 1000) + [n % 1000]
    else:
        batches = [1] * n
    try:
        pos = 0
        for b in batches:
            if b <= 0:
                continue
            chunk = data[pos:pos + b]
            pos += b
            if b == 1:  # the shape evaluating() produces: one row per index
                model.add_sample([i], chunk.reshape(1, m))
            else:       # several samples for one index in one call (y.reshape(-1, output_dim))
                model.add_sample([i], chunk[None, :, :])
        for j in range(K):  # the other designs hold a short history
            if j != i:
                model.add_sample([j], data[:3][None, :, :])
        model.update()
        mu, _ = model.predict(np.array([[0.0, float(i)]]))
        held = len(model.design_samples[i])
        mean = np.asarray(model.means[i], dtype=float)
    except Exception as e:
        ctx.violation("history-crash:" + core.exc_key(e), f"EmpiricalMeanVarModel raised {type(e).__name__}: {e}", case)
        ctx.case_done(case, True)
        return
    true_mean = data.sum(axis=0) / n
    bad = []
    if held != n:
        bad.append(f"design {i} was given {n} samples but holds {held}")
    if not np.all(np.abs(mean - true_mean) <= 1e-12) or not np.all(np.abs(np.asarray(mu).ravel() - true_mean) <= 1e-12):
        bad.append(f"reported mean {mean.tolist()} is not the mean of all {n} samples {true_mean.tolist()}")
    if bad:
        ctx.violation("sampling-assumption:long-history",
                      "EmpiricalMeanVarModel: " + "; ".join(bad) + " — the round-t radius of PaVeBa/Auer is valid for "
                      "a mean of t samples", case, kind="R", detail={"given": n, "held": held, "batches": batches[:8]})
    ctx.case_done(case, True)


# ------------------------------------------------------------------------------------- monitor
def run_monitor(ctx, case):
    from scipy.special import erfc
    from scipy.stats import chi2

    from harness import stubs

    alg = case["alg"]
    key_alg = alg.lower()
    Y = np.array(case["Y"], dtype=float)
    K, m = Y.shape
    delta, nv = case["delta"], case["noise_var"]
    ctx.count("monitor_" + key_alg)
    kw = dict(in_data=np.arange(K, dtype=float)[:, None], out_data=Y, epsilon=case["epsilon"], delta=delta,
              noise_var=nv, conf_contraction=1)
    if alg == "PaVeBa":
        kw["W"] = case["W"]
    a = stubs.build(alg, **kw)
    ds = a.design_space
    rec = stubs.RecordingProblem.attach(a)  # which design every observation was requested FOR
    own_sum = np.zeros((K, m))
    own_cnt = [0] * K
    rec_pos = [0]

    def absorb_observations():
        for call in rec.calls[rec_pos[0]:]:
            x = np.asarray(call["x"], dtype=float).reshape(len(call["values"]), -1)
            for row, val in zip(x, np.asarray(call["values"], dtype=float)):
                j = int(np.argmin(np.abs(np.arange(K) - row[0])))  # nearest design (inputs are 0..K-1)
                own_sum[j] += val  # dyadic observations: exact sums
                own_cnt[j] += 1
        del rec.calls[:]
        rec_pos[0] = 0

    refreshed = []
    real_update = ds.update

    def recording_update(model, scale, indices_to_update=None):
        refreshed.append(list(range(ds.cardinality)) if indices_to_update is None
                         else [int(i) for i in indices_to_update])
        return real_update(model, scale, indices_to_update)

    ds.update = recording_update  # instance attribute of this run's design space only

    def snapshot():
        out = []
        for reg in ds.confidence_regions:
            if alg == "PaVeBa":
                out.append((np.array(reg.center, dtype=float).ravel().tolist(),
                            np.array(reg.sigma, dtype=float).ravel().tolist(), float(np.asarray(reg.alpha, dtype=float))))
            else:
                out.append((np.array(reg.lower, dtype=float).ravel().tolist(),
                            np.array(reg.upper, dtype=float).ravel().tolist()))
        return out

    ever_active, skipped = set(), set()
    pdiffu_rounds = nonasc_rounds = 0
    jump = int(case.get("jump", 0))
    if jump:
        ctx.count("monitor_jump_started")
    total, total_reentry = 0.0, 0.0
    rounds = u_rounds = 0
    problems = []  # (key, kind, what, detail) — first of each key is reported
    with stubs.dyadic_noise(case["seed"]):
        if jump:  # t0 rounds without any decision: the real evaluating() t0 times, then round = t0
            for _ in range(jump):
                a.evaluating()
            a.round = jump
        for _ in range(case["max_rounds"]):
            refreshed.clear()
            in_P_before = set(a.P)
            notU_before = set(a.P) - set(getattr(a, "U", set()))
            S_before = set(a.S)
            regions_before = snapshot()
            counts_before = [len(sm) for sm in a.model.design_samples]
            try:
                done = a.run_one_step()
            except Exception as e:  # crashes of whole runs are C06's subject; here the monitor is simply lost
                problems.append((f"monitor-crash:{key_alg}:" + core.exc_key(e), "F",
                                 f"{alg}.run_one_step raised {type(e).__name__}: {e}", None))
                break
            t = int(a.round)
            rounds += 1
            if len(refreshed) != 1:
                problems.append((f"monitor-refresh:{key_alg}", "F",
                                 f"{alg}: design_space.update called {len(refreshed)} times in round {t}", None))
                break
            handed = list(refreshed[0])
            if handed != sorted(handed):
                nonasc_rounds += 1
            if notU_before and S_before:
                pdiffu_rounds += 1
            regions_after = snapshot()
            changed = [i for i in range(K) if regions_after[i] != regions_before[i]]
            outside = sorted(set(changed) - set(handed))
            if outside:  # a region that moved without going through design_space.update is refreshed all the same
                ctx.count("monitor_changed_outside_update_info")
            R = sorted(set(handed) | set(changed))
            if not set(a.S) <= set(R):
                problems.append((f"monitor-refresh:{key_alg}", "F",
                                 f"{alg}: round {t}: undecided designs {sorted(set(a.S) - set(R))} were not refreshed", None))
            if any(i in in_P_before for i in R):
                u_rounds += 1
            counts = [len(sm) for sm in a.model.design_samples]
            if alg == "PaVeBa":
                sched = model_scale(ctx, "paveba", K, m, delta, t, nv, 1.0)
            else:
                sched = model_scale(ctx, "auer", K, m, delta, t, nv, 1.0)
            means = np.asarray(a.model.means, dtype=float)
            absorb_observations()
            for i in R:
                n = counts[i]
                reentry = i in skipped
                reg = ds.confidence_regions[i]
                # (a) the displayed centre is this design's OWN posterior mean (exact for EmpiricalMeanVar)
                if alg == "PaVeBa":
                    centre = np.asarray(reg.center, dtype=float).ravel()
                    own = np.array_equal(centre, means[i])
                else:
                    lo_, up_ = np.asarray(reg.lower, dtype=float).ravel(), np.asarray(reg.upper, dtype=float).ravel()
                    centre = (lo_ + up_) / 2.0
                    own = bool(np.all(np.abs(centre - means[i]) <= 1e-12 * (1.0 + np.abs(lo_) + np.abs(up_))))
                if not own:
                    whose = [j for j in range(K) if np.allclose(centre, means[j], rtol=0, atol=1e-12)]
                    problems.append((f"region-not-from-own-posterior:{key_alg}", "R",
                                     f"{alg}: round {t}: the region displayed for design {i} is centred at {centre.tolist()} "
                                     f"but the model's mean for design {i} is {means[i].tolist()}"
                                     + (f" (that is design {whose[0]}'s mean)" if whose else "")
                                     + f"; true value {Y[i].tolist()}, radius/half-width {sched}",
                                     {"round": t, "design": i, "update_order": handed, "true_value": Y[i].tolist(),
                                      "distance_truth_centre": float(np.linalg.norm(centre - Y[i]))}))
                # (a') ... and the mean of the observations that were requested for THIS design
                if own_cnt[i] > 0:
                    own_mean = own_sum[i] / own_cnt[i]
                    if not np.all(np.abs(centre - own_mean) <= 1e-12 * (1.0 + np.abs(own_mean))):
                        problems.append((f"region-not-from-own-observations:{key_alg}", "R",
                                         f"{alg}: round {t}: the region displayed for design {i} is centred at "
                                         f"{centre.tolist()} but the {own_cnt[i]} observations requested for design {i} "
                                         f"average to {own_mean.tolist()} (true value {Y[i].tolist()}, radius/half-width "
                                         f"{sched}): observations are booked on the wrong design",
                                         {"round": t, "design": i, "update_order": handed,
                                          "model_samples": counts, "requested_samples": list(own_cnt)}))
                # (b) a design whose region is rebuilt this round must have been sampled this round
                if counts[i] != counts_before[i] + 1:
                    problems.append((f"sampling-assumption:{key_alg}", "R",
                                     f"{alg}: in round {t} the region of design {i} was rebuilt with the round-{t} radius "
                                     f"but the design was not sampled this round ({counts_before[i]} -> {counts[i]} samples)",
                                     {"round": t, "design": i, "samples": counts, "refreshed": R, "S": sorted(a.S),
                                      "P": sorted(a.P), "U": sorted(getattr(a, "U", []))}))
                if alg == "PaVeBa":
                    shown = float(np.asarray(reg.alpha, dtype=float))
                    ident = np.array_equal(np.asarray(reg.sigma, dtype=float).reshape(m, m), np.eye(m))
                    if not close(shown, sched, RTOL_SCHED) or not ident:
                        problems.append((f"monitor-radius:{key_alg}", "F",
                                         f"PaVeBa round {t} design {i}: displayed radius {shown} (identity shape: {ident}) "
                                         f"vs schedule term {sched}", None))
                    term = float(chi2.sf(max(shown, 0.0) ** 2 * n / nv, m)) if shown == shown else 1.0
                else:
                    lo, up = np.asarray(reg.lower, dtype=float).ravel(), np.asarray(reg.upper, dtype=float).ravel()
                    half = (up - lo) / 2.0
                    if not all(abs(h - sched) <= 1e-9 * (1.0 + abs(sched) + abs(l) + abs(u)) for h, l, u in zip(half, lo, up)):
                        problems.append((f"monitor-radius:{key_alg}", "F",
                                         f"Auer round {t} design {i}: half-widths {half.tolist()} vs schedule term {sched}", None))
                    # per-sample variance: the configured one, at most 1 as the property says
                    term = float(sum(erfc(max(h, 0.0) * math.sqrt(n / min(1.0, nv)) / math.sqrt(2.0)) if h == h else 1.0
                                     for h in half))
                if n == t:
                    ctx.count("monitor_refreshed_with_round_samples")
                    total += term
                elif n < t and reentry:
                    ctx.count("reentered_U_info")
                    total_reentry += term
                elif n < t:
                    problems.append((f"sampling-assumption:{key_alg}", "R",
                                     f"{alg}: in round {t} the region of design {i} was refreshed with the round-{t} "
                                     f"radius but the design holds only {n} samples (the schedule is valid for a mean of "
                                     f"{t} samples)", {"round": t, "design": i, "samples": counts, "refreshed": R,
                                                        "S": sorted(a.S), "P": sorted(a.P), "U": sorted(getattr(a, "U", []))}))
                    total += term
                else:
                    ctx.count("monitor_more_samples_than_rounds_info")  # conservative for validity
                    total += term
            ever_active |= set(R)
            skipped |= {i for i in ever_active if i not in R}
            if done:
                break
        if rounds and len(a.S) == 0 and not any(k.startswith("monitor-crash") for k, *_ in problems):
            # the run is over (empty active set): the public modeling() / one more run_one_step() must not
            # rebuild any region — nothing is sampled any more
            ctx.count("monitor_post_termination_probes")
            for label in ("modeling", "run_one_step"):
                before, cb = snapshot(), [len(sm) for sm in a.model.design_samples]
                try:
                    getattr(a, label)()
                except Exception as e:
                    problems.append((f"monitor-post-termination-crash:{key_alg}", "F",
                                     f"{alg}.{label}() after termination raised {type(e).__name__}: {e}", None))
                    continue
                after, ca = snapshot(), [len(sm) for sm in a.model.design_samples]
                moved = [i for i in range(K) if after[i] != before[i] and ca[i] == cb[i]]
                if moved:
                    problems.append((f"sampling-assumption:{key_alg}", "R",
                                     f"{alg}: after the run finished in round {int(a.round)} (no active design), "
                                     f"{label}() rebuilt the regions of designs {moved} with the current radius although "
                                     f"none of them was sampled (they hold {[ca[i] for i in moved]} samples)",
                                     {"round": int(a.round), "designs": moved, "samples": ca}))
    ctx.count("monitor_rounds", rounds)
    ctx.count("monitor_rounds_with_U", u_rounds)
    ctx.count("monitor_rounds_with_P_minus_U_and_S", pdiffu_rounds)
    ctx.count("monitor_rounds_nonascending_update_order", nonasc_rounds)
    if not (total <= delta * (1 + 1e-12)):
        problems.append((f"sum:{key_alg}-actual-counts", "R",
                         f"{alg}: union-bound sum over this run with the ACTUAL sample counts n_i,t and the displayed "
                         f"radii is {total:.6g} > delta = {delta}", {"sum": total, "rounds": rounds}))
    elif total + total_reentry > delta:
        ctx.count("reentry_sum_exceeds_delta_info")
    seen = set()
    for key, kind, what, detail in problems:
        if key not in seen:
            seen.add(key)
            ctx.violation(key, what, case, kind=kind, detail=detail)
    ctx.case_done(case, (u_rounds > 0) if alg == "PaVeBa" else rounds >= 2)


def run_case(ctx, case):
    kind = case["kind"]
    if kind == "sched":
        run_sched(ctx, case)
    elif kind == "region":
        run_region(ctx, case)
    elif kind == "sum":
        run_sum(ctx, case)
    elif kind == "monitor":
        run_monitor(ctx, case)
    elif kind == "ctor":
        run_ctor(ctx, case)
    elif kind == "history":
        run_history(ctx, case)
    elif kind == "dsupdate":
        run_dsupdate(ctx, case)
    else:
        raise ValueError(f"unknown case kind {kind}")
