"""C18 extension — `calculate_design_vh`, `should_refine_design` and `VOGP_AD.compute_beta` against the
`RealLike` terms of `Model/AdaptiveVh.lean` evaluated at `Float` (driver ops `vh`, `refine`, `cmp`, `adbeta` of
`driver_c18`).

Used by `harness/props/c18.py` through hooks: `capture` (everything one `should_refine_design` call reads, taken
at call time with the real functions) and `compare` in the space and run families, `beta_compare` on every
recorded `compute_beta` call of the run family, and the direct case kinds ``vh`` / ``beta``
(`gen_vh`, `run_vh`, `gen_beta`, `run_beta`).  `scripted_gp_class` of c18.py is imported lazily.
"""
import numpy as np

from harness import core


def _scripted_gp_class():
    from harness.props import c18

    return c18.scripted_gp_class()

def _bits2f(t):
    import struct

    return float("nan") if t == "nan" else struct.unpack("<d", struct.pack("<Q", int(t)))[0]


def _relclose(a, b, tol=1e-9):
    a, b = float(a), float(b)
    if a != a or b != b:
        return (a != a) and (b != b)
    return abs(a - b) <= tol * max(abs(a), abs(b))


def _viol_once(ctx, key, what, case, detail=None, kind="F"):
    seen = ctx.__dict__.setdefault("_c18_keys", {})
    seen[key] = seen.get(key, 0) + 1
    ctx.count("viol_" + key)
    if seen[key] <= 2:
        ctx.violation(key, what, case, kind=kind, detail=detail)


def _vh_inputs(ds, model):
    """the lengthscales / variances exactly as `calculate_design_vh` reads them (entry i for objective i), or
    None where the real code cannot index them (finding D8)"""
    ls, var = model.get_lengthscale_and_var()
    ls, var = np.asarray(ls, dtype=float), np.asarray(var, dtype=float)
    m = ds.objective_dim
    if ls.ndim != 1 or var.ndim != 1 or len(ls) < m or len(var) < m:
        return None
    return ls[:m], var[:m]


def capture(ds, model, idx, scale, offsets=(0,)):
    """everything `should_refine_design(model, idx, scale)` reads, taken at call time with the real functions
    (pure: no state of the design space or the model changes)"""
    cap = {"d": int(ds.domain_dim), "m": int(ds.objective_dim), "delta": float(ds.delta),
           "depth": int(ds.point_depths[idx]), "max_depth": int(ds.max_depth), "skip": None, "vh": {}, "diag": None,
           "scale": np.atleast_1d(np.asarray(scale, dtype=float)).reshape(-1).copy()}
    try:
        lv = _vh_inputs(ds, model)
    except Exception:
        lv = None
    if lv is None:
        cap["skip"] = "skipped_d8_info"
        return cap
    cap["ls"], cap["var"] = lv[0].copy(), lv[1].copy()
    for off in offsets:
        try:
            cap["vh"][off] = np.asarray(ds.calculate_design_vh(model, idx, off), dtype=float).reshape(-1).copy()
        except Exception as e:
            cap["skip"] = "crash_info:" + core.exc_key(e)
            return cap
    try:
        _, cov = model.predict(ds.points[[idx]])
        cap["diag"] = np.diag(np.asarray(cov, dtype=float).squeeze()).astype(float).copy()
        if 0 in cap["vh"]:
            # the code's own operands, by the code's own expressions (used for the exact comparison stage only)
            std = np.sqrt(np.diag(np.asarray(cov).squeeze()))
            cap["lhs_np"] = np.atleast_1d(np.asarray(scale * np.linalg.norm(std), dtype=float)).reshape(-1).copy()
            cap["rhs_np"] = float(np.linalg.norm(cap["vh"][0].reshape(-1, 1)))
    except Exception as e:
        cap["diag_err"] = core.exc_key(e)
    return cap


def compare(ctx, case, cap, answer, fam):
    """real calculate_design_vh / should_refine_design (captured) against the Float instance of
    Model/AdaptiveVh.lean"""
    if cap["skip"]:
        ctx.count(f"vh_{fam}_{cap['skip']}")
        return
    d, m, delta, depth, md = cap["d"], cap["m"], cap["delta"], cap["depth"], cap["max_depth"]
    ls, var = cap["ls"], cap["var"]
    for off, vh in cap["vh"].items():
        ans = ctx.ask("vh", str(d), str(m), core.q(delta), str(depth), str(off), core.qvec(ls), core.qvec(var))
        mv = [] if ans in ("_", "bad-op") else [_bits2f(t) for t in ans.split(",")]
        ctx.count(f"vh_{fam}_values", len(mv))
        if len(mv) != len(vh) or any(not _relclose(x, y) for x, y in zip(vh, mv)):
            _viol_once(ctx, "vh-value", "calculate_design_vh differs from the model term (4·term1·(sqrt(C2 + 2·term2 + "
                       "term3 + term4) + C3) with the code's constants) by more than 1e-9 relative", case,
                       detail={"d": d, "m": m, "delta": delta, "depth": depth, "offset": off, "lengthscales": ls.tolist(),
                               "variances": var.tolist(), "code": vh.tolist(), "model": mv})
            return
    if answer is None:
        return
    gate = depth >= md
    if cap["diag"] is None:
        if not gate:
            ctx.count(f"vh_{fam}_predict_crash_info:" + cap.get("diag_err", "?"))
            return
        diag = np.zeros(m)
    else:
        diag = cap["diag"]
    sc = cap["scale"]
    ans = ctx.ask("refine", str(d), str(m), core.q(delta), str(depth), str(md), core.qvec(ls),
                  core.qvec(var), core.qvec(sc), core.qvec(diag))
    f = ans.split(" ")
    if len(f) != 3:
        _viol_once(ctx, "refine-model-undefined", f"model answers {ans[:80]!r} for a should_refine_design call", case)
        return
    decision = f[0] == "1"
    lhs = [] if f[1] == "_" else [_bits2f(t) for t in f[1].split(",")]
    rhs = _bits2f(f[2])
    if gate:
        ctx.count(f"refine_{fam}_gate")
        if answer:
            _viol_once(ctx, "refine-beyond-max-depth", f"should_refine_design answered True for a node at depth {depth} "
                       f">= max_depth {md}", case, kind="R", detail={"depth": depth, "max_depth": md})
            return
    if not gate and "lhs_np" in cap:
        # (i) operands: scale_j·‖std‖ and ‖Vh‖ as the code computes them against the model's (1e-9)
        if len(lhs) != len(cap["lhs_np"]) or not _relclose(cap["rhs_np"], rhs) or \
                any(not (_relclose(x, y) or abs(x - y) <= 1e-300) for x, y in zip(cap["lhs_np"], lhs)):
            _viol_once(ctx, "refine-operands", "the operands of should_refine_design's comparison (scale_j·‖std‖, ‖Vh‖) "
                       "differ from the model's by more than 1e-9 relative", case,
                       detail={"code_lhs": cap["lhs_np"].tolist(), "model_lhs": lhs, "code_rhs": cap["rhs_np"],
                               "model_rhs": rhs})
            return
        # (ii) comparison stage on the code's own operands: exact (this is where `<=` vs `<` shows, at ties)
        cm = ctx.ask("cmp", core.qvec(cap["lhs_np"]), core.q(cap["rhs_np"]))
        tie = any(float(x) == cap["rhs_np"] for x in cap["lhs_np"])
        ctx.count(f"refine_{fam}_cmp_{'tie' if tie else 'strict'}")
        if cm not in ("0", "1") or (cm == "1") != bool(answer):
            _viol_once(ctx, "should-refine-comparison", "should_refine_design's answer is not np.all(lhs <= rhs) of its "
                       "own operands (model: Vh.allLe)" + (" — an exact tie lhs == rhs" if tie else ""), case,
                       detail={"code": bool(answer), "model": cm, "lhs": cap["lhs_np"].tolist(), "rhs": cap["rhs_np"],
                               "tie": tie})
            return
    border = (not gate) and any(_relclose(l, rhs) for l in lhs)
    if border:
        ctx.count(f"refine_{fam}_borderline")
        return
    ctx.count(f"refine_{fam}_{'true' if decision else 'false'}")
    if bool(answer) != decision:
        _viol_once(ctx, "should-refine-decision", "should_refine_design differs from the model's decision "
                   "(depth gate, then all_j scale_j·‖std‖ <= ‖Vh‖) outside the 1e-9 band", case,
                   detail={"code": bool(answer), "model": decision, "lhs": lhs, "rhs": rhs, "depth": depth,
                           "max_depth": md, "scale": sc.tolist(), "diag_cov": diag.tolist()})


def beta_compare(ctx, case, ob, fam):
    nv, delta, det, c, b = ob
    ans = ctx.ask("adbeta", core.q(nv), core.q(delta), core.q(det), core.q(c))
    mv = _bits2f(ans) if ans != "bad-op" else None
    ctx.count(f"beta_{fam}_values")
    bb = np.asarray(b, dtype=float).reshape(-1)
    if mv is None or len(bb) != 1 or not _relclose(bb[0], mv):
        _viol_once(ctx, "compute-beta", "VOGP_AD.compute_beta differs from the model term sqrt((0.1 + sqrt(noise_var·"
                   "log(det(Kn+I)/noise_var) − 2·log δ))² / conf_contraction) by more than 1e-9 relative", case,
                   detail={"noise_var": nv, "delta": delta, "det": det, "contraction": c, "code": bb.tolist(),
                           "model": mv})
    elif mv != mv:
        ctx.count(f"beta_{fam}_nan_both")


VH_SHAPES = ["largeC", "smallC", "mixed", "boundary", "gate", "vector-scale", "tinystd", "tie"]


def gen_vh(ctx, rng, j):
    shape = VH_SHAPES[j % len(VH_SHAPES)]
    d = rng.choice([1, 2, 2, 3])
    m = rng.choice([2, 2, 3, 4])
    depth = rng.randint(1, 4 if d == 3 else 6)
    md = depth if shape == "gate" and rng.random() < 0.7 else rng.choice([depth + 1, depth + 2, 7, max(0, depth - 1)])

    def lsv(kind):
        if kind == "largeC":      # Cki·v1·ρ^depth ≥ 1 mostly: term4 = 0
            return rng.choice([0.002, 0.01, 0.03125]), rng.choice([1.0, 4.0, 9.0, 2.5])
        if kind == "smallC":      # term1 < 1: term4 active
            return rng.choice([0.5, 1.0, 2.0, 3.7]), rng.choice([0.01, 0.25, 1.0, 0.6])
        return rng.uniform(0.01, 3.0), rng.uniform(0.01, 5.0)

    kinds = {"largeC": ["largeC"] * m, "smallC": ["smallC"] * m}.get(
        shape, [rng.choice(["largeC", "smallC", "any"]) for _ in range(m)])
    pairs = [lsv(k) for k in kinds]
    case = {"kind": "vh", "shape": shape, "d": d, "m": m, "delta": rng.choice([0.05, 0.1, 0.01, 0.3]),
            "depth": depth, "max_depth": md, "ls": [p[0] for p in pairs], "var": [p[1] for p in pairs],
            "diag": [rng.choice([1e-8, 1e-4, 0.01, 0.3, 1.0, 4.0]) if shape != "tinystd" else rng.choice([0.0, 1e-30, 1e-12])
                     for _ in range(m)],
            "offsets": [0, -1, 1] if rng.random() < 0.5 else [0]}
    if shape == "tie":
        # std = (1, 0, …, 0): ‖std‖ = 1 exactly, scale = ‖Vh‖ (or its float neighbours): lhs == rhs bit for bit
        case["diag"] = [1.0] + [0.0] * (m - 1)
        case["scale"] = {"ulps": rng.choice([0, 0, 0, 1, -1])}
        case["max_depth"] = depth + rng.randint(1, 3)
        case["offsets"] = [0]
    elif shape == "boundary":
        case["scale"] = {"at": rng.choice([0.0, 1e-13, -1e-13, 1e-6, -1e-6, 1e-3, -1e-3])}
    elif shape == "vector-scale":
        case["scale"] = [rng.choice([0.01, 0.5, 1.0, 30.0, 1e3, 1e5]) for _ in range(m)]
    else:
        case["scale"] = rng.choice([0.01, 0.45, 2.5, 50.0, 1e4, 1e7])
    return case


def run_vh(ctx, case):
    from vopy.design_space import AdaptivelyDiscretizedDesignSpace

    d, m = case["d"], case["m"]
    ctx.count("vh_shape_" + case["shape"])
    ds = AdaptivelyDiscretizedDesignSpace(d, m, case["delta"], case["max_depth"])
    stub = _scripted_gp_class()(d, m)
    ls, var = np.array(case["ls"], dtype=float), np.array(case["var"], dtype=float)
    stub.get_lengthscale_and_var = lambda: (ls, var)
    stub.forced_stds = np.sqrt(np.array(case["diag"], dtype=float))
    i = 0
    for _ in range(case["depth"] - 1):
        i = int(ds.refine_design(i)[-1])
    n_pts = len(ds.points)
    if not (len(ds.point_depths) == n_pts == len(ds.cells) == len(ds.confidence_regions)) or not (0 <= i < n_pts):
        # the real design space's parallel arrays fell out of step while setting the case up: that is the
        # property's own invariant (every node has a point, a cell, a depth and a region), not a harness matter
        ctx.violation("vh-setup-arrays-out-of-step",
                      "after refining, points / cells / point_depths / confidence_regions have different lengths "
                      "or refine_design returned an invalid child index", case, kind="R",
                      detail={"points": n_pts, "depths": len(ds.point_depths), "cells": len(ds.cells),
                              "regions": len(ds.confidence_regions), "child": i})
        ctx.case_done(case, True)
        return
    if ds.point_depths[i] != case["depth"]:
        ctx.count("vh_depth_setup_differs_info")
    sc = case["scale"]
    if isinstance(sc, dict) and "ulps" in sc:
        nv = float(np.linalg.norm(np.asarray(ds.calculate_design_vh(stub, i), dtype=float)))
        scale = np.float64(nv if sc["ulps"] == 0 else np.nextafter(nv, np.inf if sc["ulps"] > 0 else -np.inf))
    elif isinstance(sc, dict):
        # scale placed at (1 + at) times the decision boundary ‖Vh‖ / ‖std‖ computed with the real functions
        vh = np.asarray(ds.calculate_design_vh(stub, i), dtype=float)
        _, cov = stub.predict(ds.points[[i]])
        nstd = float(np.linalg.norm(np.sqrt(np.diag(cov.squeeze()))))
        scale = np.float64((1.0 + sc["at"]) * float(np.linalg.norm(vh)) / nstd) if nstd > 0 else np.float64(1.0)
    elif isinstance(sc, list):
        scale = np.array(sc, dtype=float)
    else:
        scale = np.float64(sc)
    try:
        ans = bool(ds.should_refine_design(stub, i, scale))
    except Exception as e:
        _viol_once(ctx, "vh-crash:" + core.exc_key(e), f"should_refine_design raised {type(e).__name__}: {e}", case, kind="R")
        ctx.case_done(case, False)
        return
    compare(ctx, case, capture(ds, stub, i, scale, offsets=tuple(case["offsets"])), ans, "direct")
    ctx.case_done(case, ds.point_depths[i] < case["max_depth"], canon=case)


BETA_SHAPES = ["rbf", "psd", "identity", "tiny", "nan"]


def gen_beta(ctx, rng, j):
    shape = BETA_SHAPES[j % len(BETA_SHAPES)] if j % 11 else "nan"
    n = rng.randint(1, 8)
    case = {"kind": "beta", "shape": shape, "n": n, "seed": rng.randrange(10 ** 6),
            "noise_var": rng.choice([0.01, 0.0001, 0.04, 0.25, 1.0]), "delta": rng.choice([0.05, 0.1, 0.01, 0.5]),
            "contraction": rng.choice([1, 4, 32, 128, 0.5])}
    if shape == "nan":   # radicand negative: noise_var > det(K+I), delta close to 1
        case.update({"noise_var": rng.choice([50.0, 400.0]), "delta": 0.99, "n": 1})
    return case


def run_beta(ctx, case):
    import types

    import vopy.algorithms.vogp_ad as vad

    rs = np.random.RandomState(case["seed"])
    n = case["n"]
    ctx.count("beta_shape_" + case["shape"])
    if case["shape"] == "rbf":
        X = rs.rand(n, 2)
        D = ((X[:, None, :] - X[None, :, :]) ** 2).sum(-1)
        Kn = rs.choice([0.5, 1.0, 2.0]) * np.exp(-D / (2 * rs.choice([0.1, 0.5, 1.0]) ** 2))
    elif case["shape"] == "psd":
        A = rs.randn(n, n)
        Kn = A @ A.T * rs.choice([0.1, 1.0, 10.0])
    elif case["shape"] == "identity":
        Kn = np.eye(n)
    else:
        Kn = np.eye(n) * 1e-6
    fake = types.SimpleNamespace(model=types.SimpleNamespace(evaluate_kernel=lambda: Kn),
                                 problem=types.SimpleNamespace(noise_var=case["noise_var"]),
                                 delta=case["delta"], conf_contraction=case["contraction"])
    import warnings

    with warnings.catch_warnings():
        warnings.simplefilter("ignore")
        try:
            b = vad.VOGP_AD.compute_beta(fake)
        except Exception as e:
            _viol_once(ctx, "beta-crash:" + core.exc_key(e), f"compute_beta raised {type(e).__name__}: {e}", case, kind="F")
            ctx.case_done(case, False)
            return
    det = float(np.linalg.det(Kn + np.eye(len(Kn))))
    beta_compare(ctx, case, (float(case["noise_var"]), float(case["delta"]), det, float(case["contraction"]), b),
                  "direct")
    ctx.case_done(case, n >= 2 and case["shape"] in ("rbf", "psd"), canon=case)

