"""C03 — a design enters P exactly when no active region can still ε-cover it; U; Auer's hold-back.

Same two streams and the same generators as C02 (`harness/props/c02.py` hosts the shared
machinery); this module observes `P_after − P_before`, `S_after`, `U_after` (and VOGP_AD's
gate/latch) of the REAL `pareto_updating()` / `useful_updating()` / `epsiloncovering()` against the
Lean model (driver_c03), and — for Auer — the two-stage P1/P2 rule evaluated with every design's
own width row (`auer`, `around`).  The literal positional mirror of the ORIGINAL code (`auerpos`,
`aroundpos`: `beta_t[pt_i]` re-read by position after discarding shrank S) is kept for
localisation only: a disagreement with the own-width rule that the positional mirror reproduces is
reported as `auer-width-by-position` (DESIGN §5 D2 — reproduced on the original tree, since
repaired in /repo; corpus/C03/d2-*.json are its regression cases).
"""
import os

os.environ.setdefault("OMP_NUM_THREADS", "1")

from harness.props import c02 as base

TITLE = "P-entry (pareto_updating / epsiloncovering), U and Auer's hold-back vs Lean model"
RULE = (base.RULE.replace("non-trivial = at least one design eliminated and at least one design of S not eliminated",
                          "non-trivial = at least one candidate enters P and at least one candidate does not")
        + "; Auer cases where discarding removed a design that precedes a survivor in the iteration order are "
          "counted as auer_positions_shifted")
ASSUMPTIONS = base.ASSUMPTIONS
MAX_JOBS = base.MAX_JOBS
gen = base.gen


def run_case(ctx, case):
    base.run_case_common(ctx, case, "C03")
