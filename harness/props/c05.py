"""C05 — VOGP / ε-PAL keep ε-isolated optima; P is internally non-ε-dominated.

Whole runs of the REAL `VOGP` and `EpsilonPAL` classes (built by `harness.stubs.build` on unscaled
synthetic datasets, rectangles) with a `ScriptedModel` posterior installed before every
`run_one_step()`: its mean is pushed away from the truth by `frac` (< 1) of the displayed
half-width towards the side that favours a wrong discard / a wrong Pareto move; widths are
anisotropic, differ per design and shrink geometrically (machinery shared with `c01.py`).

After every round the displayed rectangle of every design of S ∪ P is exported exactly and the Lean
driver decides `μ_i ∈ R_t(i)` (`Accuracy.inBox`).  If the truth left a rectangle the run is counted
(`premise_failed`) and not judged.  At termination the driver evaluates exactly, on the true means
and with the slack the algorithm exported (`u_star_eps` for VOGP, ε·𝟙 for ε-PAL):
`Accuracy.keepsIsolated` (every design that no other design matches up to the slack is in P) and
`Accuracy.internallyNondom` (no member of P is dominated by another member by more than the slack) — (R).

Bonus (F) stream ("decided rounds"): when every displayed rectangle is so small that each
`is_dominated` / `is_covered` answer among S ∪ P is determined by the true means with a margin *and*
the pessimistic set is determined, the driver replays `Steps.vogpRound` (`vround`) and the resulting
(S, P) must equal the implementation's.
"""
from __future__ import annotations

import numpy as np

from harness import core
from harness.cones import EXACT_CONES
from harness.props import c01
from harness.props import c01_core

TITLE = "whole VOGP / ε-PAL runs under valid adversarial posteriors: isolated optima kept, P internally non-dominated"
RULE = ("cases: (algorithm ∈ {VOGP, EpsilonPAL}, cone with integer rows (VOGP), dyadic true means with ties / "
        "chains / fronts / gaps at ε(1±2^-6) in units of the slack, ε, δ, contraction, batch size 1–4, adversary = "
        "direction mode × per-design anisotropic widths × shrink rates); non-trivial = premise held in every "
        "round, the run terminated, and (some design is isolated and some is not) or P ≠ all designs; distinct "
        "by the whole case")
ASSUMPTIONS = [
    "containment of the truth is decided exactly on the exported floats",
    "the conclusions are evaluated with the slack vector the algorithm exported (u_star_eps / ε·𝟙)",
]
MAX_JOBS = 14

ALGS = ("VOGP", "EpsilonPAL")
CONES2 = ["orthant2", "acute2", "obtuse2", "skew2", "redundant2", "threefacet2"]
CONES3 = ["orthant3", "acute3", "obtuse3", "fourfacet3"]


def slack_of(alg):
    """the slack the algorithm itself uses (decided-round replay: what the code does)"""
    if alg.verif_name == "VOGP":
        return np.asarray(alg.u_star_eps, dtype=float).reshape(-1)
    return np.ones(alg.m) * float(alg.epsilon)


def true_slack(alg, W):
    """the slack of the PROPERTY: ε·u* with u* computed here from its definition (direction of the least-norm z
    with W z ≥ 1, exact active-set enumeration) — never read from the algorithm; ε·𝟙 for ε-PAL"""
    if alg.verif_name == "VOGP":
        return float(alg.epsilon) * ustar_estimate(W)
    return np.ones(alg.m) * float(alg.epsilon)


def gen_Y(rng, n, m, W, s, shape):
    """true means; `s` = an estimate of the slack vector (ε·u*), used to place designs just inside / outside
    the slack of one another"""
    W_ = np.array(W, dtype=float)
    s = np.array(s, dtype=float)

    def lat(lo=-8, hi=8, p=2):
        return np.array([core.dyadic(rng, lo, hi, p) for _ in range(m)])

    u = c01.interior_direction(W)
    if u is None:
        u = np.ones(m)
    pts = []
    if shape == "random":
        pts = [lat() for _ in range(n)]
    elif shape == "ties":
        pts = [lat() for _ in range(max(1, n // 2))]
        while len(pts) < n:
            pts.append(pts[rng.randrange(len(pts))].copy())
    elif shape == "slack-boundary":
        # j = i + f·s : exactly f slacks ahead (f around 1 → i is / is not matched by j up to the slack)
        base = [lat(-6, 6) for _ in range(max(1, n // 2))]
        pts = [b.copy() for b in base]
        while len(pts) < n:
            b = base[rng.randrange(len(base))]
            f = rng.choice([1 - 2.0 ** -6, 1 + 2.0 ** -6, 0.5, 2.0, -(1 - 2.0 ** -6), -(1 + 2.0 ** -6), -0.5, -2.0])
            pts.append(b + f * s)
    elif shape == "chain":
        base = lat(-4, 4)
        f = rng.choice([0.5, 1 - 2.0 ** -6, 1 + 2.0 ** -6, 2.0])
        pts = [base + k * f * s for k in range(n)]
    elif shape == "front":
        k = max(2, n // 2)
        base = lat(-4, 4)
        if m == 2:
            tdir = np.array([-u[1], u[0]])
        else:
            tdir = np.cross(u, np.array([1.0, 0.0, 0.0]) if abs(u[0]) < 0.9 * np.linalg.norm(u) else np.array([0.0, 1.0, 0.0]))
        tdir = tdir / np.abs(tdir).max()
        front = [base + (i - k / 2) * tdir * rng.choice([0.5, 1.0, 2.0]) for i in range(k)]
        pts = [p.copy() for p in front]
        while len(pts) < n:
            b = front[rng.randrange(k)]
            f = rng.choice([0.25, 1 - 2.0 ** -6, 1 + 2.0 ** -6, 1.5, 4.0])
            pts.append(b - f * s + rng.choice([0.0, 0.25, -0.25]) * np.linalg.norm(s) * tdir)
    elif shape == "near-facet":
        base = lat(-4, 4)
        pts = [base]
        while len(pts) < n:
            w = W_[rng.randrange(len(W_))]
            off = rng.choice([0.5, 1.0, 1.5]) * s
            nudge = -w / float(w @ w) * (float(w @ off) + np.linalg.norm(s) * rng.choice([2.0 ** -6, -(2.0 ** -6), 0.0, 0.125]))
            pts.append(base + off + nudge)
    rng.shuffle(pts)
    return [[float(x) for x in p] for p in pts[:n]]


_ustar_cache = {}


def ustar_estimate(W):
    """u* = z/‖z‖ for the least-norm z with W z ≥ 1 (the definition VOGP.compute_u_star implements), by exact
    active-set enumeration: z = W_Aᵀ λ with W_A W_Aᵀ λ = 1, λ ≥ 0, W z ≥ 1.  Independent of vopy; cross-checked
    against an SLSQP solve."""
    import itertools

    key = tuple(tuple(float(x) for x in r) for r in W)
    if key not in _ustar_cache:
        Wn = np.array(W, dtype=float)
        N, m = Wn.shape
        best = None
        for k in range(1, min(N, m) + 1):
            for A in itertools.combinations(range(N), k):
                WA = Wn[list(A)]
                G = WA @ WA.T
                if abs(np.linalg.det(G)) < 1e-12:
                    continue
                lam = np.linalg.solve(G, np.ones(k))
                if np.any(lam < -1e-10):
                    continue
                z = WA.T @ lam
                if np.all(Wn @ z >= 1 - 1e-9) and (best is None or z @ z < best @ best - 1e-12):
                    best = z
        if best is None:
            raise RuntimeError(f"no least-norm point for cone {W}")
        from scipy.optimize import minimize

        res = minimize(lambda z: float(z @ z), best * 1.5, method="SLSQP",
                       constraints=[{"type": "ineq", "fun": lambda z: Wn @ z - 1.0}])
        if res.success and np.linalg.norm(res.x - best) > 1e-4 * max(1.0, np.linalg.norm(best)):
            raise RuntimeError(f"independent u*: active-set {best} vs SLSQP {res.x}")
        _ustar_cache[key] = best / np.linalg.norm(best)
    return _ustar_cache[key]


def gen_case(rng, tier, alg=None, shape=None):
    alg = alg or rng.choice(ALGS)
    m = rng.choice([2, 2, 3]) if tier == "thorough" else rng.choice([2, 2, 2, 3])
    cone = ("orthant%d" % m) if alg == "EpsilonPAL" else rng.choice(CONES2 if m == 2 else CONES3)
    W = [[float(x) for x in r] for r in EXACT_CONES[cone][0]]
    eps = rng.choice([0.125, 0.25, 0.1, 0.3, 0.5])
    s = eps * (np.ones(m) if alg == "EpsilonPAL" else ustar_estimate(W))
    n = rng.randint(3, 8 if tier == "thorough" else 6)
    shape = shape or rng.choice(["random", "ties", "slack-boundary", "chain", "front", "near-facet"])
    return {"kind": "run", "alg": alg, "cone": cone, "shape": shape, "Y": gen_Y(rng, n, m, W, s, shape), "eps": eps,
            "delta": rng.choice([0.05, 0.1, 0.01]), "noise_var": 0.01, "conf": rng.choice([32, 16, 64, 9, 4]),
            "batch": rng.choice([1, 1, 1, 2, 2, 3, 4]), "adv": c01.gen_adv(rng, n, m, alg)}


def bait_case(rng, kind, alg=None):
    """Two structured histories aimed at the two halves of the property.
    `discard`: design 0 is ε-isolated (design 1 lies 1.5 slacks below it) but its rectangle is wide and hangs
    below the truth (truth near the upper corner), so design 1 pessimistically dominates it and it sits in
    S − pessimistic set for many rounds: only the exact slack and the restriction of witnesses protect it.
    `cover`: design 0 reaches P at once (tiny rectangle); design 1 lies 1.5 slacks below it with a wide
    rectangle pushed upwards, so that it is alone in S while only a member of P still ε-covers it."""
    alg = alg or rng.choice(ALGS)
    m = 2
    cone = "orthant2" if alg == "EpsilonPAL" else rng.choice(CONES2)
    W = [[float(x) for x in r] for r in EXACT_CONES[cone][0]]
    eps = rng.choice([0.125, 0.25, 0.5])
    s = eps * (np.ones(m) if alg == "EpsilonPAL" else ustar_estimate(W))
    base = np.array([core.dyadic(rng, -4, 4, 2) for _ in range(m)])
    f = rng.choice([1.5, 1.25, 1.75])
    Y = [[float(x) for x in base], [float(x) for x in base - f * s]]
    extra = rng.randint(0, 2)
    for _ in range(extra):   # far-away dominated bystanders
        Y.append([float(x) for x in base - (8 + rng.randint(0, 4)) * s * rng.choice([1.0, 2.0])])
    n = len(Y)
    delta, conf = 0.05, rng.choice([32, 16, 9])
    beta0 = float(np.sqrt(2 * np.log(m * n * np.pi ** 2 / ((3 if alg == "VOGP" else 6) * delta)) / conf))
    wide = rng.choice([2.0, 3.0, 5.0]) * float(np.max(np.abs(s))) / beta0
    tiny = 2.0 ** -8
    sd0 = [[tiny] * m for _ in range(n)]
    shrink = [0.5] * n
    k = 0 if kind == "discard" else 1
    sd0[k] = [wide] * m
    shrink[k] = rng.choice([0.8, 0.9])
    return {"kind": "run", "alg": alg, "cone": cone, "shape": "bait-" + kind, "Y": Y, "eps": eps, "delta": delta,
            "noise_var": 0.01, "conf": conf, "batch": 1,
            "adv": {"mode": "lift-dominated", "frac": rng.choice([1 - 2.0 ** -6, 1 - 2.0 ** -5]), "sd0": sd0,
                    "shrink": shrink, "seed": rng.randrange(1 << 30)}}


def corner_case(rng, cones=None):
    """Over-optimistic region domination on acute cones (VOGP): victim 0 is ε-isolated (the witness 1 plus the
    slack lies just outside `μ_0 + C`), its box hangs below the truth so that the witness pessimistically
    dominates it (victim ∉ pessimistic set, witness ∈), boxes anisotropic; corner-to-corner dominance with the
    slack holds although some cross pair of vertices fails.  `c01.corner_pair` does the rejection sampling."""
    for _ in range(20):
        cname = rng.choice(cones or c01.CORNER_CONES_ANY)
        W = c01.acute_cone(cname)
        m = len(W[0])
        eps = rng.choice([0.1, 0.05, 0.25])
        s = eps * ustar_estimate(W)
        got = c01.corner_pair(rng, W, s, want_pess=True)
        if got is None:
            continue
        Y, off, half = got
        n = len(Y)
        tiny = [[2.0 ** -7] * m for _ in range(n)]
        return {"kind": "run", "alg": "VOGP", "cone": cname, "W": W, "shape": "acute-corner", "Y": Y, "eps": eps,
                "delta": 0.05, "noise_var": 0.01, "conf": rng.choice([32, 9]), "batch": 1,
                "adv": {"mode": "boxes", "frac": 1.0, "sd0": [[1.0] * m] * n, "shrink": [0.5] * n,
                        "seed": rng.randrange(1 << 30), "tail_shrink": 0.5,
                        "history": [[off, half], [[[0.0] * m] * n, tiny]]}}
    return None


PROMOTE_CONES = ["theta45", "theta30", "theta60", "acute2", "skew2", "acute3"]


def lp_feasible(Wn, lo0, hi0, lo1, hi1, margin):
    """∃ z ∈ [lo0, hi0], z' ∈ [lo1, hi1] with W(z' − z) ≥ margin ?  (scipy linprog)"""
    from scipy.optimize import linprog

    m = Wn.shape[1]
    A = np.hstack([Wn, -Wn])            # variables (z, z'): W z − W z' ≤ −margin
    res = linprog(np.zeros(2 * m), A_ub=A, b_ub=-np.asarray(margin, dtype=float),
                  bounds=list(zip(lo0, hi0)) + list(zip(lo1, hi1)), method="highs")
    return res.status == 0


def promote_early_case(rng, tries=200):
    """VOGP on an acute cone with as many facets as objectives: design 1 dominates design 0 by MORE than the
    slack (μ_1 = μ_0 + f·s, f between 1 and u*_n/(W u*)_n), design 0 is already known well (tiny box) while
    design 1's box is still wide and hangs below its truth, so it can neither discard design 0 nor — if the
    covering test asked the per-facet margins ε·u* instead of W·(ε·u*) — cover it.  The correct test still
    covers design 0 (the truths themselves are a witness), so it must wait and is discarded later."""
    for _ in range(tries):
        cname = rng.choice(PROMOTE_CONES)
        W = c01.acute_cone(cname)
        Wn = np.array(W, dtype=float)
        N, m = Wn.shape
        if N != m:
            continue
        eps = rng.choice([0.2, 0.1, 0.4])
        s = eps * ustar_estimate(W)
        Ws = Wn @ s
        if np.any(Ws <= 1e-9):
            continue
        ratio = float(np.max(s / Ws))            # the facet on which ε·u* asks most in units of W·(ε·u*)
        if ratio < 1.15:
            continue
        f = 1.0 + rng.choice([0.25, 0.5, 0.75]) * (min(ratio, 3.0) - 1.0)
        g = f * s
        half1 = rng.choice([1.5, 2.0, 3.0]) * float(np.max(np.abs(g))) * np.ones(m)
        off1 = -(1 - rng.choice([0.05, 0.1])) * half1     # truth near the upper corner
        tiny = 2.0 ** -8 * np.ones(m)
        lo0, hi0 = -tiny, tiny
        lo1, hi1 = g + off1 - half1, g + off1 + half1
        # correct test: covered (truths are a witness, strictly)
        if not np.all(Wn @ (g - s) >= 1e-6):
            continue
        # per-facet reading W(z' − z) ≥ ε·u*: infeasible over the two boxes (exact LP, independent of the code)
        if lp_feasible(Wn, lo0, hi0, lo1, hi1, s * (1 - 1e-6)) or not lp_feasible(Wn, lo0, hi0, lo1, hi1, Ws * (1 + 1e-6)):
            continue
        # design 0 is not discarded in round 0: some vertex pair fails z' + s ≽ z
        if all(np.all(Wn @ (v1 + s - v0) >= 0) for v0 in c01.box_vertices(lo0, hi0) for v1 in c01.box_vertices(lo1, hi1)):
            continue
        Y = [[0.0] * m, [float(x) for x in g]]
        off = [[0.0] * m, [float(x) for x in off1]]
        half = [[float(x) for x in tiny], [float(x) for x in half1]]
        return {"kind": "run", "alg": "VOGP", "cone": cname, "W": W, "shape": "promote-early", "Y": Y, "eps": eps,
                "delta": 0.05, "noise_var": 0.01, "conf": rng.choice([32, 9]), "batch": 1,
                "adv": {"mode": "boxes", "frac": 1.0, "sd0": [[1.0] * m] * 2, "shrink": [0.5] * 2,
                        "seed": rng.randrange(1 << 30), "tail_shrink": 0.5,
                        "history": [[off, half], [[[0.0] * m] * 2, [[2.0 ** -8] * m] * 2]]}}
    return None


def offaxis_case(rng, tries=300):
    """VOGP on a cone whose axis is off the diagonal, so that u* has a NEGATIVE entry: design 1 = design 0 + c·u*
    dominates design 0 by more than the slack; both rectangles are wide in the objectives where u* is negative and
    narrow in the others, so design 0 cannot be discarded yet and is still ε-covered by design 1 (the truths are a
    witness) — while `u*·(upper_1 − lower_0)`, a bound that is valid only for u* ≥ 0, is below ε."""
    for _ in range(tries):
        cname = rng.choice(c01.OFFAXIS_CONES2 + c01.OFFAXIS_CONES2 + c01.OFFAXIS_CONES3)
        W = c01.acute_cone(cname)
        Wn = np.array(W, dtype=float)
        N, m = Wn.shape
        u = ustar_estimate(W)
        neg = u < -0.05
        if not np.any(neg):
            continue
        eps = rng.choice([0.1, 0.2, 0.05])
        s = eps * u
        g = rng.choice([0.5, 1.0, 2.0, 4.0 * eps]) * u
        if not np.all(Wn @ (g - s) >= 1e-6):
            continue
        narrow = rng.choice([0.02, 0.05, 0.1])
        need = (float(u @ g) - eps + float(np.abs(u[~neg]).sum()) * 2 * narrow * 2) / float(np.abs(u[neg]).sum())
        wide = max(0.5, need) * rng.choice([1.0, 2.0, 4.0])
        half = np.where(neg, wide, narrow)
        f0, f1 = rng.choice([0.0, 0.4, -0.4]), rng.choice([0.0, 0.4, -0.4])
        off0, off1 = f0 * half * np.where(neg, 1.0, 0.5), f1 * half * np.where(neg, 1.0, 0.5)
        lo0, hi0 = off0 - half, off0 + half
        lo1, hi1 = g + off1 - half, g + off1 + half
        if not float(u @ (hi1 - lo0)) < eps - 1e-6:              # the corner bound says "cannot cover"
            continue
        if not lp_feasible(Wn, lo0, hi0, lo1, hi1, (Wn @ s) * (1 + 1e-6)):   # … but it can
            continue
        if all(np.all(Wn @ (v1 + s - v0) >= 0) for v0 in c01.box_vertices(lo0, hi0) for v1 in c01.box_vertices(lo1, hi1)):
            continue                                             # design 0 must not be discardable yet
        Y = [[0.0] * m, [float(x) for x in g]]
        off = [[float(x) for x in off0], [float(x) for x in off1]]
        halfs = [[float(x) for x in half]] * 2
        if rng.random() < 0.5:      # an incomparable bystander far along a facet direction
            Y.append([float(x) for x in (10.0 * np.where(neg, 1.0, 0.0) - 0.0 * u)])
            off.append([0.0] * m)
            halfs = halfs + [[narrow] * m]
        n = len(Y)
        return {"kind": "run", "alg": "VOGP", "cone": cname, "W": W, "shape": "offaxis-ustar-negative", "Y": Y,
                "eps": eps, "delta": 0.05, "noise_var": 0.01, "conf": rng.choice([32, 9]),
                "batch": rng.choice([1, 2]) if n > 2 else 1,
                "adv": {"mode": "boxes", "frac": 1.0, "sd0": [[1.0] * m] * n, "shrink": [0.5] * n,
                        "seed": rng.randrange(1 << 30), "tail_shrink": 0.5,
                        "history": [[off, halfs], [[[0.0] * m] * n, [[2.0 ** -8] * m] * n]]}}
    return None


def offset_case(rng, tier, k):
    """large common offset (2^12 … 2^20) on structured VOGP / ε-PAL cases: baits (victim outside the pessimistic
    set with a tight would-be witness), acute-corner pairs, slack-boundary data"""
    kind = k % 4
    if kind == 0:
        base = bait_case(rng, "discard", ALGS[(k // 4) % 2])
    elif kind == 1:
        base = bait_case(rng, "cover", ALGS[(k // 4) % 2])
    elif kind == 2:
        base = corner_case(rng)
    else:
        base = gen_case(rng, tier, ALGS[(k // 4) % 2], rng.choice(["slack-boundary", "front", "near-facet", "ties"]))
        base["batch"] = rng.choice([1, 2])
    return None if base is None else c01.with_offset(rng, base)


VERTEX_CONES3 = ["order3d-acute", "acute3", "user3-mixed", "fourfacet3", "order3d-obtuse", "user3-asym", "pyr4_40_-1_2_2"]


def vertex3_case(rng, k):
    """VOGP, three objectives, non-orthant cone: as `corner_case`, and additionally every vertex pair drawn from
    a 4-element subset {lll, uuu, two more} of the 8 corner patterns is ordered — the k-th member uses the k-th of
    the 15 such subsets — so that an enumeration that produces only some of the corners says "dominated"."""
    import itertools

    others = [p for p in itertools.product((0, 1), repeat=3) if p not in ((0, 0, 0), (1, 1, 1))]
    subsets = list(itertools.combinations(others, 2))
    patterns = [(0, 0, 0), (1, 1, 1)] + list(subsets[k % len(subsets)])
    for _ in range(12):
        cname = rng.choice(VERTEX_CONES3)
        W = c01.acute_cone(cname)
        eps = rng.choice([0.1, 0.05, 0.25])
        s = eps * ustar_estimate(W)
        got = c01.corner_pair(rng, W, s, want_pess=True, patterns=patterns, tries=600)
        if got is None:
            continue
        Y, off, half = got
        return {"kind": "run", "alg": "VOGP", "cone": cname, "W": W, "shape": "vertex-subset-m3", "Y": Y, "eps": eps,
                "delta": 0.05, "noise_var": 0.01, "conf": rng.choice([32, 9]), "batch": 1,
                "adv": {"mode": "boxes", "frac": 1.0, "sd0": [[1.0] * 3] * 2, "shrink": [0.5] * 2,
                        "seed": rng.randrange(1 << 30), "tail_shrink": 0.5,
                        "history": [[off, half], [[[0.0] * 3] * 2, [[2.0 ** -7] * 3] * 2]]}}
    return None


USTAR_CONES = ["user2-scaled", "user2-skew", "user2-three", "user3-cut", "user3-cut-unit", "user3-asym", "skew2",
               "threefacet2", "fourfacet3"]


def wrong_ustars(Wn):
    """directions a wrong `compute_u_star` might return: mean of unit normals, mean of raw rows, the diagonal, the
    least-norm point of the row-normalised system"""
    m = Wn.shape[1]
    unit = Wn / np.linalg.norm(Wn, axis=1, keepdims=True)
    cands = [unit.mean(axis=0), Wn.mean(axis=0), np.ones(m), ustar_estimate(unit.tolist())]
    out = []
    for c in cands:
        if np.linalg.norm(c) > 0 and np.all(Wn @ c > 0):
            out.append(c / np.linalg.norm(c))
    return out


def ustar_direction_case(rng, tries=400):
    """VOGP on an asymmetric user cone (non-unit rows, a facet that is inactive for u*, N ≠ m): victim 0 is
    ε-isolated — witness 1 plus the TRUE slack ε·u* misses it on one facet by a small margin — its box hangs below
    the truth (outside the pessimistic set) and is so placed that with a WRONG slack direction of the same length
    every vertex pair would be ordered."""
    for _ in range(tries):
        cname = rng.choice(USTAR_CONES)
        W = c01.acute_cone(cname)
        Wn = np.array(W, dtype=float)
        N, m = Wn.shape
        u = ustar_estimate(W)
        twins = [t for t in wrong_ustars(Wn) if np.linalg.norm(t - u) > 0.05]
        if not twins:
            continue
        eps = rng.choice([0.1, 0.2, 0.4])
        s = eps * u
        t = twins[rng.randrange(len(twins))]
        gain = Wn @ (eps * t) - Wn @ s              # facets on which the wrong slack is more generous
        n0 = int(np.argmax(gain / np.linalg.norm(Wn, axis=1)))
        if gain[n0] <= 1e-3 * eps:
            continue
        h0 = rng.choice([0.3, 0.6, 1.0]) * eps * np.ones(m)      # wide, but the truth sits at its upper corner
        k = rng.randrange(m)
        h0[k] *= rng.choice([1.0, 2.0, 0.25])
        h1 = 2.0 ** -10 * np.ones(m)
        reach = np.abs(Wn) @ (2 * h0 + 2 * h1)
        target = 1.5 * reach + np.abs(Wn @ s) + rng.choice([0.1, 0.3])   # W(μ_1 − μ_0) on the other facets
        target[n0] = -(Wn @ s)[n0] - rng.choice([0.2, 0.4, 0.6]) * gain[n0]
        d, *_ = np.linalg.lstsq(Wn, target, rcond=None)
        fd = Wn @ d
        if not (fd[n0] + (Wn @ s)[n0] < -1e-6 and np.all(np.delete(fd + Wn @ s, n0) > 0)):
            continue
        off0 = -(1 - 2.0 ** -7) * h0                   # truth near the upper corner: the box hangs below
        lo0, hi0 = off0 - h0, off0 + h0
        lo1, hi1 = d - h1, d + h1
        v0s, v1s = c01.box_vertices(lo0, hi0), c01.box_vertices(lo1, hi1)
        if all(np.all(Wn @ (v1 + s - v0) >= -1e-9) for v0 in v0s for v1 in v1s):
            continue                                    # really dominated with the true slack
        if not all(np.all(Wn @ (v1 + eps * t - v0) >= 1e-6) for v0 in v0s for v1 in v1s):
            continue                                    # the wrong slack would not discard either
        if not all(np.all(Wn @ (v1 - lo0) >= 1e-6) for v1 in v1s):
            # the witness must pessimistically dominate the victim: lengthen the victim's box downwards along −d
            continue
        Y = [[0.0] * m, [float(x) for x in d]]
        off = [[float(x) for x in off0], [0.0] * m]
        half = [[float(x) for x in h0], [float(x) for x in h1]]
        return {"kind": "run", "alg": "VOGP", "cone": cname, "W": W, "shape": "ustar-direction", "Y": Y, "eps": eps,
                "delta": 0.05, "noise_var": 0.01, "conf": rng.choice([32, 9]), "batch": 1,
                "adv": {"mode": "boxes", "frac": 1.0, "sd0": [[1.0] * m] * 2, "shrink": [0.5] * 2,
                        "seed": rng.randrange(1 << 30), "tail_shrink": 0.5,
                        "history": [[off, half], [[[0.0] * m] * 2, [[2.0 ** -10] * m] * 2]]}}
    return None


def unbounded_cases():
    """fixed, every run: a design that has never been sampled has a FLAT (improper) prior — infinite posterior
    variance, displayed rectangle (−∞, +∞)^m, which trivially contains its truth.  Designs b and c start with
    overlapping rectangles (c's pessimistic corner above b's: b is outside the pessimistic set); all three are
    mutually ε-isolated, so all three must end in P.  Facet values of an unbounded rectangle are ±∞ or NaN
    (∞·0): an undefined comparison must never count as a domination certificate."""
    F = [[0.20, 0.95], [0.69, 0.60], [0.56, 0.74]]
    first = [[0.0, 0.0], [0.60, 0.60], [0.65, 0.65]]
    out = []
    for alg in ALGS:
        for perm in ([0, 1, 2], [2, 0, 1], [1, 2, 0]):
            inv = [perm.index(i) for i in range(3)]          # position of original design i
            Y = [F[perm[k]] for k in range(3)]
            m0 = [first[perm[k]] for k in range(3)]
            hw0 = [[None, None] if perm[k] == 0 else [0.1, 0.1] for k in range(3)]
            out.append({"kind": "unbounded", "alg": alg, "cone": "orthant2", "shape": "unbounded", "Y": Y, "eps": 0.05,
                        "delta": 0.1, "noise_var": 0.01, "conf": 16, "batch": 1, "perm": perm,
                        "script": [{"means": m0, "hw": hw0}, {"means": Y, "hw": [[2.0 ** -10] * 2] * 3}],
                        "adv": {"mode": "lift-dominated", "frac": 0.5, "sd0": [[2.0 ** -8] * 2] * 3,
                                "shrink": [0.5] * 3, "seed": 1}})
    return out


def run_unbounded(ctx, case):
    """whole real run under a scripted posterior with infinite variances; premise (truth inside every displayed
    rectangle, an infinite bound exported as ±2^80) and conclusion checked exactly as in `run_case`"""
    name = case["alg"]
    ctx.count("alg_" + name)
    ctx.count("shape_unbounded")
    W = c01.cone_W(case)
    Y = np.array(case["Y"], dtype=float)
    n, m = Y.shape
    try:
        alg, _adv = c01.build_algorithm(case)
    except Exception as e:
        ctx.violation(f"crash:{name}:init:" + core.exc_key(e), f"{name} constructor raised {e!r}", case, kind="R")
        ctx.case_done(case, False)
        return
    BIG = 2.0 ** 80
    t = 0
    while len(alg.S) > 0 and t < 40:
        active = c01.refreshed_before(alg)
        scale = c01.next_scale(alg)
        sc = case["script"][min(t, len(case["script"]) - 1)]
        means = np.array(sc["means"], dtype=float)
        var = np.array([[np.inf if h is None else (h / scale) ** 2 for h in row] for row in sc["hw"]], dtype=float)
        alg.model._install(means, var)
        try:
            alg.run_one_step()
        except Exception as e:
            ctx.violation(f"crash:{name}:" + core.exc_key(e), f"{name}.run_one_step raised with an unbounded displayed "
                          f"rectangle: {e!r}", case, kind="R", detail={"round": t})
            ctx.case_done(case, False)
            return
        t += 1
        for i in active:
            r = alg.design_space.confidence_regions[i]
            lo = np.clip(np.asarray(r.lower, dtype=float).reshape(-1), -BIG, BIG)
            hi = np.clip(np.asarray(r.upper, dtype=float).reshape(-1), -BIG, BIG)
            if np.isnan(lo).any() or np.isnan(hi).any() or ctx.ask("box", core.qvec(lo), core.qvec(hi), core.qvec(Y[i])) != "1":
                ctx.count("premise_failed_" + name)
                ctx.case_done(case, False)
                return
    if len(alg.S) > 0:
        ctx.count("status_round_cap")
        ctx.case_done(case, False)
        return
    P = sorted(int(i) for i in alg.P)
    s = true_slack(alg, W)
    ans = ctx.ask("final", core.qmat(W), core.qvec(s), core.qmat(Y), core.nats(P)).split(" ")
    iso = core.parse_nats(ans[2])
    detail = {"P": P, "rounds": t, "isolated": iso, "slack": [float(x) for x in s]}
    if ans[0] != "1":
        lost = [i for i in iso if i not in P]
        ctx.violation(f"isolated-lost:{name}", f"{name}: the truth stayed inside every displayed rectangle (one of them "
                      f"unbounded in the first round) and the run terminated, but the ε-isolated design(s) {lost} are "
                      "not in P", case, kind="R", detail=detail)
    if ans[1] != "1":
        ctx.violation(f"P-internally-dominated:{name}", f"{name}: a member of P is dominated by another member by more "
                      "than the ε-slack", case, kind="R", detail=detail)
    ctx.count("unbounded_terminated")
    ctx.case_done(case, True, canon=[name, case["perm"]])


def gen(ctx):
    rng = ctx.rng
    fam = c01.family
    if ctx.worker == 0:
        yield from unbounded_cases()
    # structured families (fixed sub-streams: identical in every quick run, whatever VERIF_SEED)
    yield from fam(ctx, "offset", 12, 240, lambda r, k: offset_case(r, ctx.tier, k))
    yield from fam(ctx, "offaxis", 8, 160, lambda r, k: offaxis_case(r))
    yield from fam(ctx, "promote-early", 8, 160, lambda r, k: promote_early_case(r))
    yield from fam(ctx, "acute-corner", 8, 160, lambda r, k: corner_case(r))
    yield from fam(ctx, "vertex-subset-m3", 15, 150, vertex3_case)
    yield from fam(ctx, "ustar-direction", 10, 160, lambda r, k: ustar_direction_case(r))
    yield from fam(ctx, "bait", 8, 24, lambda r, k: bait_case(r, ("discard", "cover")[k % 2], ALGS[(k // 2) % 2]))
    total = ctx.n(110, 1400)
    k = 0
    shapes = ["slack-boundary", "front", "ties", "chain", "near-facet", "random"]
    for alg in ALGS:
        for shape in shapes[: (3 if ctx.tier == "quick" else 6)]:
            if k >= total:
                return
            yield gen_case(rng, ctx.tier, alg, shape)
            k += 1
    while k < total:
        yield gen_case(rng, ctx.tier)
        k += 1


def decided_round(ctx, case, alg, adv, before, t, fstate):
    """(F): replay `Steps.vogpRound` when the truth determines every geometry answer of the round."""
    if fstate.get("mismatch"):
        return  # the trajectories have already diverged
    W = c01.cone_W(case)
    Wn = np.array(W, dtype=float)
    s = slack_of(alg)
    alive = sorted(set(before["S"]) | set(before["P"]))
    n = adv.n
    regs = alg.design_space.confidence_regions
    reach = {i: c01.region_reach(regs[i], W) for i in alive}
    thr = Wn @ s
    dom = [[None] * n for _ in range(n)]
    cov = [[None] * n for _ in range(n)]
    pess = [[None] * n for _ in range(n)]
    for i in alive:
        for j in alive:
            if i == j:
                continue
            d = Wn @ (adv.Y[j] - adv.Y[i])
            slop = (reach[i] + reach[j]) * 1.01 + 1e-7
            # is_dominated(R_i, R_j, s): ∀∀ W(z' + s − z) ≥ 0
            if np.all(d + thr - slop > 0):
                dom[i][j] = True
            elif np.any(d + thr + slop < 0):
                dom[i][j] = False
            # is_covered(R_i, R_j, s): ∃∃ W(z' − z − s) ≥ 0
            if np.all(d - thr >= 1e-7):
                cov[i][j] = True
            elif np.any(d - thr + slop < 0):
                cov[i][j] = False
            # check_dominates(R_j, R_i) (R_j pessimistically dominates R_i): true if every point of R_j dominates
            # every point of R_i with a margin; false if no point of R_j can dominate any point of R_i
            if np.all(d - slop > 0):
                pess[j][i] = True
            elif np.any(d + slop < 0):
                pess[j][i] = False
    Sb = set(before["S"])
    for i in range(n):
        if i not in Sb:
            dom[i] = [False] * n           # never consulted by the round
            cov[i] = [False] * n
    db, cb, pb = c01.bits3(dom, alive), c01.bits3(cov, alive), c01.bits3(pess, alive)
    ans = c01.determined_answer(lambda d_, c_, p_: ctx.ask("vround", str(n), d_, c_, p_, core.nats(before["S"]),
                                                           core.nats(before["P"])), [db, cb, pb])
    if ans is None:
        fstate["skipped"] += 1
        return
    got = ";".join([core.nats(sorted(alg.S)), core.nats(sorted(alg.P))])
    fstate["compared"] += 1
    if ans != got:
        fstate["mismatch"] = True
        ctx.violation(f"round-decided:{case['alg']}", f"{case['alg']}: in a round whose geometry answers are determined "
                      "by the true means (rectangles tiny) the sets after run_one_step() differ from the model round",
                      case, kind="F", detail={"round": t, "before": before, "impl": got, "model": ans,
                                              "dom": db, "cov": cb, "pess": pb})


def run_case(ctx, case):
    if case.get("kind") == "unbounded":
        return run_unbounded(ctx, case)
    name = case["alg"]
    ctx.count("alg_" + name)
    ctx.count("shape_" + case.get("shape", "?"))
    ctx.count("mode_" + case["adv"]["mode"])
    ctx.count("cone_" + case.get("cone", "orthant"))
    ctx.count("batch_%d" % case.get("batch", 1))
    W = c01.cone_W(case)
    Y = np.array(case["Y"], dtype=float)
    n, m = Y.shape
    cap = case.get("rounds", c01.ROUND_CAP.get(ctx.tier, 40))
    fstate = {"compared": 0, "skipped": 0}

    core_rec = c01_core.recorder(case)    # INTEGRATION: the whole run through Model/Core.lean (c01_core.py)

    traj = []

    def on_round(alg, adv, before, active, t):
        traj.append((sorted(alg.S), sorted(alg.P), []))
        decided_round(ctx, case, alg, adv, before, t, fstate)
        if core_rec is not None:
            core_rec.on_round(alg, adv, before, active, t)

    res = c01.run_history(ctx, case, cap, on_round=on_round)
    if core_rec is not None and not res["status"].startswith("crash"):
        core_rec.finish(ctx, case, res)
    c01.translation_twin_check(ctx, case, cap, traj, res)
    st = res["status"]
    ctx.count("status_" + (st if st.startswith("skipped") else st.split(":")[0]))
    ctx.count("rounds_total", res.get("rounds", 0))
    canon = [name, case.get("cone"), case["Y"], case["eps"], case["delta"], case["conf"], case["adv"], case.get("batch")]
    if st.startswith("crash"):
        ctx.violation(f"crash:{name}:{st.split(':', 1)[1]}", f"{name} raised during a run: {res.get('error')}", case,
                      kind="R", detail={"round": res.get("rounds")})
        ctx.case_done(case, False, canon=canon)
        return
    if st != "terminated":
        if st == "premise_failed":
            ctx.count("premise_failed_" + name)
        ctx.case_done(case, False, canon=canon)
        return
    alg = res["alg"]
    P = sorted(int(i) for i in alg.P)
    s = true_slack(alg, W)       # the property's slack, independent of the code under test
    own = slack_of(alg)
    if own.shape != s.shape or not np.allclose(own, s, rtol=1e-5, atol=1e-8):
        ctx.count("alg_slack_differs_from_independent_slack_info")
    ans = ctx.ask("final", core.qmat(W), core.qvec(s), core.qmat(Y), core.nats(P))
    parts = ans.split(" ")
    if len(parts) != 3 or parts[0] not in "01" or parts[1] not in "01":
        raise RuntimeError(f"driver answered {ans!r} to final")
    iso = core.parse_nats(parts[2])
    detail = {"P": P, "rounds": res["rounds"], "isolated": iso, "slack": [float(x) for x in s]}
    if parts[0] != "1":
        lost = [i for i in iso if i not in P]
        ctx.violation(f"isolated-lost:{name}", f"{name}: the truth stayed inside every displayed rectangle and the run "
                      f"terminated, but the ε-isolated design(s) {lost} are not in P", case, kind="R", detail=detail)
    if parts[1] != "1":
        ctx.violation(f"P-internally-dominated:{name}", f"{name}: the truth stayed inside every displayed rectangle and "
                      "the run terminated, but a member of P is dominated by another member by more than the ε-slack",
                      case, kind="R", detail=detail)
    ctx.count("isolated_designs", len(iso))
    ctx.count("terminated_P%s" % ("all" if len(P) == n else "some"))
    ctx.count("F_rounds_compared", fstate["compared"])
    ctx.count("F_rounds_undetermined", fstate["skipped"])
    nontrivial = (0 < len(iso) < n) or len(P) < n
    ctx.case_done(case, nontrivial, canon=canon)
