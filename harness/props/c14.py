"""C14 — displayed confidence regions are exactly the model's prediction scaled.

Real `FixedPointsDesignSpace.update` / `AdaptivelyDiscretizedDesignSpace.update` (and through them
`RectangularConfidenceRegion.update/intersect`, `EllipsoidalConfidenceRegion.update`) with a scripted
stub model, the real `EmpiricalMeanVarModel` and the three real GP wrappers of `vopy/models/gpytorch.py`
(built directly, default hyper-parameters, no training), against

* (R) the property evaluated on the implementation's own states: the reference for design `i` is row
  `i` of `model.predict` on the FULL design matrix; each listed design's new region must be what the
  Lean function `Rect.update` (op `rect`; characterised by the theorems of `Props/C14.lean` as
  `mean ∓ scale·std`, resp. the intersection rule) makes of the implementation's previous region;
  ellipsoids must be `(mean, cov, scale)`; unlisted designs bit-identical; `lower <= upper`;
* (F) the Lean design-space model `Region.update` replaying the whole call sequence (op `seq`).

`std = sqrt(diag cov)` is computed here with numpy, exported exactly, and checked (`std >= 0`,
`std**2 ~ cov_jj` at 1e-12).  Exact-lattice stub cases (dyadic means/scales, perfect-square variances)
are compared with equality, touching rectangles included; everything else at a relative tolerance
(1e-12 stub / empirical, 1e-9 GP posteriors: subset-vs-full prediction numerics) with the intersection
decision skipped when borderline (flips under a ±1e-9 perturbation).

Aliasing dimension (R): after every successful update the arrays returned by `model.predict`, the scale
array and the index list are overwritten with garbage, and the array returned by `region.center` likewise;
the displayed rectangles must not move (`aliasing:region-update-input`, `aliasing:region-export`).
Merely shared storage is not raised.  The unchanged `EllipsoidalConfidenceRegion.update` stores the
caller's `mean` / `covariance` / `scale` arrays themselves, so an ellipsoid does move when those arrays
are overwritten: counted as `ellipsoid_aliases_update_inputs_info`, undone, and reported as an observation.
"""
import os
from fractions import Fraction

import numpy as np

from harness import core

TITLE = "design_space.update vs Lean region-update model / full-matrix prediction"
RULE = ("cases: sequences of update(model, scale, indices) on fixed and adaptive design spaces, both "
        "confidence types; models: scripted stub (exact dyadic lattice or generic), EmpiricalMeanVarModel, "
        "Independent / Correlated / ModelList GP wrappers; index subsets of size 1..N in arbitrary order "
        "(single design explicit), None, duplicates; scale 0-d / (1,) / (m,) / (n,1) / (n,m) and malformed; "
        "intersect_iteratively toggled on the region objects; geometric shapes nested / overlapping / "
        "touching / disjoint / identical / degenerate / thin overlaps (2^-7..2^-12) at offsets 2^10..2^20; "
        "design counts at chunk boundaries 256/512/1024(/4096) +-1, 1500, 2500 with per-design scales in one call "
        "(fixed family); two design spaces on one model / two models alternately (fixed family); "
        "objective dimension 1..4; direct region.update calls with covariance (m,m) and (1,m,m) incl. (1,1), "
        "(1,1,1) (fixed family); refinement between updates (adaptive); model data "
        "added between updates; non-trivial = at least two updates of some design or a proper subset "
        "updated; distinct by the full case")
ASSUMPTIONS = ["std = numpy sqrt(diag cov) is taken as the exact half-width factor (float sqrt not modelled)",
               ]
MAX_JOBS = 14

SQUEEZERS = ("IndependentExactGPyTorchModel", "CorrelatedExactGPyTorchModel")
GARBAGE = 977.125
# development only (mutation runs): VERIF_C14_MUTE_SQUEEZE=1 turns the `single-design-mean-squeezed:*`
# violations into a counter, so that other violations are not hidden behind them.  Never set by ./check.
_MUTE = os.environ.get("VERIF_C14_MUTE_SQUEEZE") == "1"


# ----------------------------------------------------------------------------- models
class _Stub:
    """scripted posterior: `table()` rows are looked up by exact match of the query rows"""

    def __init__(self):
        from vopy.models.model import Model
        self._base = Model

    def make(self):
        Model = self._base

        class StubModel(Model):
            def __init__(s):
                super().__init__()
                s.points = None
                s.means = None
                s.covs = None
                s.queries = []
                s.returned = []

            def add_sample(s, *a, **k):
                pass

            def train(s):
                pass

            def update(s):
                pass

            def predict(s, X):
                X = np.asarray(X)
                idx = []
                for row in X:
                    hit = np.where((s.points == row).all(axis=1))[0]
                    if len(hit) != 1:
                        raise RuntimeError("stub: query row is not a design point")
                    idx.append(int(hit[0]))
                s.queries.append(idx)
                out = (s.means[idx].copy(), s.covs[idx].copy())
                s.returned.append(out)
                return out

        return StubModel()


_GP_CACHE = {}


def _gp_data(spec, step):
    rng = np.random.default_rng([spec["seed"], step])
    n = spec["ntrain"] if step == 0 else 2
    X = rng.random((n, spec["d"]))
    Y = np.round(rng.standard_normal((n, spec["m"])) * 8) / 8
    return X, Y


def _gp_feed(model, spec, step):
    X, Y = _gp_data(spec, step)
    if spec["cls"] == "GPyTorchModelListExactModel":
        for j in range(spec["m"]):
            model.add_sample(X, Y[:, j], j)
    else:
        model.add_sample(X, Y)
    model.update()


def _gp_model(spec):
    import vopy.models as vm

    cls = getattr(vm, spec["cls"])
    model = cls(spec["d"], spec["m"], spec["noise"])
    _gp_feed(model, spec, 0)
    return model


# ----------------------------------------------------------------------------- generators
def _dy(rng, lo, hi, p):
    return core.dyadic(rng, lo, hi, p)


def _subset(rng, n, style=None, single_ok=True):
    style = style or rng.choice((["single", "single"] if single_ok else []) + ["proper", "proper", "all", "none", "dups"])
    if not single_ok and n >= 3 and style == "proper":
        return rng.sample(range(n), rng.randint(2, n - 1))
    if not single_ok and style in ("proper", "single"):
        style = "all"
    if style == "single" or n == 1:
        return [rng.randrange(n)] if style != "none" else None
    if style == "proper":
        k = rng.randint(1, n - 1)
        return rng.sample(range(n), k)
    if style == "all":
        idx = list(range(n))
        rng.shuffle(idx)
        return idx
    if style == "none":
        return None
    idx = [rng.randrange(n) for _ in range(rng.randint(2, n + 1))]
    if not single_ok and len(set(idx)) < 2:
        idx = list(range(n))
    return idx


def _scale(rng, m, k, conf, exact, bad=False):
    def v():
        return _dy(rng, 0, 12, 2) if exact else float(np.round(rng.random() * 3, 6))
    if bad:
        form = rng.choice(["vecbad", "matbadn", "matbadc", "other", "vecm_ell"])
        if form == "vecbad":
            return {"form": "vec", "val": [v() for _ in range(m + 1)]}
        if form == "matbadn":
            return {"form": "mat", "val": [[v()] for _ in range(k + 1)]}
        if form == "matbadc":
            return {"form": "mat", "val": [[v() for _ in range(m + 1)] for _ in range(k)]}
        if form == "other":
            return {"form": "other"}
        return {"form": "vec", "val": [v() for _ in range(m)]}      # fine for rectangles, not for ellipsoids
    forms = ["scalar", "vec1", "mat1"] if conf == "ell" else ["scalar", "vec1", "vecm", "mat1", "matm", "matm"]
    form = rng.choice(forms)
    if form == "scalar":
        return {"form": "scalar", "val": v()}
    if form == "vec1":
        return {"form": "vec", "val": [v()]}
    if form == "vecm":
        return {"form": "vec", "val": [v() for _ in range(m)]}
    if form == "mat1":
        return {"form": "mat", "val": [[v()] for _ in range(k)]}
    return {"form": "mat", "val": [[v() for _ in range(m)] for _ in range(k)]}


def _stub_table(rng, n, m, exact, near=None, geo=None):
    """means (n,m), covs (n,m,m).  exact: dyadic means, diagonal covariances with perfect-square
    entries (sqrt exact), sometimes off-diagonal dyadic entries (ignored by rectangles)."""
    means, covs = [], []
    for i in range(n):
        if exact:
            mu = [_dy(rng, -32, 32, 2) for _ in range(m)]
            sd = [_dy(rng, 0, 8, 1) for _ in range(m)]
            if near is not None and geo is not None:
                pm, ps = near[0][i], near[1][i]
                if geo == "identical":
                    mu, sd = list(pm), list(ps)
                elif geo == "nested":
                    mu, sd = list(pm), [s / 2 for s in ps]
                elif geo == "touch":       # new upper == old lower in objective 0 when both scales are 1
                    sd = list(ps)
                    mu = list(pm)
                    mu[0] = pm[0] - 2 * ps[0]
                elif geo == "touchup":     # new lower == old upper in the last objective
                    sd = list(ps)
                    mu = list(pm)
                    mu[-1] = pm[-1] + 2 * ps[-1]
                elif geo == "disjoint":
                    sd = list(ps)
                    mu = [a + 4 * b + 1 for a, b in zip(pm, ps)]
                elif geo == "degenerate":
                    sd = [0.0] * m
                    mu = list(pm)
            C = [[(sd[a] * sd[a] if a == b else 0.0) for b in range(m)] for a in range(m)]
            if rng.random() < 0.3:
                for a in range(m):
                    for b in range(a):
                        C[a][b] = C[b][a] = _dy(rng, -4, 4, 2)
        else:
            mu = [round(rng.uniform(-3, 3), 6) for _ in range(m)]
            A = np.array([[rng.random() - 0.5 for _ in range(m)] for _ in range(m)])
            C = (A @ A.T + 1e-3 * np.eye(m)).tolist()
            sd = None
        means.append(mu)
        covs.append(C)
    return means, covs, None


def _case_stub(rng, exact):
    m = rng.choice([1, 2, 2, 3, 4])
    n = rng.randint(1, 7)
    conf = rng.choice(["rect", "rect", "rect", "ell"])
    pts = [[float(i), float((i * 7) % 5)] for i in range(n)]
    ops = []
    prev = None
    use_iter = conf == "rect" and rng.random() < 0.7
    if use_iter:
        ops.append({"op": "iter", "b": True, "idx": list(range(n)) if rng.random() < 0.6 else rng.sample(range(n), rng.randint(1, n))})
    for t in range(rng.randint(1, 5)):
        geo = rng.choice(["identical", "nested", "touch", "touchup", "disjoint", "degenerate", None, None]) if (exact and prev) else None
        means, covs, _ = _stub_table(rng, n, m, exact, near=prev, geo=geo)
        if exact:
            prev = (means, [[float(np.sqrt(c[a][a])) for a in range(m)] for c in covs])
        idx = _subset(rng, n)
        k = n if idx is None else len(idx)
        bad = rng.random() < 0.08
        sc = _scale(rng, m, k, conf, exact, bad=bad)
        if exact and geo in ("touch", "touchup", "identical", "nested", "disjoint") and rng.random() < 0.8:
            sc = {"form": "scalar", "val": 1.0}
        ops.append({"op": "update", "scale": sc, "idx": idx, "means": means, "covs": covs, "geo": geo})
        if conf == "rect" and rng.random() < 0.2:
            ops.append({"op": "iter", "b": rng.random() < 0.6, "idx": rng.sample(range(n), rng.randint(1, n))})
    return {"kind": "fixed", "model": {"kind": "stub"}, "conf": conf, "m": m, "points": pts, "ops": ops,
            "exact": exact, "shape": "stub-exact" if exact else "stub-generic"}


GEO = ["identical", "nested", "contains", "overlap", "touch-low", "touch-up", "vertex", "disjoint",
       "degenerate-inside", "degenerate-boundary", "thin-low", "thin-up", "thin-low", "thin-up"]


def _case_geo(rng):
    """exact lattice, every region intersecting iteratively, each update placed in a chosen geometric
    relation to the rectangle the design currently has (tracked here with exact dyadic arithmetic)"""
    m = rng.choice([1, 2, 2, 3])
    n = rng.randint(1, 5)
    pts = [[float(i), float((i * 7) % 5)] for i in range(n)]
    ops = [{"op": "iter", "b": True, "idx": list(range(n))}]
    # un-normalised objectives: a common dyadic offset 2^10 .. 2^20 per (design, objective) in most cases; the
    # "thin" relations overlap the current rectangle in a slab 2^-7 .. 2^-12 wide — a genuine overlap, far
    # below any relative closeness tolerance at that magnitude, and exactly representable
    big = rng.random() < 0.7
    offs = [[(rng.choice([-1, 1]) * 2.0 ** rng.randint(10, 20) if big and rng.random() < 0.8 else 0.0)
             for _ in range(m)] for _ in range(n)]
    mu0 = [[_dy(rng, -16, 16, 1) + offs[i][j] for j in range(m)] for i in range(n)]
    sd0 = [[_dy(rng, 1, 8, 1) for _ in range(m)] for _ in range(n)]
    cur = [([a - b for a, b in zip(mu0[i], sd0[i])], [a + b for a, b in zip(mu0[i], sd0[i])]) for i in range(n)]

    def cov_of(sd):
        return [[(sd[a] * sd[a] if a == b else 0.0) for b in range(m)] for a in range(m)]
    ops.append({"op": "update", "scale": {"form": "scalar", "val": 1.0}, "idx": None, "means": mu0,
                "covs": [cov_of(s) for s in sd0], "geo": None})
    for _ in range(rng.randint(1, 4)):
        means, covs, rel = [], [], []
        for i in range(n):
            lo, up = cur[i]
            c = [(a + b) / 2 for a, b in zip(lo, up)]
            hw = [(b - a) / 2 for a, b in zip(lo, up)]
            g = rng.choice(GEO)
            j0 = rng.randrange(m)
            mu, sd = list(c), list(hw)
            if all(h == 0 for h in hw) and g not in ("degenerate-inside", "degenerate-boundary"):
                sd = [1.0] * m
            if g == "nested":
                sd = [h / 2 for h in sd]
            elif g == "contains":
                sd = [2 * h + 1 for h in sd]
            elif g == "overlap":
                mu = [a + h for a, h in zip(mu, sd)]
            elif g == "thin-low":
                mu[j0] = lo[j0] - sd[j0] + 2.0 ** -rng.randint(7, 12)
            elif g == "thin-up":
                mu[j0] = up[j0] + sd[j0] - 2.0 ** -rng.randint(7, 12)
            elif g == "touch-low":
                mu[j0] = lo[j0] - sd[j0]
            elif g == "touch-up":
                mu[j0] = up[j0] + sd[j0]
            elif g == "vertex":
                mu = [u + h for u, h in zip(up, sd)]
            elif g == "disjoint":
                mu[j0] = up[j0] + sd[j0] + 1
            elif g == "degenerate-inside":
                sd = [0.0] * m
            elif g == "degenerate-boundary":
                sd = [0.0] * m
                mu[j0] = lo[j0]
            means.append(mu)
            covs.append(cov_of(sd))
            rel.append((g, mu, sd))
        idx = _subset(rng, n, rng.choice(["single", "proper", "all", "none"]))
        for i in (range(n) if idx is None else idx):
            g, mu, sd = rel[i]
            L, U = [a - b for a, b in zip(mu, sd)], [a + b for a, b in zip(mu, sd)]
            lo, up = cur[i]
            if any(a >= b for a, b in zip(lo, U)) or any(a <= b for a, b in zip(up, L)):
                cur[i] = (L, U)
            else:
                cur[i] = ([max(a, b) for a, b in zip(lo, L)], [min(a, b) for a, b in zip(up, U)])
        ops.append({"op": "update", "scale": {"form": "scalar", "val": 1.0}, "idx": idx, "means": means,
                    "covs": covs, "geo": None, "rel": [r[0] for r in rel]})
    return {"kind": "fixed", "model": {"kind": "stub"}, "conf": "rect", "m": m, "points": pts, "ops": ops,
            "exact": True, "shape": "stub-geo"}


def _case_adaptive(rng, model):
    m = model.get("m") or rng.choice([1, 2, 3])
    d = model.get("d") or rng.choice([1, 2])
    ops = []
    n = 1
    single_ok = model["kind"] != "gp" or rng.random() < 0.7
    if rng.random() < 0.5:
        ops.append({"op": "iter", "b": True, "idx": [0]})
    refined = set()
    if not single_ok:
        ops.append({"op": "refine", "i": 0})
        refined.add(0)
        n += 2 ** d
    for t in range(rng.randint(2, 5)):
        op = {"op": "update", "scale": _scale(rng, m, n, "rect", False), "idx": None}
        if rng.random() < 0.6:
            idx = _subset(rng, n, rng.choice(["single", "proper", "all"]), single_ok=single_ok)
            op["idx"] = idx
            op["scale"] = _scale(rng, m, len(idx), "rect", False)
        if model["kind"] == "stub":
            op["means"], op["covs"], _ = _stub_table(rng, n, m, False)
        ops.append(op)
        if n < 9 and rng.random() < 0.7:
            i = rng.choice([j for j in range(n) if j not in refined])     # a node is refined at most once
            refined.add(i)
            ops.append({"op": "refine", "i": i})
            n += 2 ** d
            if rng.random() < 0.4:
                ops.append({"op": "iter", "b": True, "idx": rng.sample(range(n), rng.randint(1, n))})
        if model["kind"] == "gp" and rng.random() < 0.5:
            ops.append({"op": "feed", "step": t + 1})
    return {"kind": "adaptive", "model": model, "conf": "rect", "m": m, "d": d, "ops": ops, "exact": False,
            "shape": "adaptive-" + (model.get("cls") or model["kind"])}


def _case_real(rng, model):
    m, conf = model["m"], rng.choice(["rect", "rect", "ell"])
    single_ok = model["kind"] != "gp" or rng.random() < 0.7
    n = rng.randint(1, 7) if single_ok else rng.randint(2, 7)
    if model["kind"] == "empirical":
        pts = [[float(np.round(rng.random(), 3)), float(i)] for i in range(n)]
    else:
        pts = [[float(np.round(rng.random(), 4)) for _ in range(model["d"])] for _ in range(n)]
        while len({tuple(p) for p in pts}) < n:
            pts = [[float(np.round(rng.random(), 4)) for _ in range(model["d"])] for _ in range(n)]
    ops = []
    if conf == "rect" and rng.random() < 0.6:
        ops.append({"op": "iter", "b": True, "idx": list(range(n))})
    for t in range(rng.randint(1, 5)):
        idx = _subset(rng, n, single_ok=single_ok)
        k = n if idx is None else len(idx)
        ops.append({"op": "update", "scale": _scale(rng, m, k, conf, False, bad=rng.random() < 0.04), "idx": idx})
        if rng.random() < 0.6:
            ops.append({"op": "feed", "step": t + 1})
    return {"kind": "fixed", "model": model, "conf": conf, "m": m, "points": pts, "ops": ops, "exact": False,
            "shape": "fixed-" + (model.get("cls") or model["kind"])}


def _direct_cases(seed):
    """Deterministic family (own RNG sub-stream, in every run): `region.update(mean, covariance, scale)` called
    directly, objective dimension 1, 2, 3, the covariance handed over as (m, m) and with a leading batch axis
    (1, m, m) — for m = 1 that is (1, 1) and (1, 1, 1) —, scale 0-d / (1,) / (m,), fresh and preset
    rectangles with and without iterative intersection, and ellipsoids ((m, m) only)."""
    import random

    rng = random.Random(f"C14-direct:{seed}")
    for m in (1, 1, 2, 3):
        for covshape in ("mm", "1mm"):
            for it in (False, True):
                for sform in ("scalar", "vec1", "vecm"):
                    mean = [_dy(rng, -16, 16, 2) for _ in range(m)]
                    sd = [_dy(rng, 0, 8, 1) for _ in range(m)]
                    cov = [[(sd[a] * sd[a] if a == b else _dy(rng, -2, 2, 2)) for b in range(m)] for a in range(m)]
                    sc = {"form": "scalar", "val": _dy(rng, 0, 8, 2)} if sform == "scalar" else \
                        {"form": "vec", "val": [_dy(rng, 0, 8, 2) for _ in range(1 if sform == "vec1" else m)]}
                    pre = None
                    if it or rng.random() < 0.5:
                        lo = [mu - _dy(rng, 0, 6, 1) for mu in mean]
                        pre = [lo, [a + _dy(rng, 0, 12, 1) for a in lo]]
                    yield {"kind": "direct", "shape": "direct-region", "conf": "rect", "m": m, "covshape": covshape,
                           "iter": it, "pre": pre, "mean": mean, "cov": cov, "scale": sc}
        for sform in ("scalar", "vec1"):
            mean = [_dy(rng, -16, 16, 2) for _ in range(m)]
            cov = [[_dy(rng, 0, 8, 2) if a == b else _dy(rng, -2, 2, 2) for b in range(m)] for a in range(m)]
            sc = {"form": "scalar", "val": _dy(rng, 0, 8, 2)} if sform == "scalar" else \
                {"form": "vec", "val": [_dy(rng, 0, 8, 2)]}
            yield {"kind": "direct", "shape": "direct-region", "conf": "ell", "m": m, "covshape": "mm",
                   "iter": False, "pre": None, "mean": mean, "cov": cov, "scale": sc}


def _run_direct(ctx, case):
    from vopy.confidence_region import EllipsoidalConfidenceRegion, RectangularConfidenceRegion

    m = case["m"]
    mean = np.array(case["mean"], dtype=float)
    cov = np.array(case["cov"], dtype=float).reshape((m, m) if case["covshape"] == "mm" else (1, m, m))
    sc_arr = _np_scale(case["scale"])
    row = [case["scale"]["val"]] if case["scale"]["form"] == "scalar" else list(case["scale"]["val"])
    ctx.count(f"direct_m{m}_{case['conf']}_{case['covshape']}")
    if case["conf"] == "ell":
        reg = EllipsoidalConfidenceRegion(m)
    elif case["pre"] is None:
        reg = RectangularConfidenceRegion(m, intersect_iteratively=case["iter"])
    else:
        reg = RectangularConfidenceRegion(m, np.array(case["pre"][0], dtype=float),
                                          np.array(case["pre"][1], dtype=float), intersect_iteratively=case["iter"])
    if case["conf"] == "rect":
        lo0, up0 = [core.frac(x) for x in reg.lower], [core.frac(x) for x in reg.upper]
    try:
        reg.update(mean, cov, sc_arr)
    except Exception as e:
        ctx.violation("update-crash:" + core.exc_key(e) + (":m1" if m == 1 else ""),
                      f"region.update raised {type(e).__name__} on a well-formed call (objective dimension {m}, "
                      f"covariance shape {cov.shape})", case)
        return
    if case["conf"] == "ell":
        good = np.array_equal(np.asarray(reg.center), mean) and np.array_equal(np.asarray(reg.sigma), cov) and \
            np.asarray(reg.alpha).size == 1 and float(np.asarray(reg.alpha).reshape(-1)[0]) == float(row[0])
        if not good:
            ctx.violation("ell-listed", "updated ellipsoid is not (mean, cov, scale)", case)
    else:
        std = np.sqrt(np.diag(np.array(case["cov"], dtype=float)))
        ans = ctx.ask("rect", "0", core.qvec(lo0), core.qvec(up0), "1" if case["iter"] else "0",
                      core.qvec(mean), core.qvec(std), core.qvec(row)).split(" ")
        if ans[0] != "ok":
            ctx.violation("driver-rect", f"driver answered {ans}", case, kind="F")
            return
        lo, up = core.parse_qvec(ans[1]), core.parse_qvec(ans[2])
        cmp_ = _Cmp(True, Fraction(0))
        if not (cmp_.vec(reg.lower, lo) and cmp_.vec(reg.upper, up)):
            ctx.violation("rect-listed-iter" if case["iter"] else "rect-listed",
                          "region.update: rectangle is not [mean ± scale*std] (resp. its intersection with the "
                          "previous rectangle)", case,
                          detail={"impl_lower": np.asarray(reg.lower).tolist(), "impl_upper": np.asarray(reg.upper).tolist(),
                                  "expected_lower": [float(x) for x in lo], "expected_upper": [float(x) for x in up]})
    ctx.case_done(case, True)


GP_CLASSES = ["IndependentExactGPyTorchModel", "CorrelatedExactGPyTorchModel", "GPyTorchModelListExactModel"]


def _twin_cases(seed):
    """Deterministic family (own RNG sub-stream, in every run): two design spaces over overlapping point sets
    fed by ONE model object, and two model objects feeding the spaces alternately.  An update of one space must
    leave the other space's regions untouched, and every updated region must be the prediction of the model
    that was passed to that call."""
    import random

    rng = random.Random(f"C14-twin:{seed}")
    for k in range(8):
        m = [2, 1, 3, 2][k % 4]
        conf = "ell" if k % 4 == 3 else "rect"
        nA, nB = rng.randint(2, 6), rng.randint(1, 6)
        nU = max(nA, nB)
        tables = []
        for _ in range(2):
            means = [[_dy(rng, -32, 32, 2) for _ in range(m)] for _ in range(nU)]
            sds = [[_dy(rng, 0, 8, 1) for _ in range(m)] for _ in range(nU)]
            tables.append({"means": means,
                           "covs": [[[(sd[a] * sd[a] if a == b else 0.0) for b in range(m)] for a in range(m)] for sd in sds]})
        steps = []
        for t in range(rng.randint(4, 8)):
            sp = t % 2 if t < 4 else rng.randrange(2)
            n = nA if sp == 0 else nB
            idx = _subset(rng, n, rng.choice(["single", "proper", "all", "none"]))
            kk = n if idx is None else len(idx)
            steps.append({"space": sp, "model": (t // 2) % 2 if k % 2 else 0, "idx": idx,
                          "scale": _scale(rng, m, kk, conf, True)})
        yield {"kind": "twin", "shape": "twin-one-model" if k % 2 == 0 else "twin-two-models", "conf": conf, "m": m,
               "nA": nA, "nB": nB, "iterA": conf == "rect" and k % 3 == 0, "iterB": conf == "rect" and k % 3 == 1,
               "tables": tables, "steps": steps}


def _run_twin(ctx, case):
    from vopy.design_space import FixedPointsDesignSpace

    m, conf = case["m"], case["conf"]
    nU = max(case["nA"], case["nB"])
    upts = np.array([[float(i), float((i * 7) % 5)] for i in range(nU)])
    ctype = "hyperrectangle" if conf == "rect" else "hyperellipsoid"
    spaces = [FixedPointsDesignSpace(upts[:case["nA"]].copy(), m, ctype), FixedPointsDesignSpace(upts[:case["nB"]].copy(), m, ctype)]
    if conf == "rect":
        for sp, flag in zip(spaces, (case["iterA"], case["iterB"])):
            for r in sp.confidence_regions:
                r.intersect_iteratively = bool(flag)
    models = []
    for tb in case["tables"]:
        mdl = _Stub().make()
        mdl.points = upts.copy()
        mdl.means = np.array(tb["means"], dtype=float).reshape(nU, m)
        mdl.covs = np.array(tb["covs"], dtype=float).reshape(nU, m, m)
        models.append(mdl)
    if any(a is b for a in spaces[0].confidence_regions for b in spaces[1].confidence_regions):
        ctx.violation("spaces-share-state", "two design spaces hold the same region object", case)
        return
    cmp_ = _Cmp(True, Fraction(0))
    for k, st in enumerate(case["steps"]):
        ds, other, mdl = spaces[st["space"]], spaces[1 - st["space"]], models[st["model"]]
        N = len(ds.points)
        idx_l = list(range(N)) if st["idx"] is None else list(st["idx"])
        rows = _rows(st["scale"], len(idx_l))
        before, obefore = _snap(ds, conf), _snap(other, conf)
        try:
            ds.update(mdl, _np_scale(st["scale"]), None if st["idx"] is None else list(idx_l))
        except Exception as e:
            ctx.violation("update-crash:" + core.exc_key(e) + (":m1" if m == 1 else ""),
                          f"design_space.update raised {type(e).__name__} on a well-formed call", case, detail={"step": k})
            return
        after, oafter = _snap(ds, conf), _snap(other, conf)
        if not all(_same(x, y) for x, y in zip(obefore, oafter)):
            ctx.violation("spaces-share-state", "updating one design space changed a region of another design space",
                          case, detail={"step": k})
            return
        for i in range(N):
            if i not in idx_l:
                if not _same(before[i], after[i]):
                    ctx.violation("unlisted-changed", "a design that was not listed was modified", case,
                                  detail={"step": k, "design": i})
                    return
                continue
            mean_i = [core.frac(x) for x in mdl.means[i]]
            if conf == "rect":
                lo, up, it = before[i]
                cur_lo, cur_up = [core.frac(x) for x in lo], [core.frac(x) for x in up]
                std = np.sqrt(np.diag(mdl.covs[i]))
                for p_ in [q for q, j in enumerate(idx_l) if j == i]:
                    ans = ctx.ask("rect", "0", core.qvec(cur_lo), core.qvec(cur_up), "1" if it else "0",
                                  core.qvec(mean_i), core.qvec(std), core.qvec(rows[p_])).split(" ")
                    cur_lo, cur_up = core.parse_qvec(ans[1]), core.parse_qvec(ans[2])
                if not (cmp_.vec(after[i][0], cur_lo) and cmp_.vec(after[i][1], cur_up)):
                    ctx.violation("rect-listed-iter" if it else "rect-listed",
                                  "with two design spaces / two models in play, the updated rectangle is not the "
                                  "prediction of the model passed to this call, scaled", case,
                                  detail={"step": k, "design": i, "model": st["model"], "space": st["space"]})
                    return
            else:
                p_ = [q for q, j in enumerate(idx_l) if j == i][-1]
                c_, s_, a_ = after[i]
                if not (np.array_equal(c_, mdl.means[i]) and np.array_equal(s_, mdl.covs[i]) and
                        np.asarray(a_).size == 1 and float(np.asarray(a_).reshape(-1)[0]) == float(rows[p_][0])):
                    ctx.violation("ell-listed", "with two design spaces / two models in play, the updated ellipsoid is "
                                  "not (mean, cov, scale) of the model passed to this call", case,
                                  detail={"step": k, "design": i, "model": st["model"], "space": st["space"]})
                    return
        ctx.count("twin_steps")
    ctx.case_done(case, True)


CHUNKS = [256, 512, 1024, 4096]


class _Compact:
    """ctx stand-in that records the compact form of a `large` case instead of its expansion"""

    def __init__(self, ctx, case):
        self._ctx, self._case = ctx, case

    def __getattr__(self, name):
        return getattr(self._ctx, name)

    def violation(self, key, what, case, kind="R", detail=None):
        self._ctx.violation(key, what, self._case, kind=kind, detail=detail)

    def case_done(self, case, nontrivial, canon=None):
        self._ctx.case_done(self._case, nontrivial, canon=canon)


def _large_cases(seed, thorough):
    """Deterministic family (in every run; cheap with the stub): design counts beyond any plausible internal
    chunk size — the boundaries 256 / 512 / 1024 (thorough: 4096) +-1, and 1500 / 2500 — updated in ONE call with
    a per-design 2-D scale whose rows all differ; all designs, a shuffled subset larger than 1024, or None;
    rectangles and ellipsoids.  The tables are generated from closed formulas at run time (`_expand_large`)."""
    sizes = [257, 513, 1023, 1025, 1500, 2500] + ([255, 256, 511, 512, 1024, 4095, 4097] if thorough else [])
    for k, N in enumerate(sizes):
        for conf in (("rect", "ell") if N in (1025, 2500) else ("rect",)):
            which = ["all-shuffled", "none", "subset"][k % 3] if N > 1100 else ["none", "all-shuffled"][k % 2]
            yield {"kind": "fixed", "model": {"kind": "stub"}, "conf": conf, "m": 2 if conf == "rect" else 1 + k % 2,
                   "exact": True, "shape": "stub-large", "large": {"N": N, "which": which, "seed": seed,
                                                                  "cols": "m" if (conf == "rect" and k % 2) else "1"}}


def _expand_large(case):
    """points / ops of a `large` case (closed formulas; the shuffle uses its own RNG)"""
    import random

    L, m = case["large"], case["m"]
    N = L["N"]
    rng = random.Random(f"C14-large:{L['seed']}:{N}:{case['conf']}")
    pts = [[float(i), float((i * 7) % 5)] for i in range(N)]
    means = [[((i * 7 + j * 3) % 64) / 4.0 - 8.0 for j in range(m)] for i in range(N)]
    covs = [[[(((i + j) % 7 + 1) / 2.0) ** 2 if a == j else 0.0 for a in range(m)] for j in range(m)] for i in range(N)]
    if L["which"] == "none":
        idx, k = None, N
    else:
        idx = list(range(N))
        rng.shuffle(idx)
        if L["which"] == "subset":
            idx = idx[:max(1030, (3 * N) // 5)]
        k = len(idx)
    cols = m if L["cols"] == "m" else 1
    sc = {"form": "mat", "val": [[((p_ % 37) + 1) / 4.0 + c * ((p_ % 41) / 8.0) for c in range(cols)] for p_ in range(k)]}
    ops = []
    if case["conf"] == "rect":
        ops.append({"op": "iter", "b": True, "idx": list(range(0, N, 3))})
        ops.append({"op": "update", "scale": {"form": "scalar", "val": 2.0}, "idx": None, "means": means, "covs": covs,
                    "geo": None})
    ops.append({"op": "update", "scale": sc, "idx": idx, "means": [[v + 0.5 for v in r] for r in means], "covs": covs,
                "geo": None})
    out = dict(case)
    out.update({"points": pts, "ops": ops})
    return out


def gen(ctx):
    rng = ctx.rng
    plan = ["stub-exact", "stub-geo", "stub-generic", "empirical", "gp-fixed", "gp-adaptive", "stub-adaptive",
            "stub-exact", "gp-fixed", "stub-geo"]
    if ctx.worker == 0:
        yield from _direct_cases(ctx.seed)
        yield from _large_cases(ctx.seed, ctx.tier == "thorough")
        yield from _twin_cases(ctx.seed)
    for k in range(ctx.n(300, 10000)):
        if ctx.tier == "thorough" and k % 97 == 96:      # a drawn design count at a chunk boundary +-1
            N = rng.choice(CHUNKS[:3]) + rng.choice([-1, 0, 1, 2])
            yield {"kind": "fixed", "model": {"kind": "stub"}, "conf": rng.choice(["rect", "ell"]), "m": 2,
                   "exact": True, "shape": "stub-large",
                   "large": {"N": N, "which": rng.choice(["none", "all-shuffled"]), "seed": rng.randrange(10 ** 6),
                             "cols": "1"}}
            continue
        shape = plan[k % len(plan)]
        if shape == "stub-exact":
            yield _case_stub(rng, True)
        elif shape == "stub-geo":
            yield _case_geo(rng)
        elif shape == "stub-generic":
            yield _case_stub(rng, False)
        elif shape == "stub-adaptive":
            yield _case_adaptive(rng, {"kind": "stub"})
        elif shape == "empirical":
            yield _case_real(rng, {"kind": "empirical", "m": rng.choice([1, 2, 3]), "seed": rng.randrange(10 ** 6),
                                   "tv": rng.random() < 0.8})
        else:
            spec = {"kind": "gp", "cls": GP_CLASSES[(k // len(plan)) % 3], "d": rng.choice([1, 2]),
                    "m": rng.choice([1, 2, 2, 3]), "ntrain": rng.randint(2, 6), "noise": rng.choice([0.1, 0.01, 0.5]),
                    "seed": rng.randrange(10 ** 6)}
            yield _case_real(rng, spec) if shape == "gp-fixed" else _case_adaptive(rng, spec)


# ----------------------------------------------------------------------------- helpers
def _np_scale(sc):
    if sc["form"] == "scalar":
        return np.array(float(sc["val"]))
    if sc["form"] == "vec":
        return np.array(sc["val"], dtype=float)
    if sc["form"] == "mat":
        return np.array(sc["val"], dtype=float)
    return np.zeros((1, 1, 1))


def _lean_scale(sc):
    if sc["form"] == "scalar":
        return "s=" + core.q(sc["val"])
    if sc["form"] == "vec":
        return "v=" + core.qvec(sc["val"])
    if sc["form"] == "mat":
        return "m=" + core.qmat(sc["val"])
    return "o"


def _rows(sc, k):
    """scale row for each position, as the update's broadcast produces them; None if the shape check fails"""
    if sc["form"] == "scalar":
        return [[sc["val"]]] * k
    if sc["form"] == "vec":
        return [list(sc["val"])] * k
    if sc["form"] == "mat":
        return [list(r) for r in sc["val"]] if len(sc["val"]) == k else None
    return None


def _snap(ds, conf):
    out = []
    for r in ds.confidence_regions:
        if conf == "rect":
            out.append((np.array(r.lower, dtype=float, copy=True), np.array(r.upper, dtype=float, copy=True),
                        bool(r.intersect_iteratively)))
        else:
            out.append((np.array(r.center, dtype=float, copy=True), np.array(r.sigma, dtype=float, copy=True),
                        np.array(r.alpha, dtype=float, copy=True)))
    return out


def _same(a, b):
    return all(np.asarray(x).shape == np.asarray(y).shape and np.array_equal(np.asarray(x), np.asarray(y))
               for x, y in zip(a, b))


class _Cmp:
    def __init__(self, exact, rel):
        self.exact, self.rel = exact, rel

    def num(self, x, ref, extra=1.0):
        try:
            fx = core.frac(x)
        except (ValueError, OverflowError, TypeError):
            return False
        if self.exact:
            return fx == ref
        return abs(fx - ref) <= self.rel * max(1, abs(ref), extra)

    def vec(self, arr, ref, extra=1.0):
        arr = np.asarray(arr)
        if arr.shape != (len(ref),):
            return False
        return all(self.num(arr[j], ref[j], extra) for j in range(len(ref)))


# ----------------------------------------------------------------------------- run
def run_case(ctx, case):
    from vopy.design_space import AdaptivelyDiscretizedDesignSpace, FixedPointsDesignSpace

    ctx.count("shape_" + case["shape"])
    if case["kind"] == "direct":
        _run_direct(ctx, case)
        return
    if case["kind"] == "twin":
        _run_twin(ctx, case)
        return
    ctx.count("m_%d" % case["m"])
    report_case = case
    if "large" in case:
        ctx.count("large_N_%d" % case["large"]["N"])
        case = _expand_large(case)
        ctx = _Compact(ctx, report_case)        # violations / bookkeeping record the compact case (replayable)
    m, conf, mk = case["m"], case["conf"], case["model"]["kind"]
    exact = bool(case.get("exact"))
    cmp_ = _Cmp(exact, Fraction(1, 10 ** 9) if mk == "gp" else Fraction(1, 10 ** 12))
    tau = Fraction(0) if exact else Fraction(1, 10 ** 9)
    cls_name = case["model"].get("cls", mk)
    # ---- build the design space and the model
    if case["kind"] == "fixed":
        pts = np.array(case["points"], dtype=float)
        ds = FixedPointsDesignSpace(pts, m, "hyperrectangle" if conf == "rect" else "hyperellipsoid")
    else:
        ds = AdaptivelyDiscretizedDesignSpace(case["d"], m, 0.05, 6)
    n0 = len(ds.points)
    if mk == "stub":
        model = _Stub().make()
    elif mk == "empirical":
        from vopy.models import EmpiricalMeanVarModel

        spec = case["model"]
        model = EmpiricalMeanVarModel(1, m, 0.25, n0, track_means=True, track_variances=spec["tv"])
        erng = np.random.default_rng(spec["seed"])

        def feed_emp():
            k = int(erng.integers(1, 2 * n0 + 1))
            idx = [int(i) for i in erng.integers(0, n0, size=k)]
            model.add_sample(idx, np.round(erng.standard_normal((k, m)) * 16) / 16)
            model.update()
        feed_emp()
    else:
        model = _gp_model(case["model"])

    def full_prediction():
        if mk == "stub":
            return model.means, model.covs
        mu, cov = model.predict(ds.points)
        return np.asarray(mu, dtype=float).reshape(len(ds.points), m), np.asarray(cov, dtype=float)

    lean_ops = []
    impl_states = []          # after each op: (status, snapshot)
    touched_twice = proper = False
    upd_count = {}
    for k, op in enumerate(case["ops"]):
        N = len(ds.points)
        if op["op"] == "iter":
            idx = [i for i in op["idx"] if i < N]
            for i in idx:
                ds.confidence_regions[i].intersect_iteratively = bool(op["b"])
            lean_ops.append("I:" + ("1" if op["b"] else "0") + ":" + core.nats(sorted(set(idx))))
            impl_states.append(("ok", _snap(ds, conf)))
            continue
        if op["op"] == "refine":
            i = op["i"] % N
            kids = ds.refine_design(i)
            lean_ops.append(f"R:{i}:{len(kids)}")
            impl_states.append(("ok", _snap(ds, conf)))
            ctx.count("refines")
            continue
        if op["op"] == "feed":
            if mk == "empirical":
                feed_emp()
            elif mk == "gp":
                _gp_feed(model, case["model"], op["step"])
            continue
        # ---------------- update
        if mk == "stub":
            model.points = np.array(ds.points, dtype=float, copy=True)
            model.means = np.array(op["means"], dtype=float).reshape(N, m)
            model.covs = np.array(op["covs"], dtype=float).reshape(N, m, m)
        mu_full, cov_full = full_prediction()
        std_full = np.sqrt(np.array([np.diag(c) for c in cov_full]))
        # harness-side check of the exported square roots
        for i in range(N):
            for j in range(m):
                s_, c_ = core.frac(std_full[i, j]), core.frac(cov_full[i, j, j])
                if s_ < 0 or abs(s_ * s_ - c_) > Fraction(1, 10 ** 12) * max(1, abs(c_)):
                    ctx.violation("harness-sqrt", "exported std is not the square root of cov_jj", case, kind="F")
                    return
        idx = op["idx"]
        idx_l = list(range(N)) if idx is None else [i % N for i in idx]
        idx_set = set(idx_l)
        sc = op["scale"]
        rows = _rows(sc, len(idx_l))
        valid = rows is not None and all(len(r) == 1 or (conf == "rect" and len(r) == m) for r in rows)
        nonneg = rows is not None and all(v >= 0 for r in rows for v in r)
        ctx.count("scale_" + sc["form"] + ("" if valid else "_malformed"))
        ctx.count("subset_" + ("none" if idx is None else "single" if len(idx_l) == 1 else
                               "dups" if len(set(idx_l)) < len(idx_l) else "all" if len(idx_l) == N else "proper"))
        if op.get("geo"):
            ctx.count("geo_" + op["geo"])
        for i in set(idx_l):
            if op.get("rel"):
                ctx.count("rel_" + op["rel"][i])
        before = _snap(ds, conf)
        sc_arr = _np_scale(sc)
        idx_pass = None if idx is None else list(idx_l)
        returned = []
        if mk == "stub":
            model.returned = returned
        else:                                   # record the arrays the real model hands to the design space
            orig_predict = model.predict

            def rec_predict(X, _o=orig_predict):
                out = _o(X)
                returned.append(out)
                return out
            model.predict = rec_predict
        try:
            ds.update(model, sc_arr, idx_pass)
            status = "ok"
        except Exception as e:
            status = type(e).__name__
            err = e
        finally:
            if mk != "stub":
                del model.predict
        try:
            after = _snap(ds, conf)
        except Exception:
            after = before
        # ---- aliasing: the caller scribbles over everything it handed in / got back; the displayed regions
        # must not move.  (Unchanged code: ellipsoids store the caller's arrays — recorded as information and
        # undone, see the module doc-string; rectangles compute fresh arrays.)
        if status == "ok" and valid and conf != "rect" and isinstance(sc_arr, np.ndarray) and sc_arr.ndim < 2 \
                and sc_arr.flags.writeable:
            # a scalar / one-row scale is broadcast by the design space into a per-design array of its own, so the
            # caller may reuse and rewrite ITS buffer (e.g. `scale *= 0.25` for the next round): no displayed
            # ellipsoid — in particular none outside a later index list — may change radius
            keep = np.array(sc_arr, copy=True)
            sc_arr.fill(GARBAGE)
            moved_sc = not all(_same(x, y) for x, y in zip(_snap(ds, conf), after))
            sc_arr[...] = keep
            ctx.count("scale_buffer_checked")
            if moved_sc:
                ctx.violation("aliasing:scale-buffer", "design_space.update was handed a scalar / one-row scale array; "
                              "when the caller rewrote that array afterwards, displayed ellipsoids changed their radius "
                              "(regions of designs outside any later index list are no longer untouched)",
                              case, detail={"op": k, "indices": idx_l, "scale_shape": list(sc_arr.shape)})
                return
        if status == "ok" and valid:
            arrays = [a for out in returned for a in out if isinstance(a, np.ndarray) and a.flags.writeable]
            arrays.append(sc_arr)
            saved = [np.array(a, copy=True) for a in arrays]
            for a in arrays:
                a.fill(GARBAGE)
            if idx_pass is not None:
                idx_pass[:] = [0] * len(idx_pass)
            moved = not all(_same(x, y) for x, y in zip(_snap(ds, conf), after))
            if moved and conf == "rect":
                ctx.violation("aliasing:region-update-input", "a displayed rectangle changed when the arrays returned "
                              "by model.predict / the scale array were overwritten after design_space.update",
                              case, detail={"op": k, "indices": idx_l})
                return
            if moved:
                ctx.count("ellipsoid_aliases_update_inputs_info")
                for a, b in zip(arrays, saved):
                    a[...] = b
            if conf == "rect":                  # exported copies: the centre handed out must be a fresh array
                for r_ in ds.confidence_regions:
                    c_ = r_.center
                    if isinstance(c_, np.ndarray) and c_.flags.writeable:
                        c_.fill(GARBAGE)
                if not all(_same(x, y) for x, y in zip(_snap(ds, conf), after)):
                    ctx.violation("aliasing:region-export", "a displayed rectangle changed when the array returned by "
                                  "region.center was overwritten", case, detail={"op": k})
                    return
            ctx.count("aliasing_checked")
        lean_ops.append("U:" + _lean_scale(sc) + ":" + core.nats(idx_l) + ":" + core.qmat(mu_full) + ":" +
                        core.qmat(std_full) + ":" + core.qmats(cov_full))
        impl_states.append((status, after))
        if m == 1 and conf == "rect" and not valid and status == "ok":
            # numpy quirk outside the property: a (1,)-std broadcasts against a scale row of any size k, so a
            # malformed scale is accepted for a single objective and leaves k-entry bounds; the Lean model
            # (ValueError, as for m >= 2) is not compared from here on
            ctx.count("m1_wide_scale_row_broadcasts_info")
            lean_ops.pop()
            impl_states.pop()
            break
        single = len(idx_l) == 1
        if valid and status != "ok":
            key = ("single-design-mean-squeezed:" + cls_name) if (single and cls_name in SQUEEZERS) else \
                ("update-crash:" + core.exc_key(err) + (":m1" if m == 1 else ""))
            if _MUTE and key.startswith("single-design-mean-squeezed:"):
                ctx.count("squeeze_muted")
                return
            ctx.violation(key, f"design_space.update raised {status} on a well-formed call", case,
                          detail={"op": k, "indices": idx_l})
            return
        if status != "ok" or not valid:
            continue            # malformed call: status and (partial) state are compared with the model below
        # ---- (R) unlisted designs untouched, bit for bit
        for i in range(N):
            if i not in idx_set and not _same(before[i], after[i]):
                ctx.violation("unlisted-changed", "a design that was not listed was modified", case,
                              detail={"op": k, "design": i, "indices": idx_l})
                return
        if len(idx_l) < N:
            proper = True
        # ---- (R) listed designs: what Rect.update / the ellipsoid rule make of the previous region
        positions = {}
        for p_, j_ in enumerate(idx_l):
            positions.setdefault(j_, []).append(p_)
        for i in sorted(idx_set):
            upd_count[i] = upd_count.get(i, 0) + 1
            if upd_count[i] >= 2:
                touched_twice = True
            occ = positions[i]
            mean_i = [core.frac(x) for x in mu_full[i]]
            if conf == "rect":
                lo, up, it = before[i]
                cur_lo, cur_up = [core.frac(x) for x in lo], [core.frac(x) for x in up]
                fuzzy = False
                for p in occ:
                    ans = ctx.ask("rect", core.q(tau), core.qvec(cur_lo), core.qvec(cur_up), "1" if it else "0",
                                  core.qvec(mean_i), core.qvec(std_full[i]), core.qvec(rows[p])).split(" ")
                    if ans[0] != "ok":
                        ctx.violation("driver-rect", f"driver answered {ans}", case, kind="F")
                        return
                    cur_lo, cur_up = core.parse_qvec(ans[1]), core.parse_qvec(ans[2])
                    fuzzy = fuzzy or ans[3] == "1"
                if fuzzy:
                    ctx.count("borderline_intersection_skipped")
                    continue
                width = max([1.0] + [abs(float(x)) for x in cur_lo + cur_up if abs(x) < 10 ** 11])
                good = cmp_.vec(after[i][0], cur_lo, width) and cmp_.vec(after[i][1], cur_up, width)
                if not good:
                    centre_ref = mean_i
                    squeezed = single and cls_name in SQUEEZERS
                    key = ("single-design-mean-squeezed:" + cls_name) if squeezed else \
                        ("rect-listed-iter" if it else "rect-listed")
                    what = ("updated rectangle is not [mean - scale*std, mean + scale*std] of the full-matrix "
                            "prediction for that design" if not it else
                            "updated rectangle is not the intersection of the previous rectangle with "
                            "[mean ± scale*std] (or the new one when they do not overlap)")
                    if _MUTE and squeezed:
                        ctx.count("squeeze_muted")
                        return
                    ctx.violation(key, what, case,
                                  detail={"op": k, "design": i, "indices": idx_l, "model": cls_name,
                                          "impl_lower": after[i][0].tolist(), "impl_upper": after[i][1].tolist(),
                                          "expected_lower": [float(x) for x in cur_lo],
                                          "expected_upper": [float(x) for x in cur_up],
                                          "full_matrix_mean": [float(x) for x in centre_ref]})
                    return
                if nonneg and not all(core.frac(a) <= core.frac(b) for a, b in zip(after[i][0], after[i][1])):
                    ctx.violation("lower-gt-upper", "lower <= upper violated after an update with scale >= 0", case,
                                  detail={"op": k, "design": i})
                    return
                ctx.count("rect_checked_iter" if it else "rect_checked")
            else:
                p = occ[-1]
                c_, s_, a_ = after[i]
                good = cmp_.vec(c_, mean_i) and np.asarray(a_).size == 1 and \
                    cmp_.num(np.asarray(a_).reshape(-1)[0], core.frac(rows[p][0])) and \
                    np.asarray(s_).shape == (m, m) and \
                    all(cmp_.num(s_[a, b], core.frac(cov_full[i, a, b])) for a in range(m) for b in range(m))
                if mk in ("stub", "empirical") and good:     # pure indexing: bit-identical
                    good = np.array_equal(c_, mu_full[i]) and np.array_equal(s_, cov_full[i])
                if not good:
                    squeezed = single and cls_name in SQUEEZERS
                    key = ("single-design-mean-squeezed:" + cls_name) if squeezed else "ell-listed"
                    if _MUTE and squeezed:
                        ctx.count("squeeze_muted")
                        return
                    ctx.violation(key, "updated ellipsoid is not (mean, cov, scale) of the full-matrix prediction "
                                  "for that design", case,
                                  detail={"op": k, "design": i, "indices": idx_l, "model": cls_name,
                                          "impl_center": np.asarray(c_).tolist(),
                                          "full_matrix_mean": [float(x) for x in mean_i]})
                    return
                ctx.count("ell_checked")
    # ---- (F) the Lean design-space model replays the whole sequence
    if not lean_ops:
        ctx.case_done(case, False)
        return
    ans = ctx.ask("seq", "R" if conf == "rect" else "E", str(m), str(n0), core.q(tau), "@".join(lean_ops))
    toks = ans.split(" ")
    if len(toks) != len(impl_states):
        ctx.violation("driver-seq", f"driver answered {ans[:200]!r}", case, kind="F")
        return
    for k, (tok, (status, snap)) in enumerate(zip(toks, impl_states)):
        parts = tok.split("#")
        if parts[0] != status:
            ctx.violation("status", f"call {k}: implementation {status}, model {parts[0]}", case, kind="F")
            return
        fz = core.parse_bools(parts[1])
        if conf == "rect":
            lows, ups = core.parse_qmat(parts[2]), core.parse_qmat(parts[3])
            good = len(lows) == len(snap)
            for i in range(len(snap)):
                if not good:
                    break
                if fz[i]:
                    ctx.count("seq_fuzzy_region_skipped")
                    continue
                width = max([1.0] + [abs(float(x)) for x in lows[i] + ups[i] if abs(x) < 10 ** 11])
                good = cmp_.vec(snap[i][0], lows[i], width) and cmp_.vec(snap[i][1], ups[i], width)
        else:
            cents, alphas = core.parse_qmat(parts[2]), core.parse_qvec(parts[3])
            sigs = [core.parse_qmat(x) for x in parts[4].split("|")]
            good = len(cents) == len(snap)
            for i in range(len(snap)):
                if not good:
                    break
                c_, s_, a_ = snap[i]
                good = cmp_.vec(c_, cents[i]) and np.asarray(a_).size == 1 and \
                    cmp_.num(np.asarray(a_).reshape(-1)[0], alphas[i]) and np.asarray(s_).shape == (m, m) and \
                    all(cmp_.num(s_[a, b], sigs[i][a][b]) for a in range(m) for b in range(m))
        if not good:
            ctx.violation("state-vs-model", f"regions after call {k} differ from the Lean design-space model", case,
                          kind="F", detail={"op": k})
            return
    ctx.case_done(case, touched_twice or proper)
