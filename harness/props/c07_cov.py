"""C07, covariance streams: acquisition VALUES against their definition on FULL covariance matrices.

`SumVarianceAcquisition` is the trace of the posterior covariance ("largest total posterior
variance"), `MaxVarianceDecoupledAcquisition` is cov[j][j] / cost[j].  With diagonal covariances a
sum over *all* entries equals the trace, so these streams use covariances Σ = L·Lᵀ with large
off-diagonal entries of both signs (exact dyadic numbers), for which the ranking by trace differs
from the ranking by any other reduction of the matrix.

* kind "acq": the REAL acquisition classes on a scripted model (`stubs.ScriptedModel`, table
  posterior): every value is compared EXACTLY with the Lean definition (`sumvar` / `varcost`), and
  the real optimisers driven by the real acquisition must return a batch that satisfies the batch
  relation (`specd` / `specdec`) for the DEFINITION values.
* kind "covrun": whole PaVeBaGP runs (types DE and IH) through `c07.run_alg` with (i) a scripted
  posterior that changes at every `update()`, (ii) the real correlated GP with a strongly non-diagonal
  task covariance factor.  All per-evaluation checks of c07.py apply (recorded value = trace of the
  pre-step covariance, picks maximise the trace among the active designs, data appended exactly).
"""
import os

os.environ.setdefault("OMP_NUM_THREADS", "1")

import random  # noqa: E402

import math  # noqa: E402

import numpy as np  # noqa: E402

from harness import core  # noqa: E402

FACTORS_2 = [[[1.0, 0.0], [-0.95, 0.1]], [[1.0, 0.0], [0.9, 0.25]], [[0.5, -0.75], [0.75, 0.5]],
             [[1.0, 0.5], [-0.5, 1.0]], [[0.25, 1.0], [-1.0, 0.125]]]


COST_KINDS = ("float_array", "float_list", "int_list", "int64", "int32", "mixed_list")
INT_COSTS = {2: [[1, 3], [2, 5], [3, 1], [2, 3], [1, 2], [4, 1]], 3: [[1, 1, 4], [2, 3, 1], [1, 3, 2], [5, 2, 2]],
             4: [[1, 2, 3, 4], [2, 1, 1, 3]]}


def _mk_costs(case):
    """the cost vector as the caller would hand it over: the algorithms do `np.array(costs)` and keep the dtype,
    so an integer list reaches the acquisition as an int64 array"""
    c, kind = case.get("costs"), case.get("cost_kind", "float_array")
    if c is None:
        return None
    if kind == "float_array":
        return np.array(c, dtype=float)
    if kind == "float_list":
        return [float(x) for x in c]
    if kind == "int_list":
        return [int(x) for x in c]
    if kind == "int64":
        return np.array([int(x) for x in c], dtype=np.int64)
    if kind == "int32":
        return np.array([int(x) for x in c], dtype=np.int32)
    if kind == "mixed_list":   # e.g. [0.5, 2]: integers stay Python ints
        return [int(x) if float(x).is_integer() and k % 2 == 1 else float(x) for k, x in enumerate(c)]
    raise ValueError(kind)


def _rand_costs(rng, m):
    kind = rng.choice(COST_KINDS)
    if kind in ("int_list", "int64", "int32"):
        return [int(x) for x in rng.choice(INT_COSTS[m])], kind
    if kind == "mixed_list":
        return [rng.choice([0.5, 1.5, 2.0, 0.25]) if k % 2 == 0 else float(rng.randint(1, 5)) for k in range(m)], kind
    return [rng.choice([0.25, 0.5, 1.0, 2.0, 4.0, 3.0, 1.5]) for _ in range(m)], kind


def _rand_L(rng, m, p=2, span=6):
    """lower-triangular dyadic factor with positive diagonal: Σ = L Lᵀ is exact, positive definite and
    has off-diagonals of both signs"""
    L = [[0.0] * m for _ in range(m)]
    for i in range(m):
        for j in range(i):
            L[i][j] = core.dyadic(rng, -span, span, p)
        L[i][i] = core.dyadic(rng, 1, span, p)
    return L


def _cov(L):
    L = np.array(L, dtype=float)
    return L @ L.T


def _designs(rng, n, d):
    pts = set()
    while len(pts) < n:
        pts.add(tuple(core.dyadic(rng, 0, 16, 4) for _ in range(d)))
    X = [list(p) for p in sorted(pts)]
    rng.shuffle(X)
    return X


def gen_cov(ctx):
    rng = random.Random(ctx.rng.getrandbits(64))
    for _ in range(ctx.n(120, 20000)):
        n, m, d = rng.randint(2, 8), rng.choice([2, 2, 3, 4]), rng.choice([1, 2])
        order = list(range(n))
        rng.shuffle(order)
        order = order[: rng.randint(max(1, n - 2), n)]
        r = rng.random()
        q = rng.randint(1, len(order)) if r < 0.85 else len(order) + 1
        case = {"kind": "acq", "acq": rng.choice(["sumvar", "varcost"]), "X": _designs(rng, n, d),
                "L": [_rand_L(rng, m) for _ in range(n)], "order": order, "q": q}
        if case["acq"] == "varcost":  # powers of two: the division is exact in binary floating point
            case["costs"] = None if rng.random() < 0.3 else [rng.choice([0.25, 0.5, 1.0, 2.0, 4.0]) for _ in range(m)]
        yield case
    rng2 = random.Random(rng.getrandbits(64))   # later families: own stream, the older ones are unchanged
    # cost vectors of every dtype (int list, int64, int32, mixed, float list/array) for the decoupled acquisition
    for _ in range(ctx.n(80, 10000)):
        n, m, d = rng2.randint(2, 7), rng2.choice([2, 2, 3, 4]), rng2.choice([1, 2])
        order = list(range(n))
        rng2.shuffle(order)
        costs, kind = _rand_costs(rng2, m)
        yield {"kind": "acq", "acq": "varcost", "X": _designs(rng2, n, d), "L": [_rand_L(rng2, m) for _ in range(n)],
               "order": order, "q": rng2.randint(1, min(3, n * m)), "costs": costs, "cost_kind": kind}
    total = ctx.n(12, 1200)
    for k in range(total):
        m = rng.choice([2, 2, 3])
        n, d = rng.randint(3, 7), rng.choice([1, 2])
        rounds = rng.randint(2, 4)
        alg = rng.choice(["PaVeBaGP-DE", "PaVeBaGP-DE", "PaVeBaGP-IH"])
        kind = "scripted" if (alg == "PaVeBaGP-IH" or (k + ctx.worker) % 2 == 0) else "task"
        case = {"kind": "covrun", "alg": alg, "X": _designs(rng, n, d),
                "Y": [[core.dyadic(rng, -8, 8, 3) for _ in range(m)] for _ in range(n)],
                "cone": {2: "orthant2", 3: "orthant3"}[m],
                "geom": {"pd": rng.choice([0.0, 0.03, 0.1]), "pc": rng.choice([0.6, 0.9, 0.97])},
                "batch": rng.choice([1, 2, 2, 3]), "rounds": rounds, "seed": rng.randrange(10 ** 6),
                "eps": rng.choice([0.05, 0.2]), "noise_var": rng.choice([0.01, 0.0625]),
                "contraction": rng.choice([1.0, 8.0, 32.0])}
        if kind == "scripted":
            case["model"] = {"kind": "scripted",
                             "L": [[_rand_L(rng, m) for _ in range(n)] for _ in range(rounds + 1)]}
        else:
            f = [list(r) for r in rng.choice(FACTORS_2)] if m == 2 else \
                [[core.dyadic(rng, -4, 4, 2) for _ in range(m)] for _ in range(m)]
            case["model"] = {"kind": "task", "factor": f, "lengthscale": rng.choice([0.15, 0.3, 0.6])}
        yield case
    # decoupled algorithms with integer / mixed cost vectors, batch 1..3
    for k in range(ctx.n(12, 900)):
        m = rng2.choice([2, 2, 3])
        n, d = rng2.randint(3, 6), rng2.choice([1, 2])
        alg = ["PaVeBaPartialGP-rect", "PaVeBaPartialGP-ell", "DecoupledGP"][(k + ctx.worker) % 3]
        kind = rng2.choice(["int_list", "int_list", "int64", "int32", "mixed_list"])
        costs = [int(x) for x in rng2.choice(INT_COSTS[m])] if kind != "mixed_list" else _rand_costs_mixed(rng2, m)
        yield {"kind": "covrun", "alg": alg, "X": _designs(rng2, n, d),
               "Y": [[core.dyadic(rng2, -8, 8, 3) for _ in range(m)] for _ in range(n)],
               "cone": {2: "orthant2", 3: "orthant3"}[m],
               "geom": {"pd": rng2.choice([0.0, 0.03, 0.1]), "pc": rng2.choice([0.6, 0.9, 0.97])},
               "batch": rng2.choice([1, 2, 2, 3]), "rounds": rng2.randint(2, 4), "seed": rng2.randrange(10 ** 6),
               "eps": rng2.choice([0.05, 0.2]), "noise_var": rng2.choice([0.01, 0.0625]),
               "contraction": rng2.choice([1.0, 8.0, 32.0]), "costs": costs, "cost_kind": kind,
               "budget": 1000.0, "model": {"kind": "plain"}}
    # the active set shrinks between the start of the round and evaluating(): frequent discards, batches of 2-3,
    # so that a design discarded in this round is often among the widest of the round-start set
    for k in range(ctx.n(12, 900)):
        m = rng2.choice([2, 2, 3])
        n, d = rng2.randint(5, 8), rng2.choice([1, 2])
        alg = ["VOGP", "EpsilonPAL", "VOGP"][(k + ctx.worker) % 3]
        yield {"kind": "covrun", "alg": alg, "X": _designs(rng2, n, d),
               "Y": [[core.dyadic(rng2, -8, 8, 3) for _ in range(m)] for _ in range(n)],
               "cone": {2: "orthant2", 3: "orthant3"}[m],
               "geom": {"pd": rng2.choice([0.25, 0.4, 0.6]), "pc": rng2.choice([0.9, 0.97, 1.0])},
               "batch": rng2.choice([2, 3]), "rounds": rng2.randint(3, 5), "seed": rng2.randrange(10 ** 6),
               "eps": rng2.choice([0.05, 0.2]), "noise_var": rng2.choice([0.01, 0.0625]),
               "contraction": rng2.choice([1.0, 8.0, 32.0]), "model": {"kind": "plain", "family": "shrink"}}
    yield from gen_cov_extra(ctx, random.Random(rng2.getrandbits(64)))


# ------------------------------------------------------------------------------------------------
# two design spaces over the same points in one process (locate_points must answer for ITS space)
# ------------------------------------------------------------------------------------------------
_BASE_PTS = [[0.0, 0.125], [0.25, 0.5], [0.5, 0.25], [0.75, 0.875], [1.0, 0.0], [0.375, 0.625]]
_BASE_Y2 = [[0.0, 1.0], [0.5, 0.5], [1.0, 0.0], [0.75, 0.75], [0.25, 0.25], [-0.5, 0.875]]


def _run_pair(alg, X, Y, force, seed, rounds=4, batch=2):
    return {"kind": "run", "alg": alg, "X": X, "Y": Y, "cone": "orthant2", "geom": {"pd": 0.0, "pc": 1.0},
            "batch": batch, "rounds": rounds, "seed": seed, "eps": 0.05, "noise_var": 0.01, "contraction": 1.0,
            "force": force}


def _twospace_fixed():
    """fixed cases, every run: space B holds the points of space A at other indices (extra leading point,
    rotation, reversal, sub-sample) and its active rows form a byte-identical query array"""
    P, Y = _BASE_PTS, _BASE_Y2
    out = []
    for alg in ("VOGP", "EpsilonPAL"):
        # B = [extra] + A, design 0 of B inactive: active rows of B == all rows of A, indices shifted by one
        extra, ey = [0.875, 0.375], [0.125, -0.25]
        A4, Y4 = P[:4], Y[:4]
        out.append({"kind": "twospace", "shape": "extra-first", "widths": [3.0, 1.0, 4.0, 2.0, 6.0, 5.0],
                    "perm": [4, 0, 1, 2, 3], "P": P[:5], "queries": [[0, 1, 2, 3], [1, 2], [3], [0, 1, 2, 3]], "q": 2,
                    "runs": [_run_pair(alg, A4, Y4, None, 11),
                             _run_pair(alg, [extra] + A4, [ey] + Y4, {"S": [1, 2, 3, 4], "P": [], "U": []}, 12),
                             _run_pair(alg, A4, Y4, None, 13)]})
        # B = rotation of A by two, complementary halves active: the same two rows, indices 0,1 vs 2,3
        rot = [2, 3, 0, 1]
        out.append({"kind": "twospace", "shape": "rotation", "widths": [1.0, 5.0, 2.0, 7.0, 3.0, 4.0],
                    "perm": rot, "P": P[:4], "queries": [[0, 1], [0, 1, 2, 3], [2, 3], [1]], "q": 1,
                    "runs": [_run_pair(alg, A4, Y4, {"S": [0, 1], "P": [], "U": []}, 21, batch=1),
                             _run_pair(alg, [A4[i] for i in rot], [Y4[i] for i in rot],
                                       {"S": [2, 3], "P": [], "U": []}, 22, batch=1)]})
        # B = reversed sub-sample of A
        sub = [5, 3, 1]
        out.append({"kind": "twospace", "shape": "reversed-subset", "widths": [2.0, 9.0, 1.0, 4.0, 3.0, 6.0],
                    "perm": sub, "P": P, "queries": [[1, 3, 5], [5, 3, 1], [3], [1, 5]], "q": 2,
                    "runs": [_run_pair(alg, P, Y, {"S": [1, 3, 5], "P": [], "U": []}, 31),
                             _run_pair(alg, [P[i] for i in [1, 3, 5, 0]], [Y[i] for i in [1, 3, 5, 0]],
                                       {"S": [0, 1, 2], "P": [], "U": []}, 32),
                             _run_pair(alg, [P[i] for i in [0, 1, 3, 5]], [Y[i] for i in [0, 1, 3, 5]],
                                       {"S": [1, 2, 3], "P": [], "U": []}, 33)]})
    return out


def _alias_fixed():
    """fixed cases, every run: first batch into an empty model, first batch after clear_data(), later batches;
    numpy float64 C-contiguous inputs and torch tensors; the caller's buffers are overwritten afterwards"""
    out = []
    for model in ("independent", "correlated", "modellist", "empirical"):
        for inp in ("numpy", "torch"):
            if model == "empirical" and inp == "torch":
                continue
            out.append({"kind": "alias", "model": model, "input": inp, "d": 2, "m": 2, "fill": "nan" if inp == "numpy" else "const",
                        "ops": [["add", 2], ["add", 1], ["clear"], ["add", 3], ["add", 2]], "seed": 5})
            out.append({"kind": "alias", "model": model, "input": inp, "d": 1, "m": 3, "fill": "const",
                        "ops": [["add", 1], ["clear"], ["add", 1], ["add", 4]], "seed": 6})
    return out


def _locate_fixed():
    """`locate_points` against `Model/Locate.lean`: exact rows, rows shifted by less / more than the tolerance,
    exact ties between two designs, empty query, default / explicit / zero / negative tolerance"""
    X = [[0.0, 0.0], [1.0, 0.0], [1.0, 1.0], [0.25, 0.75], [0.5, 0.5]]
    out = []
    out.append({"kind": "locate", "shape": "exact", "X": X, "xs": [X[2], X[0], X[4], X[2]], "atol": None})
    out.append({"kind": "locate", "shape": "exact-atol0", "X": X, "xs": [X[3], X[1]], "atol": 0.0})
    out.append({"kind": "locate", "shape": "near", "X": X, "xs": [[1.0, 0.125], [0.0, -0.0625]], "atol": 0.25})
    out.append({"kind": "locate", "shape": "far-one-row", "X": X, "xs": [X[1], [1.0, 0.125], X[0]], "atol": 0.0625})
    out.append({"kind": "locate", "shape": "far-default", "X": X, "xs": [[1.0, 2.0 ** -10]], "atol": None})
    out.append({"kind": "locate", "shape": "tie", "X": X, "xs": [[0.5, 0.0], [1.0, 0.5]], "atol": 1.0})
    out.append({"kind": "locate", "shape": "negative-atol", "X": X, "xs": [X[0]], "atol": -1.0})
    out.append({"kind": "locate", "shape": "empty-query", "X": X, "xs": [], "atol": None})
    out.append({"kind": "locate", "shape": "last-design", "X": X, "xs": [X[4]], "atol": None})
    out.append({"kind": "locate", "shape": "one-dim", "X": [[0.0], [0.5], [-0.25]], "xs": [[-0.25], [0.5], [0.0]], "atol": None})
    return out


def _locate_random(rng):
    d = rng.randint(1, 3)
    K = rng.randint(1, 10)
    pts = set()
    while len(pts) < K:
        pts.add(tuple(rng.randint(-8, 8) / 8.0 for _ in range(d)))
    X = [list(p) for p in pts]
    rng.shuffle(X)
    atol = rng.choice([None, None, 0.0, 2.0 ** -6, 0.125, 0.5, 2.0, -0.5])
    a = 1e-6 if atol is None else atol
    xs = []
    for _ in range(rng.randint(1, 6)):
        base = list(rng.choice(X))
        r = rng.random()
        if r < 0.5:
            xs.append(base)
        elif r < 0.82:      # clearly inside the tolerance ball (if it has a dyadic interior) — else exact
            j = rng.randrange(d)
            step = 0.0
            if a >= 2.0 ** -6:
                step = 2.0 ** math.floor(math.log2(a)) / 2.0
            base[j] += rng.choice([-1, 1]) * step
            xs.append(base)
        elif r < 0.9:      # clearly outside (one such row rejects the whole query)
            j = rng.randrange(d)
            base[j] += rng.choice([-1, 1]) * max(2.0 ** -9, 4.0 * abs(a))
            xs.append(base)
        else:              # midpoint of two designs (tie if they are mutual nearest neighbours)
            other = rng.choice(X)
            xs.append([(u + v) / 2.0 for u, v in zip(base, other)])
    return {"kind": "locate", "shape": "random", "X": X, "xs": xs, "atol": atol}


def gen_cov_extra(ctx, rng):
    if ctx.worker == 0:
        yield from _twospace_fixed()
        yield from _alias_fixed()
        yield from _locate_fixed()
    lrng = random.Random(f"locate-{ctx.seed}-{ctx.worker}")
    for _ in range(ctx.n(120, 6000)):
        yield _locate_random(lrng)
    for _ in range(ctx.n(0, 3000)):
        model = rng.choice(["independent", "correlated", "modellist", "empirical"])
        ops = []
        for _k in range(rng.randint(1, 6)):
            ops.append(["clear"] if rng.random() < 0.2 else ["add", rng.randint(1, 4)])
        yield {"kind": "alias", "model": model, "input": "numpy" if model == "empirical" else rng.choice(["numpy", "torch"]),
               "d": rng.randint(1, 3), "m": rng.randint(1, 3), "fill": rng.choice(["nan", "const"]), "ops": ops,
               "seed": rng.randrange(10 ** 6)}


def _rand_costs_mixed(rng, m):
    return [rng.choice([0.5, 1.5, 0.25]) if k % 2 == 0 else float(rng.randint(2, 5)) for k in range(m)]


# ------------------------------------------------------------------------------------------------
def _viol(ctx, *a, **k):
    from harness.props import c07

    return c07._viol(ctx, *a, **k)


def _run_acq(ctx, case):
    from vopy.acquisition.acquisition import (MaxVarianceDecoupledAcquisition, SumVarianceAcquisition,
                                              optimize_acqf_discrete, optimize_decoupled_acqf_discrete)

    from harness import stubs
    from harness.props import c07

    X = np.array(case["X"], dtype=float)
    covs = np.array(case["covs"], dtype=float) if "covs" in case else np.stack([_cov(L) for L in case["L"]])
    n, m = len(X), covs.shape[1]
    order, q = case["order"], case["q"]
    x = X[order]
    ctx.count("cov_acq_" + case["acq"])
    offdiag = float(np.abs(covs - covs * np.eye(m)).max())
    try:
        if case["acq"] == "sumvar":
            model = stubs.ScriptedModel(X, np.zeros((n, m)), covs)
            acq = SumVarianceAcquisition(model)
            seen = [float(v) for v in np.asarray(acq(x), dtype=float).reshape(-1)]
            exact = [core.parse_q(ctx.ask("sumvar", core.qmat(covs[i]))) for i in order]
            for i, a, b in zip(order, seen, exact):
                if core.frac(a) != b:
                    _viol(ctx, "acq-value", "SumVarianceAcquisition: value differs from the trace of the posterior "
                          "covariance (total posterior variance)", case, kind="F",
                          detail={"design": i, "cov": covs[i].tolist(), "seen": a, "trace": float(b)})
                    break
            cand, _ = optimize_acqf_discrete(acq, q, x)
            cand = np.asarray(cand, dtype=float).reshape(-1, x.shape[1])
            pos = c07._positions([tuple(r) for r in x.tolist()], [tuple(r) for r in cand.tolist()])
            if None in pos:
                _viol(ctx, "batch-spec", "SumVariance batch: a candidate is not one of the choices", case)
            else:
                spec = ctx.ask("specd", core.qvec(exact), str(min(q, len(order))), core.nats(pos),
                               core.qvec([exact[p] for p in pos]))
                if spec != "ok":
                    _viol(ctx, "not-maximiser-of-definition", "the batch chosen with the real SumVarianceAcquisition "
                          "is not the designs of largest total posterior variance (trace) in non-increasing order",
                          case, detail={"order": order, "traces": [float(t) for t in exact],
                                        "picked": [order[p] for p in pos]})
            allsum = [float(covs[i].sum()) for i in order]
            nontrivial = offdiag > 0 and np.argsort(-np.array(allsum), kind="stable").tolist() != \
                np.argsort(-np.array([float(t) for t in exact]), kind="stable").tolist()
        else:
            handed = _mk_costs(case)                       # what the caller hands over (dtype preserved)
            costs = None if handed is None else np.array([float(c) for c in handed], dtype=float)
            exact_div = costs is None or all(float(c) > 0 and np.log2(float(c)).is_integer() for c in costs)
            ctx.count("cov_cost_kind_" + (case.get("cost_kind", "float_array") if handed is not None else "none"))
            model = stubs.ScriptedModelList(X, np.zeros((n, m)), covs)
            acq = MaxVarianceDecoupledAcquisition(model, costs=handed)
            table, flagged = [], False
            for j in range(m):
                acq.evaluation_index = j
                seen = [float(v) for v in np.asarray(acq(x), dtype=float).reshape(-1)]
                row = []
                for i, a in zip(order, seen):
                    ex = ctx.ask("varcost", core.qmat(covs[i]), str(j), "none" if costs is None else core.qvec(costs))
                    b = core.parse_q(ex) if ex not in ("err", "bad-op") else None
                    row.append(b)
                    ok = b is not None and (core.frac(a) == b if exact_div else
                                            abs(a - float(b)) <= 1e-12 * max(1.0, abs(float(b))))
                    if not ok and not flagged:
                        flagged = True   # reported once; the batch check below still runs on the definition table
                        _viol(ctx, "acq-value", "MaxVarianceDecoupledAcquisition: value differs from cov[j][j] / cost[j]",
                              case, kind="F", detail={"design": i, "objective": j, "seen": a, "lean": ex,
                                                      "costs": repr(handed)})
                table.append(row)
            acq.evaluation_index = None
            if all(b is not None for r in table for b in r) and all(len(r) == len(order) for r in table):
                cand, _, objs = optimize_decoupled_acqf_discrete(acq, q, x)
                cand = np.asarray(cand, dtype=float).reshape(-1, x.shape[1])
                objs = [int(o) for o in np.asarray(objs).reshape(-1)]
                rows = [tuple(r) for r in x.tolist()]
                pos = [None] * len(cand)
                for j in set(objs):
                    ks = [k for k in range(len(cand)) if objs[k] == j]
                    for k, p in zip(ks, c07._positions(rows, [tuple(cand[k].tolist()) for k in ks])):
                        pos[k] = p
                if None in pos or any(o < 0 or o >= m for o in objs):
                    _viol(ctx, "batch-spec", "MaxVarianceDecoupled batch: a candidate is not a (choice, objective) pair", case)
                else:
                    spec = ctx.ask("specdec", core.qmat(table), str(min(q, len(order) * m)), core.nats(pos),
                                   core.nats(objs), core.qvec([table[o][p] for p, o in zip(pos, objs)]))
                    if spec != "ok":
                        _viol(ctx, "not-maximiser-of-definition", "the batch chosen with the real "
                              "MaxVarianceDecoupledAcquisition is not the (design, objective) pairs of largest "
                              "cov_jj / cost_j in non-increasing order", case,
                              detail={"order": order, "picked": [[order[p], o] for p, o in zip(pos, objs)]})
            nontrivial = offdiag > 0 and q < len(order) * m
    except Exception as e:
        _viol(ctx, "acq-crash:" + core.exc_key(e), f"acquisition stream raised {type(e).__name__}: {e}", case)
        nontrivial = False
    ctx.case_done(case, bool(nontrivial), canon=case)


def _run_covrun(ctx, case):
    from harness import stubs
    from harness.cones import EXACT_CONES
    from harness.props import c07

    spec = case["model"]
    ctx.count("cov_run_" + spec.get("family", spec["kind"]))
    real_build, real_dump = c07._build, c07._dump

    def build(case):
        if spec["kind"] == "plain":
            c2 = dict(case)
            if case.get("costs") is not None:
                c2["costs"] = _mk_costs(case)
                ctx.count("cov_run_cost_kind_" + case.get("cost_kind", "float_array"))
            return real_build(c2)
        if spec["kind"] == "scripted":
            X, Y = np.array(case["X"], dtype=float), np.array(case["Y"], dtype=float)
            tables = [(Y, np.stack([_cov(L) for L in stage])) for stage in spec["L"]]
            model = stubs.ScriptedModel(X, tables[0][0], tables[0][1], script=tables[1:])
            return stubs.build(case["alg"], in_data=X, out_data=Y, W=EXACT_CONES[case["cone"]][0], model=model,
                               epsilon=case["eps"], noise_var=case["noise_var"], batch_size=case["batch"],
                               conf_contraction=case["contraction"])
        import torch

        alg = real_build(case)
        with torch.no_grad():  # strongly non-diagonal task covariance B = F Fᵀ + diag(1e-4)
            k = alg.model.model.covar_module
            t = k.task_covar_module
            F = torch.tensor(spec["factor"], dtype=t.covar_factor.dtype).reshape(t.covar_factor.shape)
            t.covar_factor.copy_(F)
            t.var = torch.full_like(t.var, 1e-4)
            k.data_covar_module.lengthscale = torch.full_like(k.data_covar_module.lengthscale, spec["lengthscale"])
        alg.model.update()
        return alg

    def dump(model):
        if hasattr(model, "add_sample_calls"):  # scripted model: what add_sample received, in order
            d, m = model.input_dim, model.output_dim
            Xs = [np.atleast_2d(r["X"])[:, :d] for r in model.add_sample_calls]
            Ys = [np.atleast_2d(r["Y"]) for r in model.add_sample_calls]
            return {"kind": "gp", "X": np.concatenate(Xs) if Xs else np.empty((0, d)),
                    "Y": np.concatenate(Ys) if Ys else np.empty((0, m))}
        return real_dump(model)

    c07._build, c07._dump = build, dump
    try:
        c07.run_alg(ctx, case)
    finally:
        c07._build, c07._dump = real_build, real_dump


def _run_twospace(ctx, case):
    """(1) direct law of `locate_points` on two FixedPointsDesignSpace objects over the same points at different
    indices, queried alternately with byte-identical arrays; the real MaxDiagonalAcquisition / optimiser on each
    against the own diagonal table.  (2) two or three real algorithm objects in the same process whose active rows
    form byte-identical query arrays at different design indices, through `c07.run_alg` (own-table law)."""
    from vopy.acquisition.acquisition import MaxDiagonalAcquisition, optimize_acqf_discrete
    from vopy.design_space import FixedPointsDesignSpace

    from harness.props import c07

    ctx.count("cov_twospace_" + case["shape"])
    P = np.array(case["P"], dtype=float)
    perm = case["perm"]
    m = 2
    spaces = []
    for pts, ids in ((P, list(range(len(P)))), (P[perm], list(perm))):
        ds = FixedPointsDesignSpace(pts.copy(), m, confidence_type="hyperrectangle")
        for k, r in enumerate(ds.confidence_regions):   # distinct diagonals, attached to the DESIGN (not the slot)
            w = case["widths"][ids[k]]
            r.lower, r.upper = np.zeros(m), np.array([w, 0.0])
        spaces.append((ds, pts, ids))
    try:
        for rows in case["queries"]:
            for which, (ds, pts, ids) in enumerate(spaces):   # alternately, identical bytes
                rows_here = [r for r in rows if r in ids]
                if len(rows_here) != len(rows):
                    continue
                x = P[rows].copy()
                idx = [int(i) for i in ds.locate_points(x)]
                if len(idx) != len(x) or any(i < 0 or i >= len(pts) or not np.array_equal(pts[i], x[k])
                                             for k, i in enumerate(idx)):
                    _viol(ctx, "locate-points-wrong-design", "DiscreteDesignSpace.locate_points returned an index whose "
                          "point in THIS design space is not the queried point (another space over the same points "
                          "at different indices was queried before with the same array)", case,
                          detail={"space": which, "queried_rows": rows, "returned": idx,
                                  "expected": [ids.index(r) for r in rows]})
                acq = MaxDiagonalAcquisition(ds)
                own = [float(case["widths"][r]) for r in rows]
                seen = [float(v) for v in np.asarray(acq(x), dtype=float).reshape(-1)]
                if seen != own:
                    _viol(ctx, "acq-value", "MaxDiagonalAcquisition: value is not the diagonal of the queried design's "
                          "region in this design space", case, kind="F", detail={"space": which, "seen": seen, "own": own})
                cand, _ = optimize_acqf_discrete(acq, case["q"], x)
                cand = np.asarray(cand, dtype=float).reshape(-1, x.shape[1])
                pos = c07._positions([tuple(r) for r in x.tolist()], [tuple(r) for r in cand.tolist()])
                spec = "fail" if None in pos else ctx.ask("specd", core.qvec(own), str(min(case["q"], len(rows))),
                                                          core.nats(pos), core.qvec([own[p] for p in pos]))
                if spec != "ok":
                    _viol(ctx, "not-maximiser-among-active", "the batch chosen with the real MaxDiagonalAcquisition over "
                          "this design space is not the queried designs of largest region diagonal in non-increasing "
                          "order", case, detail={"space": which, "queried_rows": rows, "diagonals": own,
                                                 "picked": [rows[p] if p is not None else None for p in pos]})
    except Exception as e:
        _viol(ctx, "twospace-crash:" + core.exc_key(e), f"two-design-space stream raised {type(e).__name__}: {e}", case)
    ctx.case_done(case, True, canon=case)
    for sub in case.get("runs", []):
        c07.run_alg(ctx, sub)


def _stored(model):
    from harness.props import c07

    return c07._dump(model)


def _run_alias(ctx, case):
    """`add_sample` must COPY: after the caller overwrites the arrays it passed in, the model's data must still
    be the old data followed by the values that were passed at the time of the call."""
    import torch
    from vopy.models.empirical_mean_var import EmpiricalMeanVarModel
    from vopy.models.gpytorch import (CorrelatedExactGPyTorchModel, GPyTorchModelListExactModel,
                                      IndependentExactGPyTorchModel)

    kind, d, m = case["model"], case["d"], case["m"]
    ctx.count("cov_alias_" + kind + "_" + case["input"])
    rs = np.random.RandomState(case["seed"] % (2 ** 32))
    ndes = 5
    try:
        if kind == "independent":
            model = IndependentExactGPyTorchModel(d, m, 0.01)
        elif kind == "correlated":
            model = CorrelatedExactGPyTorchModel(d, m, 0.01)
        elif kind == "modellist":
            model = GPyTorchModelListExactModel(d, m, 0.01)
        else:
            model = EmpiricalMeanVarModel(d, m, 0.01, ndes)
        # own log
        if kind == "modellist":
            logX, logY = [np.empty((0, d)) for _ in range(m)], [np.empty(0) for _ in range(m)]
        elif kind == "empirical":
            logS = [np.empty((0, m)) for _ in range(ndes)]
        else:
            logX, logY = np.empty((0, d)), np.empty((0, m))
        first_after_empty = True
        for step, op in enumerate(case["ops"]):
            if op[0] == "clear":
                model.clear_data()
                if kind == "modellist":
                    logX, logY = [np.empty((0, d)) for _ in range(m)], [np.empty(0) for _ in range(m)]
                elif kind == "empirical":
                    logS = [np.empty((0, m)) for _ in range(ndes)]
                else:
                    logX, logY = np.empty((0, d)), np.empty((0, m))
                first_after_empty = True
                continue
            k = int(op[1])
            X = np.ascontiguousarray(rs.randint(-8, 9, size=(k, d)) / 8.0, dtype=np.float64)
            dims = idx = None
            if kind == "modellist":
                Y = np.ascontiguousarray(rs.randint(-16, 17, size=k) / 8.0, dtype=np.float64)
                dims = [int(t) for t in rs.randint(0, m, size=k)]
            else:
                Y = np.ascontiguousarray(rs.randint(-16, 17, size=(k, m)) / 8.0, dtype=np.float64)
                if kind == "empirical":
                    idx = [int(t) for t in rs.randint(0, ndes, size=k)]
            X0, Y0 = X.copy(), Y.copy()
            if case["input"] == "torch":
                Xp, Yp = torch.tensor(X0, dtype=torch.float64), torch.tensor(Y0, dtype=torch.float64)
            else:
                Xp, Yp = X, Y
            # expected data after this call: old ++ what was passed (Lean store models on the finite values)
            if kind == "modellist":
                model.add_sample(Xp, Yp, dims)
                exp = ctx.ask("listadd", str(d), str(m), core.qmats(logX), core.qmat(logY), core.qmat(X0), core.qvec(Y0),
                              core.nats(dims))
                for j in range(m):
                    sel = [t for t in range(k) if dims[t] == j]
                    logX[j] = np.concatenate([logX[j], X0[sel].reshape(-1, d)])
                    logY[j] = np.concatenate([logY[j], Y0[sel]])
                own = core.qmats(logX) + " " + core.qmat(logY)
            elif kind == "empirical":
                model.add_sample(idx, Yp)
                exp = ctx.ask("empadd", str(ndes), core.qmats(logS), core.nats(idx), core.qmat(Y0))
                for t, i in enumerate(idx):
                    logS[i] = np.concatenate([logS[i], Y0[t].reshape(1, m)])
                own = core.qmats(logS)
            else:
                model.add_sample(Xp, Yp)
                exp = ctx.ask("gpadd", str(d), core.qmat(logX), core.qmat(logY), core.qmat(X0), core.qmat(Y0))
                logX, logY = np.concatenate([logX, X0]), np.concatenate([logY, Y0])
                own = core.qmat(logX) + " " + core.qmat(logY)
            if exp != own:
                _viol(ctx, "alias-model", "Lean store model disagrees with the harness's own log", case, kind="F",
                      detail={"step": step})
            # ---- (F) no shared memory between the stored data and the caller's arrays
            shared = False
            st = [model.train_inputs, model.train_targets] if kind != "empirical" else list(model.design_samples)
            flat = []
            for t in st:
                flat.extend(t if isinstance(t, (list, tuple)) else [t])
            for t in flat:
                if isinstance(t, torch.Tensor):
                    if case["input"] == "torch":
                        shared |= any(t.numel() and b.numel() and
                                      t.untyped_storage().data_ptr() == b.untyped_storage().data_ptr() for b in (Xp, Yp))
                    else:
                        shared |= bool(t.numel()) and any(np.shares_memory(t.detach().numpy(), b) for b in (X, Y))
                elif isinstance(t, np.ndarray) and case["input"] == "numpy":
                    shared |= any(np.shares_memory(t, b) for b in (X, Y))
            if shared:
                _viol(ctx, "data-shares-caller-buffer", f"{kind}: after add_sample the stored data share memory with the "
                      "arrays the caller passed in", case, kind="F",
                      detail={"step": step, "first_batch_into_empty_model": first_after_empty})
            # ---- the caller re-uses its buffers
            fillv = float("nan") if case["fill"] == "nan" else -777.25
            if case["input"] == "torch":
                Xp.fill_(fillv)
                Yp.fill_(fillv)
            else:
                X.fill(fillv)
                Y.fill(fillv)
            # ---- (R) the stored data are still the old data ++ the values passed at the time of the call
            now = _stored(model)
            if kind == "modellist":
                ok = all(np.array_equal(now["X"][j], logX[j]) and np.array_equal(now["Y"][j], logY[j]) for j in range(m))
            elif kind == "empirical":
                ok = all(np.array_equal(now["samples"][i], logS[i]) for i in range(ndes))
            else:
                ok = np.array_equal(now["X"], logX) and np.array_equal(now["Y"], logY)
            if not ok:
                _viol(ctx, "data-aliases-caller-buffer", f"{kind}: after the caller overwrote the arrays it had passed to "
                      "add_sample, the model's stored data are no longer the old data followed by exactly the passed "
                      "(design, observation) pairs", case,
                      detail={"step": step, "first_batch_into_empty_model": first_after_empty, "input": case["input"],
                              "passed_X": X0.tolist(), "passed_Y": Y0.tolist()})
                break
            first_after_empty = False
    except Exception as e:
        _viol(ctx, "alias-crash:" + core.exc_key(e), f"model-data stream raised {type(e).__name__}: {e}", case)
    ctx.case_done(case, any(o[0] == "add" for o in case["ops"]), canon=case)


def _run_locate(ctx, case):
    """real `FixedPointsDesignSpace.locate_points` vs `Locate.locate` (exact, on the squares).  All coordinates are
    dyadic, so sklearn's |x|² − 2xy + |y|² expansion is exact and only the final `sqrt(d) > atol` comparison could
    round: the Lean verdict is taken at atol·(1 ∓ 2⁻³⁰) and compared only when both agree (robust)."""
    from vopy.design_space import FixedPointsDesignSpace

    ctx.count("cov_locate_" + case["shape"])
    X = np.array(case["X"], dtype=float)
    d = X.shape[1]
    xs = np.array(case["xs"], dtype=float).reshape(-1, d)
    atol = case["atol"]
    a = 1e-6 if atol is None else float(atol)
    ds = FixedPointsDesignSpace(X.copy(), 2, confidence_type="hyperrectangle")
    try:
        got = ds.locate_points(xs.copy()) if atol is None else ds.locate_points(xs.copy(), atol=atol)
        got = [int(i) for i in got]
        raised = None
    except ValueError:
        got, raised = None, "ValueError"
    except Exception as e:
        got, raised = None, type(e).__name__
        _viol(ctx, "locate-crash:" + core.exc_key(e), f"locate_points raised {type(e).__name__}: {e}", case)
    lo, hi = a * (1 - 2.0 ** -30), a * (1 + 2.0 ** -30)
    if a < 0:
        lo, hi = hi, lo
    v_lo = ctx.ask("locate", core.qmat(xs.tolist()), core.qmat(X.tolist()), core.q(lo))
    v_hi = ctx.ask("locate", core.qmat(xs.tolist()), core.qmat(X.tolist()), core.q(hi))
    v = ctx.ask("locate", core.qmat(xs.tolist()), core.qmat(X.tolist()), core.q(a))
    robust = (v_lo == "err") == (v_hi == "err") == (v == "err") and "bad" not in (v + v_lo + v_hi)
    if "bad" in v:
        raise RuntimeError("driver rejected a locate request: " + v)
    if not robust:
        ctx.count("locate_borderline")
    elif raised is not None and raised != "ValueError":
        pass
    elif v == "err" and got is not None:
        _viol(ctx, "locate-accepts-far-point", "locate_points returned indices although some query row is farther than "
              "atol from every design (or there was nothing to locate): a sample requested at that point would be "
              "booked on a design it was not taken at", case, detail={"returned": got, "atol": a})
    elif v != "err" and got is None:
        _viol(ctx, "locate-rejects-design-point", "locate_points raised ValueError although every query row is within "
              "atol of a design", case, detail={"model": v, "atol": a})
    elif v != "err":
        want = [] if v == "_" else [int(t) for t in v.split(",")]
        ok = len(got) == len(xs)
        if ok:
            for k, i in enumerate(got):
                band = ctx.ask("locband", core.qvec(xs[k].tolist()), core.qmat(X.tolist()), "0")
                if str(i) not in band.split(","):
                    ok = False
        if not ok:
            _viol(ctx, "locate-points-wrong-design", "locate_points returned an index that is not a nearest design of "
                  "the queried point (exact squared distances)", case, detail={"returned": got, "model": want})
        elif got != want:
            _viol(ctx, "locate-tie-rule", "locate_points resolved an exact tie differently from np.argmin's first-minimum "
                  "rule of the model", case, kind="F", detail={"returned": got, "model": want})
        ctx.count("locate_ok")
    else:
        ctx.count("locate_err")
    ctx.case_done(case, len(xs) > 0, canon=case)


def run_cov(ctx, case):
    if case["kind"] == "locate":
        _run_locate(ctx, case)
    elif case["kind"] == "acq":
        _run_acq(ctx, case)
    elif case["kind"] == "covrun":
        _run_covrun(ctx, case)
    elif case["kind"] == "twospace":
        _run_twospace(ctx, case)
    elif case["kind"] == "alias":
        _run_alias(ctx, case)
    else:
        raise ValueError(f"unknown case kind {case['kind']!r}")
