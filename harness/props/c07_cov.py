"""C07, covariance streams: acquisition VALUES against their definition on FULL covariance matrices.

`SumVarianceAcquisition` is the trace of the posterior covariance ("largest total posterior
variance"), `MaxVarianceDecoupledAcquisition` is cov[j][j] / cost[j].  With diagonal covariances a
sum over *all* entries equals the trace, so these streams use covariances Σ = L·Lᵀ with large
off-diagonal entries of both signs (exact dyadic numbers), for which the ranking by trace differs
from the ranking by any other reduction of the matrix.

* kind "acq": the REAL acquisition classes on a scripted model (`stubs.ScriptedModel`, table
  posterior): every value is compared EXACTLY with the Lean definition (`sumvar` / `varcost`), and
  the real optimisers driven by the real acquisition must return a batch that satisfies the batch
  relation (`specd` / `specdec`) for the DEFINITION values.
* kind "covrun": whole PaVeBaGP runs (types DE and IH) through `c07.run_alg` with (i) a scripted
  posterior that changes at every `update()`, (ii) the real correlated GP with a strongly non-diagonal
  task covariance factor.  All per-evaluation checks of c07.py apply (recorded value = trace of the
  pre-step covariance, picks maximise the trace among the active designs, data appended exactly).
"""
import os

os.environ.setdefault("OMP_NUM_THREADS", "1")

import random  # noqa: E402

import numpy as np  # noqa: E402

from harness import core  # noqa: E402

FACTORS_2 = [[[1.0, 0.0], [-0.95, 0.1]], [[1.0, 0.0], [0.9, 0.25]], [[0.5, -0.75], [0.75, 0.5]],
             [[1.0, 0.5], [-0.5, 1.0]], [[0.25, 1.0], [-1.0, 0.125]]]


COST_KINDS = ("float_array", "float_list", "int_list", "int64", "int32", "mixed_list")
INT_COSTS = {2: [[1, 3], [2, 5], [3, 1], [2, 3], [1, 2], [4, 1]], 3: [[1, 1, 4], [2, 3, 1], [1, 3, 2], [5, 2, 2]],
             4: [[1, 2, 3, 4], [2, 1, 1, 3]]}


def _mk_costs(case):
    """the cost vector as the caller would hand it over: the algorithms do `np.array(costs)` and keep the dtype,
    so an integer list reaches the acquisition as an int64 array"""
    c, kind = case.get("costs"), case.get("cost_kind", "float_array")
    if c is None:
        return None
    if kind == "float_array":
        return np.array(c, dtype=float)
    if kind == "float_list":
        return [float(x) for x in c]
    if kind == "int_list":
        return [int(x) for x in c]
    if kind == "int64":
        return np.array([int(x) for x in c], dtype=np.int64)
    if kind == "int32":
        return np.array([int(x) for x in c], dtype=np.int32)
    if kind == "mixed_list":   # e.g. [0.5, 2]: integers stay Python ints
        return [int(x) if float(x).is_integer() and k % 2 == 1 else float(x) for k, x in enumerate(c)]
    raise ValueError(kind)


def _rand_costs(rng, m):
    kind = rng.choice(COST_KINDS)
    if kind in ("int_list", "int64", "int32"):
        return [int(x) for x in rng.choice(INT_COSTS[m])], kind
    if kind == "mixed_list":
        return [rng.choice([0.5, 1.5, 2.0, 0.25]) if k % 2 == 0 else float(rng.randint(1, 5)) for k in range(m)], kind
    return [rng.choice([0.25, 0.5, 1.0, 2.0, 4.0, 3.0, 1.5]) for _ in range(m)], kind


def _rand_L(rng, m, p=2, span=6):
    """lower-triangular dyadic factor with positive diagonal: Σ = L Lᵀ is exact, positive definite and
    has off-diagonals of both signs"""
    L = [[0.0] * m for _ in range(m)]
    for i in range(m):
        for j in range(i):
            L[i][j] = core.dyadic(rng, -span, span, p)
        L[i][i] = core.dyadic(rng, 1, span, p)
    return L


def _cov(L):
    L = np.array(L, dtype=float)
    return L @ L.T


def _designs(rng, n, d):
    pts = set()
    while len(pts) < n:
        pts.add(tuple(core.dyadic(rng, 0, 16, 4) for _ in range(d)))
    X = [list(p) for p in sorted(pts)]
    rng.shuffle(X)
    return X


def gen_cov(ctx):
    rng = random.Random(ctx.rng.getrandbits(64))
    for _ in range(ctx.n(120, 20000)):
        n, m, d = rng.randint(2, 8), rng.choice([2, 2, 3, 4]), rng.choice([1, 2])
        order = list(range(n))
        rng.shuffle(order)
        order = order[: rng.randint(max(1, n - 2), n)]
        r = rng.random()
        q = rng.randint(1, len(order)) if r < 0.85 else len(order) + 1
        case = {"kind": "acq", "acq": rng.choice(["sumvar", "varcost"]), "X": _designs(rng, n, d),
                "L": [_rand_L(rng, m) for _ in range(n)], "order": order, "q": q}
        if case["acq"] == "varcost":  # powers of two: the division is exact in binary floating point
            case["costs"] = None if rng.random() < 0.3 else [rng.choice([0.25, 0.5, 1.0, 2.0, 4.0]) for _ in range(m)]
        yield case
    rng2 = random.Random(rng.getrandbits(64))   # later families: own stream, the older ones are unchanged
    # cost vectors of every dtype (int list, int64, int32, mixed, float list/array) for the decoupled acquisition
    for _ in range(ctx.n(80, 10000)):
        n, m, d = rng2.randint(2, 7), rng2.choice([2, 2, 3, 4]), rng2.choice([1, 2])
        order = list(range(n))
        rng2.shuffle(order)
        costs, kind = _rand_costs(rng2, m)
        yield {"kind": "acq", "acq": "varcost", "X": _designs(rng2, n, d), "L": [_rand_L(rng2, m) for _ in range(n)],
               "order": order, "q": rng2.randint(1, min(3, n * m)), "costs": costs, "cost_kind": kind}
    total = ctx.n(12, 1200)
    for k in range(total):
        m = rng.choice([2, 2, 3])
        n, d = rng.randint(3, 7), rng.choice([1, 2])
        rounds = rng.randint(2, 4)
        alg = rng.choice(["PaVeBaGP-DE", "PaVeBaGP-DE", "PaVeBaGP-IH"])
        kind = "scripted" if (alg == "PaVeBaGP-IH" or (k + ctx.worker) % 2 == 0) else "task"
        case = {"kind": "covrun", "alg": alg, "X": _designs(rng, n, d),
                "Y": [[core.dyadic(rng, -8, 8, 3) for _ in range(m)] for _ in range(n)],
                "cone": {2: "orthant2", 3: "orthant3"}[m],
                "geom": {"pd": rng.choice([0.0, 0.03, 0.1]), "pc": rng.choice([0.6, 0.9, 0.97])},
                "batch": rng.choice([1, 2, 2, 3]), "rounds": rounds, "seed": rng.randrange(10 ** 6),
                "eps": rng.choice([0.05, 0.2]), "noise_var": rng.choice([0.01, 0.0625]),
                "contraction": rng.choice([1.0, 8.0, 32.0])}
        if kind == "scripted":
            case["model"] = {"kind": "scripted",
                             "L": [[_rand_L(rng, m) for _ in range(n)] for _ in range(rounds + 1)]}
        else:
            f = [list(r) for r in rng.choice(FACTORS_2)] if m == 2 else \
                [[core.dyadic(rng, -4, 4, 2) for _ in range(m)] for _ in range(m)]
            case["model"] = {"kind": "task", "factor": f, "lengthscale": rng.choice([0.15, 0.3, 0.6])}
        yield case
    # decoupled algorithms with integer / mixed cost vectors, batch 1..3
    for k in range(ctx.n(12, 900)):
        m = rng2.choice([2, 2, 3])
        n, d = rng2.randint(3, 6), rng2.choice([1, 2])
        alg = ["PaVeBaPartialGP-rect", "PaVeBaPartialGP-ell", "DecoupledGP"][(k + ctx.worker) % 3]
        kind = rng2.choice(["int_list", "int_list", "int64", "int32", "mixed_list"])
        costs = [int(x) for x in rng2.choice(INT_COSTS[m])] if kind != "mixed_list" else _rand_costs_mixed(rng2, m)
        yield {"kind": "covrun", "alg": alg, "X": _designs(rng2, n, d),
               "Y": [[core.dyadic(rng2, -8, 8, 3) for _ in range(m)] for _ in range(n)],
               "cone": {2: "orthant2", 3: "orthant3"}[m],
               "geom": {"pd": rng2.choice([0.0, 0.03, 0.1]), "pc": rng2.choice([0.6, 0.9, 0.97])},
               "batch": rng2.choice([1, 2, 2, 3]), "rounds": rng2.randint(2, 4), "seed": rng2.randrange(10 ** 6),
               "eps": rng2.choice([0.05, 0.2]), "noise_var": rng2.choice([0.01, 0.0625]),
               "contraction": rng2.choice([1.0, 8.0, 32.0]), "costs": costs, "cost_kind": kind,
               "budget": 1000.0, "model": {"kind": "plain"}}
    # the active set shrinks between the start of the round and evaluating(): frequent discards, batches of 2-3,
    # so that a design discarded in this round is often among the widest of the round-start set
    for k in range(ctx.n(12, 900)):
        m = rng2.choice([2, 2, 3])
        n, d = rng2.randint(5, 8), rng2.choice([1, 2])
        alg = ["VOGP", "EpsilonPAL", "VOGP"][(k + ctx.worker) % 3]
        yield {"kind": "covrun", "alg": alg, "X": _designs(rng2, n, d),
               "Y": [[core.dyadic(rng2, -8, 8, 3) for _ in range(m)] for _ in range(n)],
               "cone": {2: "orthant2", 3: "orthant3"}[m],
               "geom": {"pd": rng2.choice([0.25, 0.4, 0.6]), "pc": rng2.choice([0.9, 0.97, 1.0])},
               "batch": rng2.choice([2, 3]), "rounds": rng2.randint(3, 5), "seed": rng2.randrange(10 ** 6),
               "eps": rng2.choice([0.05, 0.2]), "noise_var": rng2.choice([0.01, 0.0625]),
               "contraction": rng2.choice([1.0, 8.0, 32.0]), "model": {"kind": "plain", "family": "shrink"}}


def _rand_costs_mixed(rng, m):
    return [rng.choice([0.5, 1.5, 0.25]) if k % 2 == 0 else float(rng.randint(2, 5)) for k in range(m)]


# ------------------------------------------------------------------------------------------------
def _viol(ctx, *a, **k):
    from harness.props import c07

    return c07._viol(ctx, *a, **k)


def _run_acq(ctx, case):
    from vopy.acquisition.acquisition import (MaxVarianceDecoupledAcquisition, SumVarianceAcquisition,
                                              optimize_acqf_discrete, optimize_decoupled_acqf_discrete)

    from harness import stubs
    from harness.props import c07

    X = np.array(case["X"], dtype=float)
    covs = np.array(case["covs"], dtype=float) if "covs" in case else np.stack([_cov(L) for L in case["L"]])
    n, m = len(X), covs.shape[1]
    order, q = case["order"], case["q"]
    x = X[order]
    ctx.count("cov_acq_" + case["acq"])
    offdiag = float(np.abs(covs - covs * np.eye(m)).max())
    try:
        if case["acq"] == "sumvar":
            model = stubs.ScriptedModel(X, np.zeros((n, m)), covs)
            acq = SumVarianceAcquisition(model)
            seen = [float(v) for v in np.asarray(acq(x), dtype=float).reshape(-1)]
            exact = [core.parse_q(ctx.ask("sumvar", core.qmat(covs[i]))) for i in order]
            for i, a, b in zip(order, seen, exact):
                if core.frac(a) != b:
                    _viol(ctx, "acq-value", "SumVarianceAcquisition: value differs from the trace of the posterior "
                          "covariance (total posterior variance)", case, kind="F",
                          detail={"design": i, "cov": covs[i].tolist(), "seen": a, "trace": float(b)})
                    break
            cand, _ = optimize_acqf_discrete(acq, q, x)
            cand = np.asarray(cand, dtype=float).reshape(-1, x.shape[1])
            pos = c07._positions([tuple(r) for r in x.tolist()], [tuple(r) for r in cand.tolist()])
            if None in pos:
                _viol(ctx, "batch-spec", "SumVariance batch: a candidate is not one of the choices", case)
            else:
                spec = ctx.ask("specd", core.qvec(exact), str(min(q, len(order))), core.nats(pos),
                               core.qvec([exact[p] for p in pos]))
                if spec != "ok":
                    _viol(ctx, "not-maximiser-of-definition", "the batch chosen with the real SumVarianceAcquisition "
                          "is not the designs of largest total posterior variance (trace) in non-increasing order",
                          case, detail={"order": order, "traces": [float(t) for t in exact],
                                        "picked": [order[p] for p in pos]})
            allsum = [float(covs[i].sum()) for i in order]
            nontrivial = offdiag > 0 and np.argsort(-np.array(allsum), kind="stable").tolist() != \
                np.argsort(-np.array([float(t) for t in exact]), kind="stable").tolist()
        else:
            handed = _mk_costs(case)                       # what the caller hands over (dtype preserved)
            costs = None if handed is None else np.array([float(c) for c in handed], dtype=float)
            exact_div = costs is None or all(float(c) > 0 and np.log2(float(c)).is_integer() for c in costs)
            ctx.count("cov_cost_kind_" + (case.get("cost_kind", "float_array") if handed is not None else "none"))
            model = stubs.ScriptedModelList(X, np.zeros((n, m)), covs)
            acq = MaxVarianceDecoupledAcquisition(model, costs=handed)
            table, flagged = [], False
            for j in range(m):
                acq.evaluation_index = j
                seen = [float(v) for v in np.asarray(acq(x), dtype=float).reshape(-1)]
                row = []
                for i, a in zip(order, seen):
                    ex = ctx.ask("varcost", core.qmat(covs[i]), str(j), "none" if costs is None else core.qvec(costs))
                    b = core.parse_q(ex) if ex not in ("err", "bad-op") else None
                    row.append(b)
                    ok = b is not None and (core.frac(a) == b if exact_div else
                                            abs(a - float(b)) <= 1e-12 * max(1.0, abs(float(b))))
                    if not ok and not flagged:
                        flagged = True   # reported once; the batch check below still runs on the definition table
                        _viol(ctx, "acq-value", "MaxVarianceDecoupledAcquisition: value differs from cov[j][j] / cost[j]",
                              case, kind="F", detail={"design": i, "objective": j, "seen": a, "lean": ex,
                                                      "costs": repr(handed)})
                table.append(row)
            acq.evaluation_index = None
            if all(b is not None for r in table for b in r) and all(len(r) == len(order) for r in table):
                cand, _, objs = optimize_decoupled_acqf_discrete(acq, q, x)
                cand = np.asarray(cand, dtype=float).reshape(-1, x.shape[1])
                objs = [int(o) for o in np.asarray(objs).reshape(-1)]
                rows = [tuple(r) for r in x.tolist()]
                pos = [None] * len(cand)
                for j in set(objs):
                    ks = [k for k in range(len(cand)) if objs[k] == j]
                    for k, p in zip(ks, c07._positions(rows, [tuple(cand[k].tolist()) for k in ks])):
                        pos[k] = p
                if None in pos or any(o < 0 or o >= m for o in objs):
                    _viol(ctx, "batch-spec", "MaxVarianceDecoupled batch: a candidate is not a (choice, objective) pair", case)
                else:
                    spec = ctx.ask("specdec", core.qmat(table), str(min(q, len(order) * m)), core.nats(pos),
                                   core.nats(objs), core.qvec([table[o][p] for p, o in zip(pos, objs)]))
                    if spec != "ok":
                        _viol(ctx, "not-maximiser-of-definition", "the batch chosen with the real "
                              "MaxVarianceDecoupledAcquisition is not the (design, objective) pairs of largest "
                              "cov_jj / cost_j in non-increasing order", case,
                              detail={"order": order, "picked": [[order[p], o] for p, o in zip(pos, objs)]})
            nontrivial = offdiag > 0 and q < len(order) * m
    except Exception as e:
        _viol(ctx, "acq-crash:" + core.exc_key(e), f"acquisition stream raised {type(e).__name__}: {e}", case)
        nontrivial = False
    ctx.case_done(case, bool(nontrivial), canon=case)


def _run_covrun(ctx, case):
    from harness import stubs
    from harness.cones import EXACT_CONES
    from harness.props import c07

    spec = case["model"]
    ctx.count("cov_run_" + spec.get("family", spec["kind"]))
    real_build, real_dump = c07._build, c07._dump

    def build(case):
        if spec["kind"] == "plain":
            c2 = dict(case)
            if case.get("costs") is not None:
                c2["costs"] = _mk_costs(case)
                ctx.count("cov_run_cost_kind_" + case.get("cost_kind", "float_array"))
            return real_build(c2)
        if spec["kind"] == "scripted":
            X, Y = np.array(case["X"], dtype=float), np.array(case["Y"], dtype=float)
            tables = [(Y, np.stack([_cov(L) for L in stage])) for stage in spec["L"]]
            model = stubs.ScriptedModel(X, tables[0][0], tables[0][1], script=tables[1:])
            return stubs.build(case["alg"], in_data=X, out_data=Y, W=EXACT_CONES[case["cone"]][0], model=model,
                               epsilon=case["eps"], noise_var=case["noise_var"], batch_size=case["batch"],
                               conf_contraction=case["contraction"])
        import torch

        alg = real_build(case)
        with torch.no_grad():  # strongly non-diagonal task covariance B = F Fᵀ + diag(1e-4)
            k = alg.model.model.covar_module
            t = k.task_covar_module
            F = torch.tensor(spec["factor"], dtype=t.covar_factor.dtype).reshape(t.covar_factor.shape)
            t.covar_factor.copy_(F)
            t.var = torch.full_like(t.var, 1e-4)
            k.data_covar_module.lengthscale = torch.full_like(k.data_covar_module.lengthscale, spec["lengthscale"])
        alg.model.update()
        return alg

    def dump(model):
        if hasattr(model, "add_sample_calls"):  # scripted model: what add_sample received, in order
            d, m = model.input_dim, model.output_dim
            Xs = [np.atleast_2d(r["X"])[:, :d] for r in model.add_sample_calls]
            Ys = [np.atleast_2d(r["Y"]) for r in model.add_sample_calls]
            return {"kind": "gp", "X": np.concatenate(Xs) if Xs else np.empty((0, d)),
                    "Y": np.concatenate(Ys) if Ys else np.empty((0, m))}
        return real_dump(model)

    c07._build, c07._dump = build, dump
    try:
        c07.run_alg(ctx, case)
    finally:
        c07._build, c07._dump = real_build, real_dump


def run_cov(ctx, case):
    if case["kind"] == "acq":
        _run_acq(ctx, case)
    elif case["kind"] == "covrun":
        _run_covrun(ctx, case)
    else:
        raise ValueError(f"unknown case kind {case['kind']!r}")
