"""C13 — Pareto-set extraction is exact for every finite set and cone.

Real `PolyhedralConeOrder.get_pareto_set` / `get_pareto_set_naive` from /repo against the Lean
model `Pareto.fast` / `Pareto.naive` and the decidable specification relations `specOk` /
`naiveSpecOk` (all in exact rational arithmetic on the exported floats)."""
import itertools

import numpy as np

from harness import core
from harness.cones import EXACT_CONES, real_order

TITLE = "Pareto-set extraction vs Lean model"
RULE = ("cases: (cone with integer rows, list of dyadic-lattice vectors); shapes: exhaustive small "
        "lattices (thorough), random with duplicates, chains, antichains, facet ties; cone matrix stored as float, "
        "int64, int32 or nested int list (integer dtypes with quarter-lattice fractional data); 'ulp' family (differences "
        "2^-40…2^-50 around ties; integer-row cones scaled by 2^±40); bundled float cones (the order SUBCLASSES ComponentwiseOrder 2…4 — exhaustive small "
        "lattices —, ConeOrder3D, ConeTheta2DOrder incl. 0.2° and 179.8°, ice-cream incl. 720/1000 facets) on {0..3}^m lattices incl. all pairs of {0..3}^3 — compared only where the float path is "
        "proved to take the exact decisions (all summation orders / FMA replayed in Fractions); m = 1 cones (also K > m and the cone {0}), cones with anti-parallel rows / empty interior / lineality, exact thin and "
        "wide 2-D cones (rows < 0.2° from (anti-)parallel); non-trivial = at "
        "least one point is eliminated and at least two kept values or a duplicate value present; "
        "distinct by (cone, vectors)")
ASSUMPTIONS = ["inputs are dyadic-lattice vectors and integer cone rows so the float path is exact",
               "float cone rows / sub-ulp data: a case is compared only if a - b is exact and every facet test "
               "fl((a-b)·w_n) >= 0 is determined (robust margin, or every evaluation order with and without FMA gives "
               "the exact decision); otherwise it is counted as float_path_inexact_skipped_info"]


# Further exact (integer-row) cones, local to C13: one-dimensional objective spaces (m = 1, also K > m and the
# cone {0}), cones with anti-parallel rows (equality constraints: empty interior, rays, lines, half-spaces) and
# very thin / very wide 2-D cones whose rows are < 0.2° from anti-parallel resp. parallel.  name: (rows, pointed?)
EXTRA_CONES = {
    "max1": ([[1]], True),
    "max1x3": ([[3]], True),
    "min1": ([[-1]], True),
    "min1-two-rows": ([[-2], [-1]], True),
    "zero1": ([[1], [-1]], True),
    "max1-two-rows": ([[1], [2]], True),
    "ray2-diag": ([[1, -1], [-1, 1], [1, 1]], True),
    "ray2-y": ([[1, 0], [-1, 0], [0, 1]], True),
    "halfplane2-x": ([[1, 0]], False),
    "line2-diag": ([[1, -1], [-1, 1]], False),
    "line2-y": ([[1, 0], [-1, 0]], False),
    "halfplane-in-plane3": ([[1, 1, 0], [-1, -1, 0], [0, 0, 1]], False),
    "line3-z": ([[1, 0, 0], [-1, 0, 0], [0, 1, 0], [0, -1, 0]], False),
    "ray3-z": ([[1, 0, 0], [-1, 0, 0], [0, 1, 0], [0, -1, 0], [0, 0, 1]], True),
    "thin2-y": ([[1000, 1], [-1000, 1]], True),
    "thin2-x": ([[1, 1000], [1, -1000]], True),
    "wide2": ([[1000, 1], [1000, 2]], True),
    "skew2-big": ([[-1, 1000], [1000, -999]], True),
}
M1_CONES = ["max1", "max1x3", "min1", "min1-two-rows", "zero1", "max1-two-rows"]
DEGENERATE_2D = ["ray2-diag", "ray2-y", "halfplane2-x", "line2-diag", "line2-y"]
DEGENERATE_3D = ["halfplane-in-plane3", "line3-z", "ray3-z"]
THIN_WIDE_2D = ["thin2-y", "thin2-x", "wide2", "skew2-big"]


def _cone(name):
    return EXACT_CONES[name] if name in EXACT_CONES else EXTRA_CONES[name]


_int_cache = {}


def _order_for(W, wtype):
    """The real order object for cone rows `W` (integers) stored with the requested dtype: `float`
    goes through `harness.cones.real_order`; `int64` / `int32` build `OrderingCone` from an integer
    ndarray and `list` from a nested list of Python ints (what the class docstring does:
    `OrderingCone(np.array([[1, 0], [0, 1]]))`) — the cone is the same, so is the specification."""
    if wtype == "float":
        return real_order(W)
    from vopy.order import PolyhedralConeOrder
    from vopy.ordering_cone import OrderingCone

    key = (tuple(tuple(int(x) for x in r) for r in W), wtype)
    if key not in _int_cache:
        rows = [[int(x) for x in r] for r in W]
        if wtype == "int64":
            arg = np.array(rows, dtype=np.int64)
        elif wtype == "int32":
            arg = np.array(rows, dtype=np.int32)
        elif wtype == "list":
            arg = rows
        else:
            raise ValueError(wtype)
        _int_cache[key] = PolyhedralConeOrder(OrderingCone(arg))
    return _int_cache[key]


# ----------------------------------------------------------------------------- float-path exactness
from fractions import Fraction  # noqa: E402

_EPS = Fraction(1, 2 ** 53)
_row_cache = {}


def _fl(fr):
    """correctly rounded double of an exact rational, as a Fraction"""
    return Fraction(float(fr))


def _row_decision_determined(d, w, wkey, n):
    """Is the code's test `fl((a-b)·w_n) >= 0` guaranteed to equal the exact test `(a-b)·w_n >= 0`,
    whatever order / FMA usage the matrix product uses?  `d`, `w` exact Fractions of the floats.
    Robust case: |exact| exceeds the worst-case rounding error.  Otherwise (ties and near-ties) every
    evaluation strategy (all summation orders of the non-zero products, with separately rounded
    products and with fused multiply-add, plus pairwise trees) is replayed exactly in Fractions and
    all of them must give the exact decision."""
    key = (wkey, n, tuple(d))
    r = _row_cache.get(key)
    if r is not None:
        return r
    prods = [x * y for x, y in zip(d, w) if x != 0 and y != 0]
    exact = sum(prods, Fraction(0))
    want = exact >= 0
    bound = (len(prods) + 2) * _EPS * sum((abs(t) for t in prods), Fraction(0))
    if abs(exact) > bound or not prods:
        ok = True
    else:
        ok = True
        rp = [_fl(t) for t in prods]
        idxs = range(len(prods))
        for perm in itertools.permutations(idxs):
            acc = rp[perm[0]]
            accf = rp[perm[0]]
            for k in perm[1:]:
                acc = _fl(acc + rp[k])        # products rounded separately
                accf = _fl(accf + prods[k])   # fused multiply-add
            if (acc >= 0) != want or (accf >= 0) != want:
                ok = False
                break
            if len(perm) == 4:
                t = _fl(_fl(rp[perm[0]] + rp[perm[1]]) + _fl(rp[perm[2]] + rp[perm[3]]))
                if (t >= 0) != want:
                    ok = False
                    break
    if len(_row_cache) < 400000:
        _row_cache[key] = ok
    return ok


def _float_path_exact(Wf, Wq, X):
    """True iff for every ordered pair (a, b) of rows of X the float difference a-b is exact and every
    facet test of `is_inside(a-b)` is determined (see `_row_decision_determined`)."""
    wkey = tuple(tuple(r) for r in Wf)
    Xq = [[Fraction(float(t)) for t in x] for x in X]
    for i, a in enumerate(X):
        for j, b in enumerate(X):
            if i == j:
                continue
            df = [float(x) - float(y) for x, y in zip(a, b)]
            dq = [x - y for x, y in zip(Xq[i], Xq[j])]
            if any(Fraction(t) != u for t, u in zip(df, dq)):
                return False
            for n, w in enumerate(Wq):
                if not _row_decision_determined(dq, w, wkey, n):
                    return False
    return True


_bundled_cache = {}


def _bundled_order(spec):
    """real bundled order objects — the SUBCLASSES themselves, so that a method overridden in one of them is
    exercised — cached: ["comp", m] | ["cone3d", kind] | ["theta", deg] | ["ice", deg, K]"""
    key = tuple(spec)
    if key not in _bundled_cache:
        from vopy.order import ComponentwiseOrder, ConeOrder3D, ConeOrder3DIceCream, ConeTheta2DOrder

        if spec[0] == "comp":
            o = ComponentwiseOrder(spec[1])
        elif spec[0] == "cone3d":
            o = ConeOrder3D(spec[1])
        elif spec[0] == "theta":
            o = ConeTheta2DOrder(spec[1])
        elif spec[0] == "ice" and spec[2] > 64:
            # hundreds of facets: α (one SOCP per facet, irrelevant for the Pareto routines) would take minutes;
            # stub `get_alpha_vec` in the cone module's namespace for the duration of the constructor only
            import vopy.ordering_cone as oc

            saved = oc.get_alpha_vec
            oc.get_alpha_vec = lambda W: np.zeros((W.shape[0], 1))
            try:
                o = ConeOrder3DIceCream(spec[1], spec[2])
            finally:
                oc.get_alpha_vec = saved
        elif spec[0] == "ice":
            o = ConeOrder3DIceCream(spec[1], spec[2])
        else:
            raise ValueError(spec)
        _bundled_cache[key] = o
    return _bundled_cache[key]


_w_cache = {}


def _order_from_rows(Wf):
    from vopy.order import PolyhedralConeOrder
    from vopy.ordering_cone import OrderingCone

    key = tuple(tuple(r) for r in Wf)
    if key not in _w_cache:
        _w_cache[key] = PolyhedralConeOrder(OrderingCone(np.array(Wf, dtype=float)))
    return _w_cache[key]


BUNDLED_2D = [["theta", 45], ["theta", 60], ["theta", 90], ["theta", 120], ["theta", 135]]
BUNDLED_3D = [["cone3d", "acute"], ["cone3d", "obtuse"], ["ice", 45.0, 4], ["ice", 30.0, 6], ["ice", 60.0, 8]]


def _gen_ulp(rng):
    """tiny exactly-representable differences 2^-40 … 2^-50 around ties, and integer-row cones scaled by
    2^-40 / 2^40 (exact in binary; the relation is unchanged)"""
    cname = rng.choice(["orthant2", "orthant2", "orthant3", "acute2", "obtuse2", "threefacet2", "redundant2", "pyramid3"])
    W, pointed = EXACT_CONES[cname]
    m = len(W[0])
    sc = rng.choice([1.0, 1.0, 2.0 ** -40, 2.0 ** -40, 2.0 ** 40])
    Wf = [[float(t) * sc for t in r] for r in W]
    n = rng.randint(2, 6)
    sub = rng.choice(["tie-perturbed", "tie-perturbed", "integers", "mixed"])
    if sc != 1.0 and rng.random() < 0.6:
        sub = "integers"
    if sub == "integers":
        X = [[float(rng.randint(0, 3)) for _ in range(m)] for _ in range(n)]
    else:
        base = [float(rng.randint(-2, 2)) for _ in range(m)]
        X = []
        for _ in range(n):
            dlt = 2.0 ** -rng.randint(40, 50)
            X.append([b + rng.choice([-1, 0, 0, 1]) * dlt for b in base])
        if sub == "mixed":
            X[rng.randrange(n)] = [b + rng.choice([-1, 0, 1]) for b in base]
    return {"kind": "wsets", "W": Wf, "pointed": pointed, "X": X, "shape": "ulp-" + sub, "eqv_is_equality": sub == "integers",
            "cone": cname + ("" if sc == 1.0 else ("*2^-40" if sc < 1 else "*2^40"))}


def gen_round3(ctx):
    rng = ctx.rng
    k = 0
    # ---- (a) ulp family
    for _ in range(ctx.n(250, 12000)):
        yield _gen_ulp(rng)
    # ---- (b) bundled float cones on small integer lattices
    pts3 = [list(map(float, p)) for p in itertools.product(range(4), repeat=3)]
    # all unordered pairs of {0..3}^3 for the acute 3-D cone (its float matrix is exactly s·Z, Z integer, so facet
    # ties occur and the float path is still determined); thorough: also obtuse and the ice-cream cones
    specs = [["cone3d", "acute"]] if ctx.tier == "quick" else BUNDLED_3D
    for spec in specs:
        for i in range(len(pts3)):
            for j in range(i + 1, len(pts3)):
                k += 1
                if k % ctx.nworkers != ctx.worker:
                    continue
                yield {"kind": "bundled", "order": spec, "X": [pts3[i], pts3[j]], "shape": "lattice-pair"}
    # ComponentwiseOrder(m) itself, exhaustively on small tie-heavy lattices (duplicates, equal coordinates)
    lat = {2: [list(map(float, p)) for p in itertools.product(range(3), repeat=2)],
           3: [list(map(float, p)) for p in itertools.product(range(2), repeat=3)],
           4: [list(map(float, p)) for p in itertools.product(range(2), repeat=4)]}
    for m, sizes in [(2, [1, 2, 3]), (3, [2, 3]), (4, [2])]:
        if ctx.tier == "thorough":
            sizes = sizes + [sizes[-1] + 1]
        for n in sizes:
            for combo in itertools.combinations_with_replacement(range(len(lat[m])), n):
                k += 1
                if k % ctx.nworkers != ctx.worker:
                    continue
                X = [lat[m][i] for i in combo]
                if k % 2:
                    X = X[::-1]
                yield {"kind": "bundled", "order": ["comp", m], "X": X, "shape": "comp-exhaustive"}
    for _ in range(ctx.n(300, 30000)):
        spec = rng.choice(BUNDLED_3D + BUNDLED_2D + [["comp", 2], ["comp", 3], ["comp", 4]])
        m = spec[1] if spec[0] == "comp" else (2 if spec[0] == "theta" else 3)
        n = rng.choice([3, 3, 3, 4, 5, 6])
        X = [[float(rng.randint(0, 3)) for _ in range(m)] for _ in range(n)]
        yield {"kind": "bundled", "order": spec, "X": X, "shape": "lattice-triple" if n == 3 else "lattice-set"}


def _perp_lattice(rng, W, n):
    """points a·r1 + b·r2 + noise for a 2-D cone with rows w1, w2 (r1 ⟂ w2, r2 ⟂ w1: the extreme rays up to sign):
    differences land inside, outside, on the facets and in the thin wedges next to them"""
    (a1, b1), (a2, b2) = W[0], W[1]
    r1, r2 = [-b2, a2], [-b1, a1]
    if a1 * r1[0] + b1 * r1[1] < 0:
        r1 = [-t for t in r1]
    if a2 * r2[0] + b2 * r2[1] < 0:
        r2 = [-t for t in r2]
    X = []
    for _ in range(n):
        a, b = rng.randint(-1, 2), rng.randint(-1, 2)
        nz = [rng.choice([-1, 0, 0, 1]), rng.choice([-1, 0, 0, 1])]
        if rng.random() < 0.3:
            nz = [t * rng.choice([1, 100, 499, 500, 501]) for t in nz]
        X.append([float(a * r1[j] + b * r2[j] + nz[j]) for j in range(2)])
    return X


def gen_round5(ctx):
    rng = ctx.rng
    k = 0

    def mine():
        nonlocal k
        k += 1
        return k % ctx.nworkers == ctx.worker

    # ---- m = 1 (single objective): every sequence of length ≤ 3 and every multiset of size 4 over {0, 1, 2, 5/2}
    vals = [0.0, 1.0, 2.0, 2.5]
    for cname in M1_CONES:
        for n in (1, 2, 3):
            for seq in itertools.product(vals, repeat=n):
                if mine():
                    yield {"kind": "sets", "cone": cname, "X": [[v] for v in seq], "shape": "m1-exhaustive"}
        for combo in itertools.combinations_with_replacement(vals, 4):
            if mine():
                X = [[v] for v in combo]
                rng.shuffle(X)
                yield {"kind": "sets", "cone": cname, "X": X, "shape": "m1-exhaustive"}
    # ---- anti-parallel rows / empty interior / lineality, exhaustive small lattices
    pts2 = [list(map(float, p)) for p in itertools.product(range(3), repeat=2)]
    pts3 = [list(map(float, p)) for p in itertools.product(range(2), repeat=3)]
    for cname in DEGENERATE_2D:
        sizes = (2, 3, 4) if ctx.tier == "thorough" else ((2, 3) if cname in ("ray2-diag", "line2-y") else (2,))
        for n in sizes:
            for combo in itertools.combinations_with_replacement(range(len(pts2)), n):
                if mine():
                    X = [pts2[i] for i in combo]
                    if k % 2:
                        X = X[::-1]
                    yield {"kind": "sets", "cone": cname, "X": X, "shape": "degenerate-exhaustive"}
    for cname in DEGENERATE_3D:
        for n in (2, 3):
            for combo in itertools.combinations_with_replacement(range(len(pts3)), n):
                if mine():
                    X = [pts3[i] for i in combo]
                    if k % 2:
                        X = X[::-1]
                    yield {"kind": "sets", "cone": cname, "X": X, "shape": "degenerate-exhaustive"}
    for _ in range(ctx.n(150, 8000)):
        cname = rng.choice(M1_CONES + DEGENERATE_2D + DEGENERATE_3D)
        m = len(_cone(cname)[0][0])
        n = rng.randint(2, 9)
        X = [[core.dyadic(rng, -6, 6, 1) for _ in range(m)] for _ in range(n)]
        yield {"kind": "sets", "cone": cname, "X": X, "shape": "degenerate-random"}
    # ---- very thin / very wide exact 2-D cones (rows < 0.2° from anti-parallel / parallel)
    for _ in range(ctx.n(200, 10000)):
        cname = rng.choice(THIN_WIDE_2D)
        yield {"kind": "sets", "cone": cname, "X": _perp_lattice(rng, _cone(cname)[0], rng.randint(2, 7)),
               "shape": "thin-wide"}
    # ---- the real ConeTheta2DOrder(0.2) / (179.8): points away from the facets (the float-path gate decides)
    for _ in range(ctx.n(80, 4000)):
        n = rng.randint(2, 5)
        if rng.random() < 0.5:
            X = []
            for _ in range(n):
                a, sc, b = rng.randint(0, 3), rng.choice([1, 512, 1024]), rng.choice([-1, 0, 1])
                X.append([float(a * sc - b), float(a * sc + b)])
            yield {"kind": "bundled", "order": ["theta", 0.2], "X": X, "shape": "theta-thin"}
        else:
            X = []
            for _ in range(n):
                a, c = rng.randint(-2, 2), rng.randint(0, 6)
                X.append([-a + c / 1024.0, a + c / 1024.0])
            yield {"kind": "bundled", "order": ["theta", 179.8], "X": X, "shape": "theta-wide"}
    # ---- ice-cream cones with very many facets (adjacent normals < 0.2° apart)
    for _ in range(ctx.n(8, 300)):
        spec = rng.choice([["ice", 60.0, 1000], ["ice", 75.0, 720]])
        X = [[float(rng.randint(0, 3)) for _ in range(3)] for _ in range(rng.randint(2, 4))]
        yield {"kind": "bundled", "order": spec, "X": X, "shape": "ice-many-facets"}


def gen(ctx):
    rng = ctx.rng
    cones = list(EXACT_CONES)
    yield from gen_round5(ctx)
    yield from gen_round3(ctx)
    # integer-dtype cone matrices with fractional (quarter-lattice) data: a - b must not be truncated
    for _ in range(ctx.n(150, 9000)):
        cname = rng.choice(cones)
        W, _p = EXACT_CONES[cname]
        m = len(W[0])
        shape = rng.choice(["random", "dups", "close", "facet"])
        n = rng.randint(2, 10)
        if shape == "close":
            # differences smaller than 1 in every coordinate
            base = [core.dyadic(rng, -8, 8, 2) for _ in range(m)]
            X = [[b + core.dyadic(rng, -3, 3, 2) for b in base] for _ in range(n)]
        else:
            X = [[core.dyadic(rng, -12, 12, 2) for _ in range(m)] for _ in range(n)]
            if shape == "dups":
                for _ in range(rng.randint(1, n)):
                    X[rng.randrange(n)] = list(X[rng.randrange(n)])
            elif shape == "facet" and m == 2:
                w = W[rng.randrange(len(W))]
                X = [[X[0][0] - i * w[1] / 4.0, X[0][1] + i * w[0] / 4.0] for i in range(-2, n - 2)]
                rng.shuffle(X)
        yield {"kind": "sets", "cone": cname, "X": X, "shape": "int-" + shape,
               "wtype": rng.choice(["int64", "int64", "int32", "list"])}
    # exhaustive small lattices (thorough only, worker-sharded)
    if ctx.tier == "thorough":
        k = 0
        for cname in ["orthant2", "acute2", "obtuse2", "threefacet2"]:
            pts = [[a, b] for a in range(3) for b in range(3)]
            for n in range(1, 5):
                for combo in itertools.combinations_with_replacement(range(len(pts)), n):
                    k += 1
                    if k % ctx.nworkers != ctx.worker:
                        continue
                    yield {"kind": "sets", "cone": cname, "X": [pts[i] for i in combo], "shape": "exhaustive"}
        for cname in ["orthant3", "acute3"]:
            pts = [[a, b, c] for a in range(2) for b in range(2) for c in range(2)]
            for n in range(1, 5):
                for combo in itertools.product(range(len(pts)), repeat=n):
                    k += 1
                    if k % ctx.nworkers != ctx.worker:
                        continue
                    yield {"kind": "sets", "cone": cname, "X": [pts[i] for i in combo], "shape": "exhaustive"}
    for _ in range(ctx.n(400, 40000)):
        cname = rng.choice(cones)
        W, _ = EXACT_CONES[cname]
        m = len(W[0])
        shape = rng.choice(["random", "dups", "chain", "antichain", "facet", "big", "single"])
        p = rng.choice([0, 1, 3])
        if shape == "single":
            X = [[core.dyadic(rng, -4, 4, p) for _ in range(m)]]
        elif shape == "big":
            n = rng.randint(50, 300 if ctx.tier == "thorough" else 120)
            X = [[core.dyadic(rng, -8, 8, p) for _ in range(m)] for _ in range(n)]
        else:
            n = rng.randint(2, 12)
            X = [[core.dyadic(rng, -4, 4, p) for _ in range(m)] for _ in range(n)]
            if shape == "dups":
                for _ in range(rng.randint(1, n)):
                    X[rng.randrange(n)] = list(X[rng.randrange(n)])
            elif shape == "chain":
                base = X[0]
                d = [abs(t) for t in X[1]]
                X = [[b + i * dd for b, dd in zip(base, d)] for i in range(n)]
                rng.shuffle(X)
            elif shape == "antichain" and m == 2:
                X = [[float(i), float(n - i)] for i in range(n)]
                rng.shuffle(X)
            elif shape == "facet":
                # points differing along a facet direction: ties on one facet functional
                w = W[rng.randrange(len(W))]
                if m == 2:
                    t = [-w[1], w[0]]
                    X = [[X[0][0] + i * t[0], X[0][1] + i * t[1]] for i in range(-2, n - 2)]
                    rng.shuffle(X)
        yield {"kind": "sets", "cone": cname, "X": X, "shape": shape}


def run_case(ctx, case):
    X = np.array(case["X"], dtype=float)
    wtype = case.get("wtype", "float")
    kind = case.get("kind", "sets")
    eqv_is_equality = True
    try:
        if kind == "sets":
            W, pointed = _cone(case["cone"])
            order = _order_for(W, wtype)
            cname = case["cone"]
        elif kind == "wsets":
            W, pointed = case["W"], bool(case["pointed"])
            order = _order_from_rows(W)
            cname = case.get("cone", "explicit")
            eqv_is_equality = bool(case.get("eqv_is_equality", False))
        elif kind == "bundled":
            order = _bundled_order(case["order"])
            W, pointed = [[float(t) for t in r] for r in order.ordering_cone.W], True
            cname = "-".join(str(t) for t in case["order"])
        else:
            raise ValueError(kind)
    except Exception as e:
        ctx.violation("cone-construction-crash:" + core.exc_key(e),
                      f"cone construction ({kind}, {wtype}) raised {type(e).__name__}: {e}", case)
        return
    if kind != "sets":
        # float cone rows / sub-ulp data: the model decides on the EXACT rational value of the exported floats;
        # compare only where the code's float path provably takes the same decisions
        Wq = [[Fraction(float(t)) for t in r] for r in W]
        if not _float_path_exact(W, Wq, case["X"]):
            ctx.count("float_path_inexact_skipped_info")
            ctx.count("cone_" + cname)
            ctx.case_done(case, False, canon=[cname, case["X"]])
            return
        ctx.count("float_path_exact")
    ws, xs = core.qmat(W), core.qmat(X)
    ctx.count("wtype_" + wtype)
    ctx.count("shape_" + case["shape"])
    ctx.count("cone_" + cname)
    # ---- fast routine
    try:
        held = order.get_pareto_set(X.copy())      # kept by the caller and read again after later calls (below)
        idx = [int(i) for i in held]
    except Exception as e:  # the property says every finite set has a Pareto set
        ctx.violation("fast-crash:" + core.exc_key(e), f"get_pareto_set raised {type(e).__name__}", case)
        return
    if ctx.lean.ask(f"C13 spec {ws} {xs} {core.nats(idx)}") != "ok":
        ctx.violation("fast-spec", "get_pareto_set output violates the Pareto specification "
                      "(valid/increasing indices, antichain, covering, no kept element strictly dominated)",
                      case, detail={"impl": idx})
    model = core.parse_nats(ctx.lean.ask(f"C13 fast {ws} {xs}"))
    if model != idx:
        vals_i = sorted(tuple(case["X"][i]) for i in idx)
        vals_m = sorted(tuple(case["X"][i]) for i in model)
        if pointed and vals_i != vals_m:
            # for a pointed cone the set of kept values is determined by the property
            ctx.violation("fast-values", "kept values differ from the model's Pareto values", case, kind="F",
                          detail={"impl": idx, "model": model})
        else:
            ctx.count("fast_index_choice_differs_info")
    # ---- naive routine
    try:
        nidx = [int(i) for i in order.get_pareto_set_naive(X.copy())]
    except Exception as e:
        ctx.violation("naive-crash:" + core.exc_key(e), f"get_pareto_set_naive raised {type(e).__name__}", case)
        return
    if ctx.lean.ask(f"C13 nspec {ws} {xs} {core.nats(nidx)}") != "ok":
        ctx.violation("naive-spec", "get_pareto_set_naive: kept set is not {i | no different-valued element dominates i}",
                      case, detail={"impl": nidx})
    if pointed and eqv_is_equality and set(case["X"][i].__repr__() for i in nidx) != set(case["X"][i].__repr__() for i in idx):
        # pointed cone: naive keeps all copies of exactly the values fast keeps
        ctx.violation("naive-vs-fast", "naive and fast routines keep different value sets", case,
                      detail={"fast": idx, "naive": nidx})
    # ---- an answer the caller still holds must not change when the same order is asked something else afterwards
    try:
        order.get_pareto_set(X[::-1].copy())
        order.get_pareto_set(X[:1].copy())
        late = [int(i) for i in held]
    except Exception:
        late = idx
    if late != idx:
        ctx.violation("result-changes-after-later-call", "the index array returned by get_pareto_set, kept by the caller, "
                      "no longer holds the Pareto indices it held when returned (later calls on the same order "
                      "overwrote it)", case, detail={"returned": idx, "read_late": late})
    n = len(case["X"])
    nontrivial = len(idx) < n and (len(idx) >= 2 or len(nidx) > len(idx))
    ctx.count("kept_%s" % ("all" if len(idx) == n else "some"))
    ctx.case_done(case, nontrivial, canon=[cname, case["X"]])
