"""C13 — Pareto-set extraction is exact for every finite set and cone.

Real `PolyhedralConeOrder.get_pareto_set` / `get_pareto_set_naive` from /repo against the Lean
model `Pareto.fast` / `Pareto.naive` and the decidable specification relations `specOk` /
`naiveSpecOk` (all in exact rational arithmetic on the exported floats)."""
import itertools

import numpy as np

from harness import core
from harness.cones import EXACT_CONES, real_order

TITLE = "Pareto-set extraction vs Lean model"
RULE = ("cases: (cone with integer rows, list of dyadic-lattice vectors); shapes: exhaustive small "
        "lattices (thorough), random with duplicates, chains, antichains, facet ties; cone matrix stored as float, "
        "int64, int32 or nested int list (integer dtypes with quarter-lattice fractional data); non-trivial = at "
        "least one point is eliminated and at least two kept values or a duplicate value present; "
        "distinct by (cone, vectors)")
ASSUMPTIONS = ["inputs are dyadic-lattice vectors and integer cone rows so the float path is exact"]


_int_cache = {}


def _order_for(W, wtype):
    """The real order object for cone rows `W` (integers) stored with the requested dtype: `float`
    goes through `harness.cones.real_order`; `int64` / `int32` build `OrderingCone` from an integer
    ndarray and `list` from a nested list of Python ints (what the class docstring does:
    `OrderingCone(np.array([[1, 0], [0, 1]]))`) — the cone is the same, so is the specification."""
    if wtype == "float":
        return real_order(W)
    from vopy.order import PolyhedralConeOrder
    from vopy.ordering_cone import OrderingCone

    key = (tuple(tuple(int(x) for x in r) for r in W), wtype)
    if key not in _int_cache:
        rows = [[int(x) for x in r] for r in W]
        if wtype == "int64":
            arg = np.array(rows, dtype=np.int64)
        elif wtype == "int32":
            arg = np.array(rows, dtype=np.int32)
        elif wtype == "list":
            arg = rows
        else:
            raise ValueError(wtype)
        _int_cache[key] = PolyhedralConeOrder(OrderingCone(arg))
    return _int_cache[key]


def gen(ctx):
    rng = ctx.rng
    cones = list(EXACT_CONES)
    # integer-dtype cone matrices with fractional (quarter-lattice) data: a - b must not be truncated
    for _ in range(ctx.n(150, 9000)):
        cname = rng.choice(cones)
        W, _p = EXACT_CONES[cname]
        m = len(W[0])
        shape = rng.choice(["random", "dups", "close", "facet"])
        n = rng.randint(2, 10)
        if shape == "close":
            # differences smaller than 1 in every coordinate
            base = [core.dyadic(rng, -8, 8, 2) for _ in range(m)]
            X = [[b + core.dyadic(rng, -3, 3, 2) for b in base] for _ in range(n)]
        else:
            X = [[core.dyadic(rng, -12, 12, 2) for _ in range(m)] for _ in range(n)]
            if shape == "dups":
                for _ in range(rng.randint(1, n)):
                    X[rng.randrange(n)] = list(X[rng.randrange(n)])
            elif shape == "facet" and m == 2:
                w = W[rng.randrange(len(W))]
                X = [[X[0][0] - i * w[1] / 4.0, X[0][1] + i * w[0] / 4.0] for i in range(-2, n - 2)]
                rng.shuffle(X)
        yield {"kind": "sets", "cone": cname, "X": X, "shape": "int-" + shape,
               "wtype": rng.choice(["int64", "int64", "int32", "list"])}
    # exhaustive small lattices (thorough only, worker-sharded)
    if ctx.tier == "thorough":
        k = 0
        for cname in ["orthant2", "acute2", "obtuse2", "threefacet2"]:
            pts = [[a, b] for a in range(3) for b in range(3)]
            for n in range(1, 5):
                for combo in itertools.combinations_with_replacement(range(len(pts)), n):
                    k += 1
                    if k % ctx.nworkers != ctx.worker:
                        continue
                    yield {"kind": "sets", "cone": cname, "X": [pts[i] for i in combo], "shape": "exhaustive"}
        for cname in ["orthant3", "acute3"]:
            pts = [[a, b, c] for a in range(2) for b in range(2) for c in range(2)]
            for n in range(1, 5):
                for combo in itertools.product(range(len(pts)), repeat=n):
                    k += 1
                    if k % ctx.nworkers != ctx.worker:
                        continue
                    yield {"kind": "sets", "cone": cname, "X": [pts[i] for i in combo], "shape": "exhaustive"}
    for _ in range(ctx.n(400, 40000)):
        cname = rng.choice(cones)
        W, _ = EXACT_CONES[cname]
        m = len(W[0])
        shape = rng.choice(["random", "dups", "chain", "antichain", "facet", "big", "single"])
        p = rng.choice([0, 1, 3])
        if shape == "single":
            X = [[core.dyadic(rng, -4, 4, p) for _ in range(m)]]
        elif shape == "big":
            n = rng.randint(50, 300 if ctx.tier == "thorough" else 120)
            X = [[core.dyadic(rng, -8, 8, p) for _ in range(m)] for _ in range(n)]
        else:
            n = rng.randint(2, 12)
            X = [[core.dyadic(rng, -4, 4, p) for _ in range(m)] for _ in range(n)]
            if shape == "dups":
                for _ in range(rng.randint(1, n)):
                    X[rng.randrange(n)] = list(X[rng.randrange(n)])
            elif shape == "chain":
                base = X[0]
                d = [abs(t) for t in X[1]]
                X = [[b + i * dd for b, dd in zip(base, d)] for i in range(n)]
                rng.shuffle(X)
            elif shape == "antichain" and m == 2:
                X = [[float(i), float(n - i)] for i in range(n)]
                rng.shuffle(X)
            elif shape == "facet":
                # points differing along a facet direction: ties on one facet functional
                w = W[rng.randrange(len(W))]
                if m == 2:
                    t = [-w[1], w[0]]
                    X = [[X[0][0] + i * t[0], X[0][1] + i * t[1]] for i in range(-2, n - 2)]
                    rng.shuffle(X)
        yield {"kind": "sets", "cone": cname, "X": X, "shape": shape}


def run_case(ctx, case):
    W, pointed = EXACT_CONES[case["cone"]]
    X = np.array(case["X"], dtype=float)
    wtype = case.get("wtype", "float")
    try:
        order = _order_for(W, wtype)
    except Exception as e:
        ctx.violation("cone-construction-crash:" + core.exc_key(e),
                      f"OrderingCone from a {wtype} matrix raised {type(e).__name__}: {e}", case)
        return
    ws, xs = core.qmat(W), core.qmat(X)
    ctx.count("wtype_" + wtype)
    ctx.count("shape_" + case["shape"])
    ctx.count("cone_" + case["cone"])
    # ---- fast routine
    try:
        idx = [int(i) for i in order.get_pareto_set(X.copy())]
    except Exception as e:  # the property says every finite set has a Pareto set
        ctx.violation("fast-crash:" + core.exc_key(e), f"get_pareto_set raised {type(e).__name__}", case)
        return
    if ctx.lean.ask(f"C13 spec {ws} {xs} {core.nats(idx)}") != "ok":
        ctx.violation("fast-spec", "get_pareto_set output violates the Pareto specification "
                      "(valid/increasing indices, antichain, covering, no kept element strictly dominated)",
                      case, detail={"impl": idx})
    model = core.parse_nats(ctx.lean.ask(f"C13 fast {ws} {xs}"))
    if model != idx:
        vals_i = sorted(tuple(case["X"][i]) for i in idx)
        vals_m = sorted(tuple(case["X"][i]) for i in model)
        if pointed and vals_i != vals_m:
            # for a pointed cone the set of kept values is determined by the property
            ctx.violation("fast-values", "kept values differ from the model's Pareto values", case, kind="F",
                          detail={"impl": idx, "model": model})
        else:
            ctx.count("fast_index_choice_differs_info")
    # ---- naive routine
    try:
        nidx = [int(i) for i in order.get_pareto_set_naive(X.copy())]
    except Exception as e:
        ctx.violation("naive-crash:" + core.exc_key(e), f"get_pareto_set_naive raised {type(e).__name__}", case)
        return
    if ctx.lean.ask(f"C13 nspec {ws} {xs} {core.nats(nidx)}") != "ok":
        ctx.violation("naive-spec", "get_pareto_set_naive: kept set is not {i | no different-valued element dominates i}",
                      case, detail={"impl": nidx})
    if pointed and set(case["X"][i].__repr__() for i in nidx) != set(case["X"][i].__repr__() for i in idx):
        # pointed cone: naive keeps all copies of exactly the values fast keeps
        ctx.violation("naive-vs-fast", "naive and fast routines keep different value sets", case,
                      detail={"fast": idx, "naive": nidx})
    n = len(case["X"])
    nontrivial = len(idx) < n and (len(idx) >= 2 or len(nidx) > len(idx))
    ctx.count("kept_%s" % ("all" if len(idx) == n else "some"))
    ctx.case_done(case, nontrivial, canon=[case["cone"], case["X"]])
