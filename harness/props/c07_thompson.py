"""C07 part (iii) (extension) — the arithmetic of `ThompsonEntropyDecoupledAcquisition.forward` against
`Model/Thompson.lean` (driver ops `thcombs`, `thmask`, `thsamples`, `thprob`, `thval` of `driver_c07`).

Used by `harness/props/c07.py` through four hooks: `begin`/`end`/`record` around every recorded `forward` call
of the Thompson acquisition (whole-run stream, DecoupledGP), `check_calls` on the recorded calls of one
`evaluating()`, and the direct case kind ``thompson`` (`gen_thompson`, `run_thompson`).  Helpers of c07.py
(`_viol`, `_choices`, `_Forwards`) are imported lazily to avoid an import cycle.
"""
import itertools

import numpy as np

from harness import core


def _base():
    from harness.props import c07

    return c07


def _viol(ctx, key, what, case, kind="R", detail=None):
    return _base()._viol(ctx, key, what, case, kind=kind, detail=detail)

def _bits2f(s):
    import struct

    return float("nan") if s == "nan" else struct.unpack("<d", struct.pack("<Q", int(s)))[0]


def begin(acq):
    """record what `model.sample_from_single_posterior` returns during one `forward` (instance attribute,
    restored by `end`)"""
    model = acq.model
    st = {"samples": {}, "had": "sample_from_single_posterior" in getattr(model, "__dict__", {}),
          "orig": model.sample_from_single_posterior}

    def sampler(x, dim_i, count=1, *a, **k):
        out = st["orig"](x, dim_i, count, *a, **k)
        st["samples"][int(dim_i)] = np.array(out, dtype=float).copy()
        return out

    try:
        model.sample_from_single_posterior = sampler
        st["patched"] = True
    except Exception:
        st["patched"] = False
    return st


def end(acq, st):
    if not st.get("patched"):
        return
    if st["had"]:
        acq.model.sample_from_single_posterior = st["orig"]
    else:
        acq.model.__dict__.pop("sample_from_single_posterior", None)


def record(acq, st):
    m = int(acq.out_dim)
    mask = acq._cache_pareto_mask
    samples = None
    if sorted(st["samples"]) == list(range(m)):
        try:
            samples = np.stack([st["samples"][j] for j in range(m)])
        except Exception:
            samples = None
    j = acq.evaluation_index
    cost = None
    if acq.costs is not None and j is not None and 0 <= j < len(acq.costs):
        cost = float(acq.costs[j])
    return {"n": int(acq.num_thompson_samples), "m": m,
            "mask": None if mask is None else np.array(mask, dtype=bool).copy(),
            "samples": samples, "fresh": bool(st["samples"]), "cost": cost, "has_costs": acq.costs is not None,
            "order": acq.order}


_TH_COMBS = {}


def _th_combs(ctx, n, m):
    """itertools.combinations(range(n), m); the Lean enumeration is compared with it once per (n, m)"""
    key = (n, m)
    if key not in _TH_COMBS:
        combs = [list(c) for c in itertools.combinations(range(n), m)]
        lean = ctx.ask("thcombs", str(n), str(m))
        got = [] if lean == "_" else [core.parse_nats(t) for t in lean.split(";")]
        _TH_COMBS[key] = (combs, got == combs)
    return _TH_COMBS[key]


def _bits(mask):
    return core.bools(np.asarray(mask, dtype=bool).reshape(-1).tolist())


def _th_check_call(ctx, case, name, th, j, K, v, samples_exact=False, W=None):
    """One `forward` call against the model: (a) the cached mask is the tensor the definition prescribes for
    the Thompson samples drawn (entry [comb][i] ⇔ design i is in the Pareto set of the sample picked by comb,
    strictly increasing combs only), (b) the returned values are prior entropy − mean posterior entropy
    (/ cost) of that mask.  Returns the model's value list (floats) or None."""
    n, m, mask = th["n"], th["m"], th["mask"]
    ctx.count("th_calls")
    if mask is None or mask.shape != tuple([n] * m + [K]):
        _viol(ctx, "thompson-mask", f"{name}: the cached Pareto mask does not have shape (n,)*m + (len(x),)", case,
              kind="F", detail={"shape": None if mask is None else list(mask.shape), "n": n, "m": m, "K": K})
        return None
    bits = _bits(mask)
    if th["samples"] is not None and th["samples"].shape == (m, n, K):
        combs, same = _th_combs(ctx, n, m)
        if not same:
            _viol(ctx, "thompson-model-combs", "Lean: Thompson.combinations differs from itertools.combinations",
                  case, kind="F", detail={"n": n, "m": m})
            return None
        ts = th["samples"]
        par = []
        for comb in combs:
            sample = np.stack([ts[jj][comb[jj]] for jj in range(m)]).T
            par.append(sorted(int(i) for i in th["order"].get_pareto_set(sample)))
        ans = ctx.ask("thmask", str(n), str(m), str(K), ";".join(core.nats(p) for p in par) if par else "_")
        ctx.count("th_mask_checked")
        if ans != bits:
            ctx.count("th_mask_mismatch:" + name)
            _viol(ctx, "thompson-mask", f"{name}: the cached Pareto mask is not the tensor the definition prescribes "
                  "for the Thompson samples drawn (entry [comb][i] true iff design i is Pareto-optimal in the sample "
                  "that takes objective k from Thompson sample comb[k]; combs strictly increasing)", case, kind="F",
                  detail={"n": n, "m": m, "K": K, "true_in_code": int(mask.sum()), "true_in_model": ans.count("1")})
            return None
        if samples_exact and W is not None:
            ans2 = ctx.ask("thsamples", core.qmat(W), str(n), str(m), str(K),
                           core.qmats([ts[jj] for jj in range(m)]) if n and K else "_")
            rows_distinct = all(len({tuple(np.stack([ts[jj][comb[jj]] for jj in range(m)]).T[i]) for i in range(K)}) == K
                                for comb in combs)
            if ans2 != bits:
                if rows_distinct:
                    _viol(ctx, "thompson-mask-pareto", f"{name}: the cached Pareto mask differs from the Lean model that "
                          "computes every combination's Pareto set itself (Pareto.fast)", case, kind="F",
                          detail={"true_in_code": int(mask.sum()), "true_in_model": ans2.count("1")})
                    return None
                ctx.count("th_pareto_representative_differs_info")
            else:
                ctx.count("th_mask_from_samples_checked")
    elif th["fresh"]:
        ctx.count("th_samples_not_recorded_info")
    else:
        ctx.count("th_cache_hit")
    if th["has_costs"] and th["cost"] is None:
        return None
    ans = ctx.ask("thval", str(n), str(m), str(K), bits, str(j), "none" if th["cost"] is None else core.q(th["cost"]))
    if ans in ("err", "bad-op"):
        _viol(ctx, "thompson-model-undefined", f"{name}: the model gives no value ({ans}) where forward returned one",
              case, kind="F", detail={"n": n, "m": m, "K": K, "j": j})
        return None
    mv = [_bits2f(t) for t in ans.split(",")] if K else []
    v = [float(t) for t in np.asarray(v, dtype=float).reshape(-1)]
    scale = 1.0 if th["cost"] is None else max(1.0, 1.0 / abs(th["cost"]))
    if len(v) != len(mv) or any(not (abs(a - b) <= 1e-9 * max(scale, abs(a), abs(b))) for a, b in zip(v, mv)):
        probs = ctx.ask("thprob", str(n), str(m), str(K), bits, str(j))
        ctx.count("th_value_mismatch:" + name)
        _viol(ctx, "thompson-value", f"{name}: acquisition values differ from the definition (binary entropy of the "
              "prior Pareto probability minus the mean binary entropy of the posterior probabilities given the "
              f"evaluated objective's sample, divided by its cost) for objective {j}", case, kind="F",
              detail={"seen": v, "definition": mv, "cost": th["cost"], "probabilities": probs[:400]})
        return None
    ctx.count("th_values_checked", len(v))
    return mv


def check_calls(ctx, case, name, fcalls):
    last = None
    for c in fcalls:
        th = c.get("th")
        if th is None or c["j"] is None:
            continue
        if th["samples"] is None and not th["fresh"] and last is not None and th["mask"] is not None \
                and last["mask"] is not None and th["mask"].shape == last["mask"].shape \
                and np.array_equal(th["mask"], last["mask"]):
            th = dict(th, samples=None)        # cache hit: same choices, mask reused — nothing new to rebuild
        _th_check_call(ctx, case, name, th, int(c["j"]), len(c["x"]), c["v"])
        last = th


TH_SHAPES = ["random", "random", "dominant", "alternating", "fixedorder", "duplicates", "coarse"]


def gen_thompson(ctx, rng):
    from harness.cones import EXACT_CONES

    by_m = {2: ["orthant2", "acute2", "obtuse2", "skew2", "threefacet2"], 3: ["orthant3", "acute3", "fourfacet3"]}
    for k in range(ctx.n(120, 20000)):
        m = rng.choice([2, 2, 2, 3])
        r = rng.random()
        n = rng.choice([0, 1, 2]) if r < 0.08 else rng.randint(m, 6 if m == 2 else 5)
        K = rng.randint(1, 6)
        shape = TH_SHAPES[k % len(TH_SHAPES)]
        lat = 1 if shape == "coarse" else 3
        span = 3 if shape == "coarse" else 32

        def val():
            return core.dyadic(rng, -span, span, lat)

        if shape in ("random", "coarse"):
            ts = [[[val() for _ in range(K)] for _ in range(n)] for _ in range(m)]
        elif shape == "dominant":      # design 0 beats everything in every sample (orthant: always Pareto alone)
            ts = [[[(100.0 if i == 0 else val()) for i in range(K)] for _ in range(n)] for _ in range(m)]
        elif shape == "alternating":   # even samples favour even designs
            ts = [[[val() + (50.0 if (i + s_) % 2 == 0 else 0.0) for i in range(K)] for s_ in range(n)] for _ in range(m)]
        elif shape == "fixedorder":    # the same ranking in every sample: probabilities 0 or C(n,m)/n^m
            base = [[val() for _ in range(K)] for _ in range(m)]
            ts = [[list(base[j]) for _ in range(n)] for j in range(m)]
        else:                          # duplicates: two designs share all their samples
            ts = [[[val() for _ in range(K)] for _ in range(n)] for _ in range(m)]
            if K >= 2:
                for j in range(m):
                    for s_ in range(n):
                        ts[j][s_][K - 1] = ts[j][s_][0]
        costs = None if rng.random() < 0.35 else [rng.choice([0.5, 1.0, 2.0, 3.0, 0.1, 0.75]) for _ in range(m)]
        yield {"kind": "thompson", "n": n, "m": m, "K": K, "cone": rng.choice(by_m[m]), "shape": shape,
               "samples": ts, "costs": costs, "q": rng.choice([1, 1, 1, 2, 3]),
               "bad_index": rng.random() < 0.04}
    _ = EXACT_CONES


def run_thompson(ctx, case):
    import warnings

    with warnings.catch_warnings():
        warnings.simplefilter("ignore")   # numpy: mean of an empty tensor when num_thompson_samples = 0
        return _run_thompson(ctx, case)


def _run_thompson(ctx, case):
    from math import comb as _comb

    from harness.cones import EXACT_CONES, real_order
    from vopy.acquisition.acquisition import (ThompsonEntropyDecoupledAcquisition,
                                              optimize_decoupled_acqf_discrete)

    n, m, K = case["n"], case["m"], case["K"]
    W = EXACT_CONES[case["cone"]][0]
    order = real_order(W)
    table = np.array(case["samples"], dtype=float).reshape(m, n, K)
    costs = None if case.get("costs") is None else np.array(case["costs"], dtype=float)
    ctx.count("th_shape_" + case["shape"])
    ctx.count("th_n_%d" % n)
    ctx.count("th_m_%d" % m)

    class ScriptedList:
        """the two members of a ModelList the acquisition touches; Thompson samples of the design in row r are
        the scripted column of its id (first coordinate)"""
        output_dim = m

        def sample_from_single_posterior(self, x, dim_i, count=1):
            ids = np.asarray(x)[:, 0].astype(int)
            return table[dim_i][:count][:, ids].copy()

    _Forwards, _choices = _base()._Forwards, _base()._choices
    x = _choices(list(range(K)), 1)
    nontrivial = False
    try:
        acq = ThompsonEntropyDecoupledAcquisition(ScriptedList(), order, costs=None if costs is None else costs,
                                                  num_thompson_samples=n)
    except Exception as e:
        _viol(ctx, "thompson-crash:" + core.exc_key(e), f"constructor raised {type(e).__name__}: {e}", case, kind="F")
        ctx.case_done(case, False)
        return
    # ---- malformed: objective index out of range / missing
    if case.get("bad_index"):
        acq.evaluation_index = m
        try:
            acq.forward(x)
            code = "value"
        except Exception:
            code = "err"
        bits = _bits(acq._cache_pareto_mask) if acq._cache_pareto_mask is not None else "_"
        lean = ctx.ask("thval", str(n), str(m), str(K), bits, str(m), "none")
        if (lean == "err") != (code == "err") and n > 0:
            _viol(ctx, "thompson-bad-index", "evaluation_index = out_dim: code and model disagree on whether a value "
                  "exists", case, kind="F", detail={"code": code, "model": lean[:80]})
        ctx.count("th_bad_index")
        acq._clear_cache()
    # ---- every objective on the full choice list
    vals = []
    with _Forwards() as fw:
        for j in range(m):
            acq.evaluation_index = j
            try:
                acq.forward(x)
            except Exception as e:
                _viol(ctx, "thompson-crash:" + core.exc_key(e), f"forward raised {type(e).__name__}: {e}", case)
                ctx.case_done(case, False)
                return
        calls = list(fw.calls)
    if n == 0:
        # mean over an empty tensor: the code returns NaN for every design, the model has no value
        lean = ctx.ask("thval", str(n), str(m), str(K), "_", "0", "none")
        allnan = all(np.all(np.isnan(c["v"])) for c in calls)
        if lean != "err" or not allnan:
            _viol(ctx, "thompson-no-samples", "num_thompson_samples = 0: expected NaN values and an undefined model",
                  case, kind="F", detail={"model": lean[:80], "all_nan": bool(allnan)})
        ctx.count("th_no_samples")
        ctx.case_done(case, False)
        return
    for c in calls:
        th = c["th"]
        mv = _th_check_call(ctx, case, "thompson-direct", th, int(c["j"]), K, c["v"], samples_exact=True, W=W)
        if mv is None:
            ctx.case_done(case, True)
            return
        vals.append(mv)
    # exact probabilities: numpy's means of the exported mask against Thompson.priorProb / postProb
    mask = calls[0]["th"]["mask"]
    pri = np.mean(mask, axis=tuple(range(m)))
    cap = core.frac(_comb(n, m)) / core.frac(n ** m)
    for j in range(m):
        ans = ctx.ask("thprob", str(n), str(m), str(K), _bits(mask), str(j))
        post = np.mean(mask, axis=tuple(a for a in range(m) if a != j))
        want = core.qvec(pri) + " " + core.qmat(post)
        if K and ans != want:
            # both sides are single correctly rounded divisions of the same integers: equal unless the model's
            # quotient is not a double; compare as rationals with 1 ulp slack
            mp = ans.split(" ")
            ok = len(mp) == 2 and all(abs(float(a) - float(b)) <= 1e-15 for a, b in
                                      zip(core.parse_qvec(mp[0]) + sum(core.parse_qmat(mp[1]), []),
                                          [core.frac(t) for t in pri] + [core.frac(t) for r_ in post for t in r_]))
            if not ok:
                _viol(ctx, "thompson-model-probability", "Lean: prior / posterior probabilities differ from numpy's means "
                      "of the same mask", case, kind="F", detail={"lean": ans[:300], "numpy": want[:300]})
                break
    ctx.count("th_prob_checked")
    # observation (not a verdict: the property does not define "information gain"): a design that is
    # Pareto-optimal in EVERY Thompson sample is certain, yet — because the means run over the full tensor while
    # only strictly increasing combinations are filled — its prior probability is C(n,m)/n^m < 1 and its value > 0
    if n >= m and n >= 2:
        combs_ = list(itertools.combinations(range(n), m))
        for i in range(K):
            if combs_ and all(mask[c][i] for c in combs_):
                ctx.count("th_certain_design_info")
                if any(vals[j][i] > 1e-9 for j in range(m)):
                    ctx.count("th_certain_design_positive_gain_info")
    if any(1e-12 < float(t) < float(cap) - 1e-12 for t in pri) and len({round(t, 12) for r_ in vals for t in r_}) >= 2:
        nontrivial = True
    if any(float(t) > float(cap) + 1e-12 for t in pri):
        _viol(ctx, "thompson-prior-above-cap", "a prior probability exceeds C(n,m)/n^m although only strictly increasing "
              "sample combinations are filled", case, kind="F", detail={"prior": [float(t) for t in pri]})
    # ---- the optimiser's pick against the model's value table
    q = case["q"]
    acq2 = ThompsonEntropyDecoupledAcquisition(ScriptedList(), order, costs=None if costs is None else costs,
                                               num_thompson_samples=n)
    try:
        with _Forwards() as fw2:
            cand, avals, objs = optimize_decoupled_acqf_discrete(acq2, q, x)
    except Exception as e:
        _viol(ctx, "thompson-crash:" + core.exc_key(e), f"optimize_decoupled_acqf_discrete raised {type(e).__name__}: {e}",
              case)
        ctx.case_done(case, nontrivial)
        return
    check_calls(ctx, case, "thompson-direct", fw2.calls)
    cand = np.asarray(cand, dtype=float).reshape(-1, x.shape[1])
    avals = [float(t) for t in np.asarray(avals, dtype=float).reshape(-1)]
    objs = [int(o) for o in np.asarray(objs).reshape(-1)]
    flat = sorted(((vals[j][i], j, i) for j in range(m) for i in range(K)), reverse=True)
    if q == 1 and len(cand) == 1 and len(flat) >= 1:
        best = flat[0]
        gap = (best[0] - flat[1][0]) if len(flat) > 1 else 1.0
        scale = 1.0 if costs is None else max(1.0, float(np.max(1.0 / costs)))
        if gap > 1e-9 * max(scale, abs(best[0])):
            if (int(cand[0][0]), objs[0]) != (best[2], best[1]):
                _viol(ctx, "thompson-pick", "the (design, objective) pair picked by the decoupled optimiser is not the "
                      "maximiser of the model's Thompson-entropy values", case, kind="R",
                      detail={"picked": [int(cand[0][0]), objs[0]], "value": avals[0],
                              "model_best": [best[2], best[1]], "model_value": best[0]})
            elif not abs(avals[0] - best[0]) <= 1e-9 * max(scale, abs(best[0])):
                _viol(ctx, "thompson-pick", "the optimiser's acquisition value of its pick differs from the model's", case,
                      kind="F", detail={"value": avals[0], "model_value": best[0]})
            ctx.count("th_pick_checked")
        else:
            ctx.count("th_pick_tie_info")
    ctx.count("th_q_%d" % q)
    ctx.case_done(case, nontrivial, canon=case)


